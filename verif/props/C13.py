"""C13 - tables come back with their shape and every cell in place.

Space I (input shapes), bounded-exhaustive. Two families of cases, both plain JSON without tokens (tokens are
allocated at render time from Tokens(seed), so VERIF_SEED cannot change the set of cases or their fingerprints):

  text formats  docx pptx odt odp html epub rtf
      case = {"u": [[block, ...], ...], "o": {options}}      one inner list per unit (page / slide / chapter)
      block = "p" (a paragraph holding one token) | grid;  grid = [[kind, ...], ...] (rows of cells)
      kind  = "T" one paragraph | "E" empty cell | "P" two paragraphs | "N" nested 1x1 table | "M" paragraph + nested 1x1 table;
              cells with inline structure (family I): "R" one word written as two runs (docx / pptx: two runs; html / epub: the
              second run inside <b>/<i>/<em>/<span>/<code>; odt / odp / rtf: plain text) | "K" one word whose second half is a
              hyperlink | "W" two words, the second a hyperlink | "B" two words with a line break between them | "A" two words
              with a tab between them | "G" an empty paragraph, then a paragraph | "L" a list of two items (not pptx) |
              "H" a heading, then a paragraph (not pptx / odp);
              html / epub only: a suffix "h" ("Th", "Eh", "Ph", "Nh", "Rh" ...) makes the cell a header cell <th> (same content)
      options: "hr" n (ODF table:table-header-rows), "cr" [[t, r, c, n]] / "rr" [[t, r, n]] (ODF number-columns-repeated /
               number-rows-repeated), "html" spelling of the HTML renderer (a named variant or a dict, see
               c13_helpers.html_spelling), "rtf" writer options (row_props / eol)
  spreadsheets  xlsx ods xls
      case = {"sheets": [grid, ...], "o": {options}}; grid = rows of ADM cells with ["s", k] = k-th string token,
      ["s", "literal"], ["s2", k1, k2] = two-line string; None = no cell.
      options: "cr"/"rr" (ods repeats), "rep" (ods trailing repeat option), "w" writer options (xls rk/blank_records/datemode,
      xlsx inline_strings/date1904), "cm" [[sheet, r, c(, lines)]] cells carrying a comment (its text: one token of the
      hidden class M per line; ods office:annotation, xlsx comments part + legacy drawing, xls NOTE + text-box object)
  histories (all formats)
      case = {"seq": [case, case(, case)]}: the documents are written with one token source, then read one after the other
      in ONE process; every document is judged on its own with the clauses below (the property quantifies over tables, not
      over what was read before). Re-execution (shrinking, --replay) runs every case in a process without extraction history.

Families added to the bounded space (quick / thorough):
  H  HTML / EPUB markup spellings of one table: every td/th assignment of every grid up to 2x2 (thorough: up to 6 cells),
     one deviating <th> in grids up to 3x3 (4x4) and the four usual header layouts (first row, first column, both, all) of
     every shape up to 3x3 (4x4)  x  row sections {none, one tbody, thead+tbody, tbody+tfoot, thead+tbody+tfoot, one tbody
     per row}  x  every subset of omitted optional end tags {cells, rows, sections} (text/html only); cell contents E/P/N
     as data and header cell in the header layouts up to 2x2 (3x3) under 7 spellings incl. </p> omitted; secondary spellings
     (white space between tags, attributes incl. unquoted, upper-case names, colgroup/col) one at a time and together;
     paragraphs around / adjacent tables with row- and column-header cells under 6 spellings
  T  spreadsheets: trailing rows / columns of the used range holding only falsy typed values (0, 0.0, FALSE, zero duration,
     midnight; thorough: formulas giving them and mixed pairs): full / partial trailing row, two rows, trailing column with
     and without the header cell, two columns, row and column, 2x1 and 1x2 sheets
  F  spreadsheet histories: F1 the two date systems (xls DATEMODE, xlsx workbookPr/@date1904): for every date / date-time of
     the lattice the 1900-system workbook A, the 1904-system workbook B storing the SAME serial (the date 1462 days later) and
     the 1904-system workbook C holding the same date, all six ordered pairs at two cell positions (thorough: also x y x);
     F2 a date / time / duration / boolean cell and the plain number cell storing the same number, both orders (xls, xlsx);
     F3 all ordered pairs of cell kinds at one address (quick: one representative per kind, 11 x 11; thorough: the quick
     lattice squared); F4 all ordered pairs of 4 workbooks differing in string table size and sheet count
  I  cell contents with inline structure (kinds R K W B A G L H, all text formats): one such cell at every position of every
     grid up to 2x2 (3x3; two such cells of any kinds in grids of <= 4 cells), every ordered pair of kinds side by side and one
     above the other, next to empty cells, with paragraphs around / next to another table / in two units; html, epub: as data
     and header cell under 8 (html 11) spellings and every inline wrapper element; docx: inside content controls; rtf: 4
     writer spellings
  X  HTML-family serialisation spellings that do not change the document: XML empty-element tags for elements without
     content (<td/>, <td />, <th/>, <p/>; epub only) and comments between rows / cells and inside cells (html, epub): every
     grid of the grid space over {text, empty} x {td, th} x row sections x cell-paragraph spelling x white space / colgroup,
     with paragraphs around, adjacent tables, next chapter
  N  spreadsheet cells carrying a comment: every cell of every string grid up to 2x2 and all of them, every value of the
     typed lattice (body and row 0), two-line strings, empty cells inside the used range, second sheet, ods repeated
     neighbours (thorough: two-line comments, every pair of commented cells)
  E  text-format histories: all ordered pairs over the small / empty / nested 1x1 grids (thorough: also triples A B A with
     paragraphs around)

Oracle (only what the statement says):
  count:*      iterate_tables() yields exactly the source tables, in source order (a nested table may additionally come
               as its own 1x1 grid; an empty sheet may be omitted)
  shape:rows   get_table() has r rows;  shape:cols  row i has between len(source row i) and max c cells, the extra ones empty
  dim          get_dim() == (r, max c)      (only judged when the shape is right)
  cell:*       cell (i,j) holds exactly the tokens of source cell (i,j): none lost / duplicated / foreign / reordered,
               paragraphs separated by white space, no other text. A word split over runs / inline elements is still one
               word (cell:lost if it comes back in pieces); words separated by a line break or a tab stay separated
               (cell:sep); a link target, a comment text or any other text that is not cell content is cell:residue /
               cell:foreign; only the item markers of a list in the cell (bullet glyphs) are not judged
  nested:*     tokens of a nested table are in the outer cell or in their own grid (lost / neighbour / dup)
  cells        spreadsheet: a text / empty cell is not where the source has it (row too short / long, text lost, moved, invented)
  header:empty an empty cell of row 0 came back with content;  header:typed / value:<kind>  a typed cell (row 0 / body) does
               not keep its value
  raises       the extractor raised
"""
from __future__ import annotations

import io
import itertools
import json
import os
import random

from verif.gen.tokens import Tokens
from verif.mc import pool as P
from verif.props import c13_helpers as H

LEVEL = "exploration"
TEXT_FORMATS = ["docx", "pptx", "odt", "odp", "html", "epub", "rtf"]
SHEET_FORMATS = ["xlsx", "ods", "xls"]
NEST_OK = {"docx", "odt", "html", "epub", "rtf"}          # pptx / odp table cells hold paragraphs only
RAGGED_OK = {"docx", "odt", "odp", "html", "epub", "rtf"}  # DrawingML rows always have one a:tc per grid column
MULTIUNIT_OK = {"docx", "pptx", "odt", "odp", "epub", "rtf"}
NOTES_OK = {"ods", "xlsx", "xls"}                               # spreadsheet writers that can attach a comment to a cell
# cell contents with inline structure (family I): R two runs of one word, K word half inside a hyperlink, W two words (the second
# a hyperlink), B line break, A tab, G empty paragraph + paragraph, L list of two items, H heading + paragraph
INLINE_KINDS = ["R", "K", "W", "B", "A", "G", "L", "H"]
INLINE_NOT = {"pptx": {"L", "H"}, "odp": {"H"}}            # DrawingML / ODF draw table cells hold plain paragraphs (odp: and lists)
REPEATS = (1, 2, 100, 101)
LINK_URL = "http://h.example/x"


# =============================================================================================== text formats: build

def _p(tok):
    return ["p", [["t", tok]]]


class _Own(list):
    """the tokens of a source cell; markers: the cell holds a list, whose item markers (bullet glyphs) are not judged"""
    def __init__(self, toks, markers=False):
        super().__init__(toks)
        self.markers = markers


LIST_MARKERS = "\u00b7\u2022\u25e6\u25aa\u2023\u2043-\u2013*"


def _mk_cell(kind, tk):
    """-> (ADM cell blocks, own tokens, nested tokens); a trailing "h" (header cell, HTML <th>) does not change the content"""
    kind = kind[0]
    if kind == "T":
        a = tk.new("C")
        return [_p(a)], [a], []
    if kind == "E":
        return [], [], []
    if kind == "P":
        a, b = tk.new("C"), tk.new("C")
        return [_p(a), _p(b)], [a, b], []
    if kind == "N":
        n = tk.new("C")
        return [["tbl", [[[_p(n)]]]]], [], [n]
    if kind == "M":
        a, n = tk.new("C"), tk.new("C")
        return [_p(a), ["tbl", [[[_p(n)]]]]], [a], [n]
    if kind == "R":          # one word written as two runs (character formatting changes inside the word)
        a = tk.new("C")
        return [["p", [["t", a[:3]], ["t", a[3:]]]]], [a], []
    if kind == "K":          # one word whose second half is a hyperlink
        a = tk.new("C")
        return [["p", [["t", a[:3]], ["a", LINK_URL, [["t", a[3:]]]]]]], [a], []
    if kind == "W":          # two words and a blank, the second word (not the blank) is a hyperlink
        a, b = tk.new("C"), tk.new("C")
        return [["p", [["t", a + " "], ["a", LINK_URL, [["t", b]]]]]], [a, b], []
    if kind == "B":          # two lines of one paragraph (line break)
        a, b = tk.new("C"), tk.new("C")
        return [["p", [["t", a], ["br"], ["t", b]]]], [a, b], []
    if kind == "A":          # two words of one paragraph with a tab between them
        a, b = tk.new("C"), tk.new("C")
        return [["p", [["t", a], ["tab"], ["t", b]]]], [a, b], []
    if kind == "L":          # a list of two items
        a, b = tk.new("C"), tk.new("C")
        return [["ul", [[_p(a)], [_p(b)]]]], _Own([a, b], markers=True), []
    if kind == "G":          # an empty paragraph in front of the text
        a = tk.new("C")
        return [["p", []], _p(a)], [a], []
    if kind == "H":          # a heading and a paragraph
        a, b = tk.new("C"), tk.new("C")
        return [["h", 2, [["t", a]]], _p(b)], [a, b], []
    raise ValueError("cell kind %r" % (kind,))


def build_text(case, tk):
    """-> (ADM doc, expected top-level tables). expected table = rows of (own tokens, nested tokens), repeats expanded."""
    units, exp = [], []
    for u in case["u"]:
        blocks = []
        for b in u:
            if b == "p":
                blocks.append(_p(tk.new("B")))
                continue
            rows, erows = [], []
            for row in b:
                r, er = [], []
                for kind in row:
                    cell, own, nested = _mk_cell(kind, tk)
                    r.append(cell)
                    er.append((own, nested))
                rows.append(r)
                erows.append(er)
            if any(kind.endswith("h") for row in b for kind in row):
                blocks.append(["tbl", rows, {"th": [[kind.endswith("h") for kind in row] for row in b]}])
            else:
                blocks.append(["tbl", rows])
            exp.append(erows)
        units.append(["unit", blocks, {}])
    o = case.get("o") or {}
    if o.get("cr") or o.get("rr"):
        exp = [_expand(t, ti, o.get("cr") or [], o.get("rr") or []) for ti, t in enumerate(exp)]
    return ["doc", {}, units], exp


def _expand(rows, ti, cr, rr):
    crd = {(r, c): n for t, r, c, n in cr if t == ti}
    rrd = {r: n for t, r, n in rr if t == ti}
    out = []
    for r, row in enumerate(rows):
        nr = []
        for c, cell in enumerate(row):
            nr.extend([cell] * crd.get((r, c), 1))
        for _ in range(rrd.get(r, 1)):
            out.append(list(nr))
    return out


def render_text(fmt, doc, o):
    from verif.gen import htmlfam, odf, ooxml, rtf
    if fmt not in ("html", "epub") and any(len(b) > 2 for u in doc[2] for b in u[1] if b[0] == "tbl"):
        raise NotImplementedError("header cells (kind suffix h) are an HTML notion")
    if fmt == "docx":
        return ooxml.docx(doc, opts=dict(o.get("docx") or {}) or None)
    if fmt == "pptx":
        return ooxml.pptx(doc)
    if fmt in ("odt", "odp"):
        opts = {}
        if o.get("hr"):
            opts["header_rows"] = o["hr"]
        if o.get("cr"):
            opts["cell_repeat"] = o["cr"]
        if o.get("rr"):
            opts["row_repeat"] = o["rr"]
        return getattr(odf, fmt)(doc, opts=opts)
    if fmt == "rtf":
        return rtf.rtf(doc, opts=dict(o.get("rtf") or {}))
    var = o.get("html", "p")
    if fmt == "html":
        if len(doc[2]) != 1:
            raise NotImplementedError("an HTML page is one unit")
        if not H.html_is_html_ok(var):
            raise NotImplementedError("text/html has no empty-element tags for non-void elements")
        return htmlfam.html_page(H.html_blocks(doc[2][0][1], var), "t").encode("utf-8")
    if fmt == "epub":
        if not H.html_is_xml_ok(var):
            raise NotImplementedError("XHTML has no optional end tags, upper-case names or unquoted attributes")
        return htmlfam.epub([htmlfam.xhtml_page(H.html_blocks(u[1], var, xml=True), "t") for u in doc[2]], {"title": "t"})
    raise ValueError(fmt)


_READERS = {
    "docx": ("sharepoint2text.parsing.extractors.ms_modern.docx_extractor", "read_docx"),
    "pptx": ("sharepoint2text.parsing.extractors.ms_modern.pptx_extractor", "read_pptx"),
    "xlsx": ("sharepoint2text.parsing.extractors.ms_modern.xlsx_extractor", "read_xlsx"),
    "xls": ("sharepoint2text.parsing.extractors.ms_legacy.xls_extractor", "read_xls"),
    "rtf": ("sharepoint2text.parsing.extractors.ms_legacy.rtf_extractor", "read_rtf"),
    "odt": ("sharepoint2text.parsing.extractors.open_office.odt_extractor", "read_odt"),
    "odp": ("sharepoint2text.parsing.extractors.open_office.odp_extractor", "read_odp"),
    "ods": ("sharepoint2text.parsing.extractors.open_office.ods_extractor", "read_ods"),
    "html": ("sharepoint2text.parsing.extractors.html_extractor", "read_html"),
    "epub": ("sharepoint2text.parsing.extractors.epub_extractor", "read_epub"),
}
_READER_CACHE = {}


def _reader(fmt):
    fn = _READER_CACHE.get(fmt)
    if fn is None:
        import importlib
        mod, name = _READERS[fmt]
        fn = _READER_CACHE[fmt] = getattr(importlib.import_module(mod), name)
    return fn


def extract_tables(fmt, data):
    """-> [(get_table(), (rows, columns) of get_dim()), ...] in iterate_tables() order over all yielded results"""
    fn = _reader(fmt)
    out = []
    for res in fn(io.BytesIO(data), "c13." + fmt):
        for t in res.iterate_tables():
            d = t.get_dim()
            out.append((t.get_table(), (d.rows, d.columns)))
    return out


# =============================================================================================== text formats: oracle

def _show(x, n=300):
    s = repr(x)
    return s if len(s) <= n else s[:n] + "..."


def _is_grid(tab):
    return isinstance(tab, list) and all(isinstance(r, list) for r in tab)


def check_text(exp, got):
    """-> (failures [(clause, message)], outcome class)"""
    fails = []
    src = [[[own + ["<" + ",".join(ne) + ">"] if ne else own for own, ne in row] for row in t] for t in exp]
    ctx = f"source tables {_show(src)}; returned {_show([g[0] for g in got])}"
    for tab, _ in got:
        if not _is_grid(tab):
            return [("shape:rows", f"get_table() is not a list of lists: {_show(tab)}")], ("nogrid",)
    i = 0
    pairs = []
    seen_own_grid = set()
    for k, et in enumerate(exp):
        nested_all = {t for row in et for _, ne in row for t in ne}
        one = len(et) == 1 and len(et[0]) == 1

        def own_grid(g):
            tab = g[0]
            if len(tab) != 1 or len(tab[0]) != 1:
                return None
            toks, _, res = H.cell_tokens(tab[0][0])
            if len(toks) == 1 and not res and toks[0] in nested_all and toks[0] not in seen_own_grid:
                return toks[0]
            return None
        while i < len(got) and not one and own_grid(got[i]):
            seen_own_grid.add(own_grid(got[i]))
            i += 1
        if i >= len(got):
            break
        pairs.append((k, i))
        i += 1
        while i < len(got) and own_grid(got[i]):
            seen_own_grid.add(own_grid(got[i]))
            i += 1
    if len(pairs) < len(exp):
        n_top = len(got) - len(seen_own_grid)
        return [("count:fewer", f"{len(exp)} tables in the source, {n_top} returned (lost or merged): {ctx}")], ("fewer", len(got))
    if i < len(got):
        return [("count:more", f"{len(exp)} tables in the source, {len(got) - len(seen_own_grid)} returned (invented or split): {ctx}")], ("more", len(got))
    for k, gi in pairs:
        et = exp[k]
        tab, dim = got[gi]
        r, c = len(et), max(len(row) for row in et)
        if len(tab) != r:
            fails.append(("shape:rows", f"table {k}: {len(tab)} rows returned, the source table has {r}: {ctx}"))
            continue
        shape_ok = True
        table_nested = {t for row in et for _, ne in row for t in ne}
        nested_seen = {}
        for ri, (erow, grow) in enumerate(zip(et, tab)):
            if not (len(erow) <= len(grow) <= c) or any(not H.is_empty_value(x) for x in grow[len(erow):]):
                fails.append(("shape:cols", f"table {k} row {ri}: {len(grow)} cells returned, the source row has {len(erow)} "
                                            f"(table width {c}): {ctx}"))
                shape_ok = False
                continue
            for ci, (own, nested) in enumerate(erow):
                toks, sep, res = H.cell_tokens(grow[ci])
                if getattr(own, "markers", False):
                    res = "".join(ch for ch in res if ch not in LIST_MARKERS)
                rest = [t for t in toks if t not in nested]
                for t in toks:
                    if t in nested:
                        nested_seen[t] = nested_seen.get(t, 0) + 1
                where = f"table {k} cell ({ri},{ci}) = {grow[ci]!r}, source cell holds {own}"
                if rest != own:
                    foreign = [t for t in rest if t not in own]
                    if foreign and all(t in table_nested for t in foreign):
                        fails.append(("nested:neighbour", f"{where}: text of a nested table of another cell: {ctx}"))
                    elif foreign:
                        fails.append(("cell:foreign", f"{where}: text of another cell / paragraph: {ctx}"))
                    elif any(t not in rest for t in own):
                        fails.append(("cell:lost", f"{where}: text missing: {ctx}"))
                    elif len(rest) != len(own):
                        fails.append(("cell:dup", f"{where}: text duplicated: {ctx}"))
                    else:
                        fails.append(("cell:order", f"{where}: paragraphs out of order: {ctx}"))
                elif not sep:
                    fails.append(("cell:sep", f"{where}: paragraphs run together without white space: {ctx}"))
                elif res:
                    fails.append(("cell:residue", f"{where}: text {res!r} that is not in the source cell: {ctx}"))
        for t in sorted(table_nested):
            n = nested_seen.get(t, 0)
            if n == 0 and t not in seen_own_grid:
                fails.append(("nested:lost", f"table {k}: nested table text {t} is neither in its outer cell nor in a grid of its own: {ctx}"))
            elif n > 1:
                fails.append(("nested:dup", f"table {k}: nested table text {t} appears {n} times in the returned grid: {ctx}"))
        if shape_ok and tuple(dim) != (r, c):
            fails.append(("dim", f"table {k}: get_dim() == {tuple(dim)}, source table is {r} x {c}: {ctx}"))
    # one message per clause is enough for triage
    uniq = {}
    for cl, m in fails:
        uniq.setdefault(cl, m)
    outcome = (tuple(sorted(uniq)), tuple(g[1] for g in got)[:4], len(seen_own_grid))
    return list(uniq.items()), outcome


# =============================================================================================== spreadsheets

def build_sheets(case, tk):
    """-> (ADM doc, expected grids per sheet (ADM cells with tokens, repeats expanded))"""
    toks = {}

    def tok(k):
        if k not in toks:
            toks[k] = tk.new("C")
        return toks[k]

    def conv(cell):
        if cell is None:
            return None
        k = cell[0]
        if k == "s":
            return ["s", tok(cell[1]) if isinstance(cell[1], int) else cell[1]]
        if k == "s2":
            return ["s", tok(cell[1]) + "\n" + tok(cell[2])]
        if k == "fml":
            return ["fml", cell[1], conv(cell[2])]
        return list(cell)
    sheets, exp = [], []
    o = case.get("o") or {}
    for si, grid in enumerate(case["sheets"]):
        g = [[conv(c) for c in row] for row in grid]
        sheets.append(["sheet", tk.new("N"), g])
        e = [list(r) for r in g]
        e = _expand(e, si, o.get("cr") or [], o.get("rr") or [])
        rep = o.get("rep")
        if rep and rep.get("on") == "value":
            if rep.get("cols"):
                e[-1] = e[-1] + [e[-1][-1]] * (rep["cols"] - 1)
            if rep.get("rows"):
                e = e + [list(e[-1]) for _ in range(rep["rows"] - 1)]
        exp.append(e)
    return ["doc", {}, sheets], exp


def build_notes(case, tk):
    """the cell comments of a spreadsheet case, option "cm": [[sheet, r, c(, lines)]] -> [[sheet, r, c, text]]; the text is
    one token of class M per line (allocated after the tokens of the sheets: call after build_sheets with the same tk)"""
    out = []
    for ent in (case.get("o") or {}).get("cm") or []:
        n = ent[3] if len(ent) > 3 else 1
        out.append([ent[0], ent[1], ent[2], "\n".join(tk.new("M") for _ in range(n))])
    return out


def render_sheets(fmt, doc, o, notes=None):
    from verif.gen import biff8, odf, ooxml
    w = dict(o.get("w") or {})
    if notes and fmt not in NOTES_OK:
        raise NotImplementedError("cell comments: no writer support for " + fmt)
    if fmt == "xlsx":
        if notes:
            w["comments_at"] = notes
        return ooxml.xlsx(doc, opts=w)
    if fmt == "xls":
        if notes:
            w["comments_at"] = notes
        return biff8.xls(doc, opts=w)
    if fmt == "ods":
        opts = {}
        if notes:
            opts["comments_at"] = notes
        if o.get("cr"):
            opts["cell_repeat"] = o["cr"]
        if o.get("rr"):
            opts["row_repeat"] = o["rr"]
        if o.get("rep"):
            opts["repeat"] = o["rep"]
        return odf.ods(doc, opts=opts)
    raise ValueError(fmt)


def _nonempty(cell):
    if cell is None:
        return False
    if cell[0] == "fml":
        return _nonempty(cell[2])
    return not (cell[0] == "s" and cell[1] == "")


def _variants(grid):
    """The readings of a sheet as a table: used range anchored at A1, and - if leading rows / columns hold nothing -
    anchored at the first used row / column. Trailing empty rows / columns never count (no cell exists there)."""
    g = [list(r) for r in grid]
    while g and not any(_nonempty(c) for c in g[-1]):
        g.pop()
    if not g:
        return [[]]
    lead_r = 0
    while not any(_nonempty(c) for c in g[lead_r]):
        lead_r += 1
    first_c = min(ci for row in g for ci, c in enumerate(row) if _nonempty(c))
    out = []
    for dr in sorted({0, lead_r}):
        for dc in sorted({0, first_c}):
            out.append([row[dc:] for row in g[dr:]])
    return out


def _need(row):
    n = 0
    for i, c in enumerate(row):
        if _nonempty(c):
            n = i + 1
    return n


def _kind(spec):
    if spec is None:
        return "empty"
    if spec[0] == "fml":
        return _kind(spec[2])
    return spec[0]


def check_grid(si, egrid, tab, dim):
    """clauses: shape:rows; cells (a text / empty cell of the body or a text cell of row 0 is not where the source has it: row
    too short / too long, text lost, moved or invented); header:empty (an empty cell of row 0 came back with content);
    header:typed / value:<kind> (a typed cell does not keep its value); dim"""
    fails = []
    r = len(egrid)
    c = max(_need(row) for row in egrid)
    if len(tab) != r:
        return [("shape:rows", f"sheet {si}: {len(tab)} rows returned, the used range has {r}")]
    shape_ok = True
    for ri, (erow, grow) in enumerate(zip(egrid, tab)):
        need = _need(erow)
        if not (need <= len(grow) <= c):
            fails.append(("cells", f"sheet {si} row {ri}: {len(grow)} cells returned {_show(grow, 120)}, the source row has {need} (used width {c}) [row length]"))
            shape_ok = False
            continue
        for ci in range(len(grow)):
            spec = erow[ci] if ci < len(erow) else None
            if not _nonempty(spec):
                spec = None
            if H.value_matches(spec, grow[ci]):
                continue
            kind = _kind(spec)
            if kind == "empty":
                cl = "header:empty" if ri == 0 else "cells"
            elif kind == "s":
                cl = "cells"
            else:
                cl = "header:typed" if ri == 0 else "value:" + kind
            fails.append((cl, f"sheet {si} cell ({ri},{ci}): source {spec!r}, returned {grow[ci]!r}"))
    if shape_ok and tuple(dim) != (r, c):
        fails.append(("dim", f"sheet {si}: get_dim() == {tuple(dim)}, used range is {r} x {c}"))
    return fails


def check_sheets(exp, got):
    ctx = f"source sheets {_show(exp, 400)}; returned {_show([g[0] for g in got], 400)}"
    for tab, _ in got:
        if not _is_grid(tab):
            return [("shape:rows", f"get_table() is not a list of lists: {_show(tab)}")], ("nogrid",)
    nonempty = [k for k, g in enumerate(exp) if any(_nonempty(c) for row in g for c in row)]
    if len(got) == len(exp):
        idx = list(range(len(exp)))
    elif len(got) == len(nonempty):
        idx = nonempty
    elif len(got) < len(nonempty):
        return [("count:fewer", f"{len(exp)} sheets, {len(got)} tables returned: {ctx}")], ("fewer", len(got))
    else:
        return [("count:more", f"{len(exp)} sheets, {len(got)} tables returned: {ctx}")], ("more", len(got))
    fails = []
    for k, (tab, dim) in zip(idx, got):
        vs = _variants(exp[k])
        if vs == [[]]:
            if any(not H.is_empty_value(x) for row in tab for x in row):
                fails.append(("cells", f"sheet {k} is empty, returned {_show(tab)}"))
            continue
        # judge against the reading whose shape fits the result best (A1-anchored first), then the one with fewest failures
        best = None
        for v in vs:
            f = check_grid(k, v, tab, dim)
            rank = (sum(1 for cl, m in f if cl == "shape:rows" or m.endswith("[row length]")), len(f))
            if best is None or rank < best[0]:
                best = (rank, f)
            if not f:
                break
        fails += best[1]
    uniq = {}
    for cl, m in fails:
        uniq.setdefault(cl, m + ": " + ctx)
    outcome = (tuple(sorted(uniq)), tuple(g[1] for g in got)[:3])
    return list(uniq.items()), outcome


# =============================================================================================== evaluate / reexec

def evaluate(fmt, case, seed=0):
    """Generator errors propagate (the case is not expressible: a harness matter); extractor errors are data.
    A sequence case {"seq": [case, ...]} is a history: its documents are written with ONE token source (so the same place
    of two documents holds different text), read one after the other in this process, and each is judged on its own."""
    tk = Tokens(seed)
    if "seq" not in case:
        return _evaluate_one(fmt, case, tk)
    n = len(case["seq"])
    docs = [_render_one(fmt, sub, tk) for sub in case["seq"]]      # all documents exist before the first one is read
    uniq, ocs = {}, []
    for k, (sub, (exp, data)) in enumerate(zip(case["seq"], docs)):
        f, oc = _judge_one(fmt, sub, exp, data)
        ocs.append(oc[0] if oc and isinstance(oc[0], tuple) else oc)
        for cl, m in f:
            uniq.setdefault(cl, f"document {k + 1} of {n} read one after the other in one process: {m}")
    return list(uniq.items()), ("seq",) + tuple(ocs)


def _render_one(fmt, case, tk):
    o = case.get("o") or {}
    if "sheets" in case:
        doc, exp = build_sheets(case, tk)
        return exp, render_sheets(fmt, doc, o, build_notes(case, tk))
    doc, exp = build_text(case, tk)
    return exp, render_text(fmt, doc, o)


def _judge_one(fmt, case, exp, data):
    try:
        got = extract_tables(fmt, data)
    except Exception as e:  # noqa
        return [("raises", f"{type(e).__name__}: {e}")], ("raises", type(e).__name__)
    if "sheets" in case:
        return check_sheets(exp, got)
    return check_text(exp, got)


def _evaluate_one(fmt, case, tk):
    exp, data = _render_one(fmt, case, tk)
    return _judge_one(fmt, case, exp, data)


def describe(fmt, case, seed=0):
    """written-out form of one case for the evidence file: source grids (with tokens) and what came back"""
    tk = Tokens(seed)
    if "seq" in case:
        return {"sequence": [_describe_one(fmt, sub, tk) for sub in case["seq"]]}
    return _describe_one(fmt, case, tk)


def _describe_one(fmt, case, tk):
    o = case.get("o") or {}
    if "sheets" in case:
        doc, exp = build_sheets(case, tk)
        data = render_sheets(fmt, doc, o, build_notes(case, tk))
        src = exp
    else:
        doc, exp = build_text(case, tk)
        data = render_text(fmt, doc, o)
        src = [[[{"paragraphs": own, "nested_table": ne} if ne else own for own, ne in row] for row in t] for t in exp]
    try:
        got = [{"table": _show(t, 400), "dim": list(d)} for t, d in extract_tables(fmt, data)]
    except Exception as e:  # noqa
        got = f"{type(e).__name__}: {e}"
    return {"source_tables": json.loads(json.dumps(src))[:3] if len(json.dumps(src)) < 1500 else _show(src, 600), "document_bytes": len(data), "returned": got}


def reexec(fmt, case):
    """Re-execute ONE case with no extraction history: in a forked child of this process, which itself never extracts
    anything (it only imports the reader), so that the verdict on a case - in particular on a history {"seq": [...]} - is a
    function of the case alone, whatever was re-executed before (shrinking) and in a fresh `--replay` process alike."""
    seed = int(os.environ.get("VERIF_SEED", "0") or 0)
    _reader(fmt)
    from verif.gen import biff8, htmlfam, odf, ooxml, rtf  # noqa: F401  (imported here so that the children need not)
    if not hasattr(os, "fork") or os.environ.get("VERIF_C13_NOFORK"):
        return evaluate(fmt, case, seed)[0]
    rd, wr = os.pipe()
    pid = os.fork()
    if pid == 0:
        code = 0
        try:
            os.close(rd)
            try:
                out = {"ok": [[cl, m] for cl, m in evaluate(fmt, case, seed)[0]]}
            except BaseException as e:  # noqa  (generator / harness problem: re-raised in the parent)
                out = {"err": f"{type(e).__name__}: {e}"}
            with os.fdopen(wr, "wb") as f:
                f.write(json.dumps(out).encode("utf-8"))
        except BaseException:  # noqa
            code = 1
        finally:
            os._exit(code)
    os.close(wr)
    with os.fdopen(rd, "rb") as f:
        raw = f.read()
    os.waitpid(pid, 0)
    if not raw:
        raise RuntimeError("C13 reexec: the child process gave no result")
    out = json.loads(raw.decode("utf-8"))
    if "err" in out:
        raise RuntimeError("C13 reexec: " + out["err"])
    return [(cl, m) for cl, m in out["ok"]]


# =============================================================================================== shrinking / embedding

_SIMPLE_TYPED = ["i", 5]
_CANON = {"i": 5, "f": 2.5, "b": True, "d": "2020-02-03", "dt": "2020-02-03T04:05:06", "tm": "12:30:00", "dur": 3600, "err": "#DIV/0!"}


def _smaller_n(n):
    return [m for m in REPEATS if m < n][::-1]


def _with_opts(case, o):
    c = {k: v for k, v in case.items() if k != "o"}
    o = {k: v for k, v in o.items() if v}
    if o:
        c["o"] = o
    return c


def _shrink_opts(case):
    o = case.get("o") or {}
    for key in sorted(o):
        yield _with_opts(case, {k: v for k, v in o.items() if k != key})
    for key in ("cr", "rr"):
        for i, ent in enumerate(o.get(key) or []):
            if len(o[key]) > 1:
                yield _with_opts(case, dict(o, **{key: o[key][:i] + o[key][i + 1:]}))
            for m in _smaller_n(ent[-1]):
                yield _with_opts(case, dict(o, **{key: o[key][:i] + [ent[:-1] + [m]] + o[key][i + 1:]}))
    rep = o.get("rep")
    if rep:
        for key in ("cols", "rows"):
            if rep.get(key):
                for m in [None] + _smaller_n(rep[key]):
                    yield _with_opts(case, dict(o, rep=dict(rep, **{key: m})))
    if "sheets" in case and len(o.get("cm") or []) > 1:
        for i in range(len(o["cm"])):
            yield _with_opts(case, dict(o, cm=o["cm"][:i] + o["cm"][i + 1:]))
    for i, ent in enumerate(o.get("cm") or [] if "sheets" in case else []):
        if len(ent) > 3:
            yield _with_opts(case, dict(o, cm=o["cm"][:i] + [ent[:3]] + o["cm"][i + 1:]))
    for key in sorted(o.get("w") or {}):
        yield _with_opts(case, dict(o, w={k: v for k, v in o["w"].items() if k != key}))
    for key in sorted(o.get("rtf") or {}):
        yield _with_opts(case, dict(o, rtf={k: v for k, v in o["rtf"].items() if k != key}))
    for key in sorted(o.get("docx") or {}):
        yield _with_opts(case, dict(o, docx={k: v for k, v in o["docx"].items() if k != key}))
    sp = o.get("html")
    if isinstance(sp, dict):
        for key in sorted(sp):
            if key == "omit":
                for ch in sp["omit"]:
                    yield _with_opts(case, dict(o, html=dict(sp, omit=sp["omit"].replace(ch, ""))))
            elif key == "sec":
                if sp["sec"] != "none":
                    yield _with_opts(case, dict(o, html=dict(sp, sec="none")))
                    if sp["sec"] not in ("body", "none"):
                        yield _with_opts(case, dict(o, html=dict(sp, sec="body")))
            elif key == "v":
                if sp["v"] != "bare":
                    yield _with_opts(case, dict(o, html=dict(sp, v="bare")))
            else:
                yield _with_opts(case, dict(o, html={k: v for k, v in sp.items() if k != key}))


def _remap(o, ti, fr=None, fc=None, drop=False):
    """repeat options after an edit of table / sheet number ti: fr(r) -> new row index or None, fc(r, c) -> new column
    index or None; drop: the table itself is removed (later tables move up)"""
    o = dict(o)
    for key in ("cr", "rr", "cm"):
        if not o.get(key) or not isinstance(o[key], list):
            continue
        out = []
        for ent in o[key]:
            t, r = ent[0], ent[1]
            if t != ti:
                out.append([t - 1 if drop and t > ti else t] + list(ent[1:]))
                continue
            if drop:
                continue
            r2 = fr(r) if fr else r
            if r2 is None:
                continue
            if key in ("cr", "cm"):
                c2 = fc(r, ent[2]) if fc else ent[2]
                if c2 is None:
                    continue
                out.append([t, r2, c2] + list(ent[3:]))
            else:
                out.append([t, r2, ent[2]])
        o[key] = out
    return o


def _grid_shrinks(grid, cell_simpler):
    """-> (smaller grid, fr, fc)"""
    if len(grid) > 1:
        for i in range(len(grid)):
            yield grid[:i] + grid[i + 1:], (lambda r, i=i: None if r == i else r - (r > i)), None
    width = max(len(r) for r in grid)
    lens = [len(r) for r in grid]
    for j in range(width):
        if all(n > 1 or n <= j for n in lens):
            yield ([r[:j] + r[j + 1:] if len(r) > j else r for r in grid], None,
                   (lambda r, c, j=j: c if lens[r] <= j else (None if c == j else c - (c > j))))
    for i, row in enumerate(grid):
        if len(row) > 1:
            yield grid[:i] + [row[:-1]] + grid[i + 1:], None, (lambda r, c, i=i, n=len(row): None if (r == i and c == n - 1) else c)
        for j, cell in enumerate(row):
            for s in cell_simpler(cell, i, j):
                yield grid[:i] + [row[:j] + [s] + row[j + 1:]] + grid[i + 1:], None, None


def _text_simpler(kind, i, j):
    h = kind[1:]
    if h:
        yield kind[0]
    if kind[0] == "M":
        yield "N" + h
    if kind[0] != "T":
        yield "T" + h


def _sheet_simpler(cell, i, j):
    if cell is None:
        return
    if not _nonempty(cell):
        yield None
        return
    if cell[0] == "s" and isinstance(cell[1], int):
        return
    if cell[0] == "fml":
        yield cell[2]
        return
    if cell[0] in _CANON and cell[1] != _CANON[cell[0]]:
        yield [cell[0], _CANON[cell[0]]]
    if cell != _SIMPLE_TYPED and cell[0] not in ("s", "s2"):
        yield list(_SIMPLE_TYPED)
    yield ["s", 60 + 8 * i + j]


def shrinks(case):
    if "seq" in case:
        # a failure that does not need the history is the failure of one document alone; then shorter / simpler histories
        seq = case["seq"]
        for sub in seq:
            yield sub
        if len(seq) > 2:
            for i in range(len(seq)):
                yield {"seq": seq[:i] + seq[i + 1:]}
        for i, sub in enumerate(seq):
            for sub2 in shrinks(sub):
                yield {"seq": seq[:i] + [sub2] + seq[i + 1:]}
        return
    o = case.get("o") or {}
    if "sheets" in case:
        sh = case["sheets"]
        if len(sh) > 1:
            for i in range(len(sh)):
                yield _with_opts(dict(case, sheets=sh[:i] + sh[i + 1:]), _remap(o, i, drop=True))
        for i, g in enumerate(sh):
            if not g or not any(g):
                continue
            for g2, fr, fc in _grid_shrinks(g, _sheet_simpler):
                yield _with_opts(dict(case, sheets=sh[:i] + [g2] + sh[i + 1:]), _remap(o, i, fr, fc))
            # all cells equal to one non-token cell -> one and the same string token (keeps duplicates duplicated)
            distinct = []
            for row in g:
                for cell in row:
                    if cell is not None and not (cell[0] == "s" and isinstance(cell[1], int)) and cell not in distinct:
                        distinct.append(cell)
            for d in distinct:
                if sum(1 for row in g for cell in row if cell == d) > 1:
                    g2 = [[["s", 70] if cell == d else cell for cell in row] for row in g]
                    yield dict(case, sheets=sh[:i] + [g2] + sh[i + 1:])
        yield from _shrink_opts(case)
        return
    us = case["u"]

    def tindex(ui, bi):
        return sum(1 for x in us[:ui] for y in x if isinstance(y, list)) + sum(1 for y in us[ui][:bi] if isinstance(y, list))
    if len(us) > 1:
        for i in range(len(us)):
            oo = o
            for _ in [y for y in us[i] if isinstance(y, list)]:
                oo = _remap(oo, tindex(i, 0), drop=True)
            c = _with_opts(dict(case, u=us[:i] + us[i + 1:]), oo)
            if any(isinstance(x, list) for uu in c["u"] for x in uu):
                yield c
    for ui, u in enumerate(us):
        for bi, b in enumerate(u):
            if len(u) > 1:
                oo = _remap(o, tindex(ui, bi), drop=True) if isinstance(b, list) else o
                c = _with_opts(dict(case, u=us[:ui] + [u[:bi] + u[bi + 1:]] + us[ui + 1:]), oo)
                if any(isinstance(x, list) for uu in c["u"] for x in uu):
                    yield c
            if isinstance(b, list):
                ti = tindex(ui, bi)
                for g2, fr, fc in _grid_shrinks(b, _text_simpler):
                    yield _with_opts(dict(case, u=us[:ui] + [u[:bi] + [g2] + u[bi + 1:]] + us[ui + 1:]), _remap(o, ti, fr, fc))
    yield from _shrink_opts(case)


def fingerprint_view(case):
    """string-token indices renumbered by first occurrence (they only say which cells hold the same text)"""
    if "seq" in case:
        return {"seq": [fingerprint_view(sub) for sub in case["seq"]]}
    if "sheets" not in case:
        return case
    ren = {}

    def r(k):
        if k not in ren:
            ren[k] = len(ren)
        return ren[k]

    def conv(cell):
        if cell is None:
            return None
        if cell[0] == "s" and isinstance(cell[1], int):
            return ["s", r(cell[1])]
        if cell[0] == "s2":
            return ["s2", r(cell[1]), r(cell[2])]
        if cell[0] == "fml":
            return ["fml", cell[1], conv(cell[2])]
        return cell
    return dict(case, sheets=[[[conv(c) for c in row] for row in g] for g in case["sheets"]])


def _sub(small, big, eq):
    it = iter(big)
    return all(any(eq(s, b) for b in it) for s in small)


def _cell_eq(s, b):
    if s is None or b is None:
        return s is None and b is None
    if isinstance(s, str) or isinstance(b, str):
        return s == b or (isinstance(b, str) and s == b[:1])       # a data cell kind also stands for the header cell of that kind
    if s[0] == "s" and isinstance(s[1], int):
        return b[0] in ("s", "s2")
    if s == _SIMPLE_TYPED:
        return b[0] not in ("s", "s2")
    return s == b


def _grid_emb(s, b):
    if isinstance(s, str) or isinstance(b, str):
        return s == b
    return _sub(s, b, lambda rs, rb: _sub(rs, rb, _cell_eq))


def embeds(small, big):
    """Is the failing case `big` explained by the minimal shape `small`? (rows / cells / blocks / units of small are a
    subsequence of big's, options of small are present in big)"""
    if "seq" in small:
        return "seq" in big and _sub(small["seq"], big["seq"], embeds)
    if "seq" in big:
        return any(embeds(small, sub) for sub in big["seq"])
    if ("sheets" in small) != ("sheets" in big):
        return False
    so, bo = small.get("o") or {}, big.get("o") or {}
    for k, v in so.items():
        if k not in bo:
            return False
        if k in ("cr", "rr"):
            if sorted(e[-1] for e in v) != sorted(e[-1] for e in bo[k]):
                return False
        elif k == "cm":
            if len(v) > len(bo[k]):
                return False
        elif k == "html" and isinstance(v, dict) and isinstance(bo[k], dict):
            a, b = H.html_spelling(v), H.html_spelling(bo[k])
            if a["v"] != b["v"] or a["sec"] not in ("none", b["sec"]) or not set(a["omit"]) <= set(b["omit"]):
                return False
            if any(a.get(f) and not b.get(f) for f in H.HTML_FLAGS):
                return False
        elif bo[k] != v:
            return False
    if "sheets" in small:
        return _sub(small["sheets"], big["sheets"], _grid_emb)
    return _sub(small["u"], big["u"], lambda us, ub: _sub(us, ub, _grid_emb))


# =============================================================================================== enumeration

def _shapes(n):
    return [(r, c) for r in range(1, n + 1) for c in range(1, n + 1)]


def _full(r, c, kinds):
    for vec in itertools.product(kinds, repeat=r * c):
        yield [list(vec[i * c:(i + 1) * c]) for i in range(r)]


def _dev(r, c, base, others, maxdev):
    """all grids that differ from the all-`base` grid in at most maxdev cells"""
    cells = [(i, j) for i in range(r) for j in range(c)]
    for d in range(0, maxdev + 1):
        for pos in itertools.combinations(cells, d):
            for vals in itertools.product(others, repeat=d):
                g = [[base] * c for _ in range(r)]
                for (i, j), v in zip(pos, vals):
                    g[i][j] = v
                yield g


def _tgrid(r, c, kind="T"):
    return [[kind] * c for _ in range(r)]


def _grid_space(quick, kinds, maxn_quick=3, maxn_thorough=4):
    """quick: every grid up to 2x2, larger ones (up to 3x3) with one deviating cell; thorough: every grid with at most
    6 cells (r, c <= 4), larger ones with <= 2 deviating cells (3x3: <= 3)."""
    others = [k for k in kinds if k != kinds[0]]
    if quick:
        for r, c in _shapes(maxn_quick):
            if r <= 2 and c <= 2:
                yield from _full(r, c, kinds)
            else:
                yield from _dev(r, c, kinds[0], others, 1)
    else:
        for r, c in _shapes(maxn_thorough):
            if r * c <= 6:
                yield from _full(r, c, kinds)
            else:
                yield from _dev(r, c, kinds[0], others, 3 if (r, c) == (3, 3) else 2)


def text_cases(tier, fmt):
    quick = tier == "quick"
    kinds = ["T", "E", "P"] + (["N"] if fmt in NEST_OK else [])
    # A: one table alone
    for g in _grid_space(quick, kinds):
        yield {"u": [[g]]}
    # A': paragraph followed by a nested table in one cell
    if fmt in NEST_OK:
        for r, c in _shapes(2 if quick else 3):
            for g in _dev(r, c, "T", ["M"], 1):
                if any("M" in row for row in g):
                    yield {"u": [[g]]}
    # B: ragged rows (every vector of row lengths, not all equal)
    if fmt in RAGGED_OK:
        n = 3 if quick else 4
        for r in range(2, n + 1):
            for lens in itertools.product(range(1, n + 1), repeat=r):
                if len(set(lens)) == 1:
                    continue
                g = [["T"] * k for k in lens]
                yield {"u": [[g]]}
                if not quick and r <= 3:
                    for i in range(r):
                        for j in range(lens[i]):
                            g2 = [list(row) for row in g]
                            g2[i][j] = "E"
                            yield {"u": [[g2]]}
    # C: neighbours - paragraphs around, adjacent tables, tables in different units
    small = [_tgrid(r, c) for r, c in _shapes(2)] + ([] if quick else [_tgrid(3, 3), _tgrid(1, 3), _tgrid(3, 1)])
    empt = [_tgrid(1, 1, "E"), _tgrid(2, 2, "E")]
    one = _tgrid(1, 1)
    for g in small + empt:
        yield {"u": [["p", g, "p"]]}
        yield {"u": [["p", g]]}
        yield {"u": [[g, "p"]]}
    for g1 in small + empt:
        for g2 in small + empt:
            yield {"u": [[g1, g2]]}
            yield {"u": [[g1, "p", g2]]}
            if g1 in small and g2 in small:
                yield {"u": [["p", g1, g2, "p"]]}
                yield {"u": [[g1, g2, one]]}
            if fmt in MULTIUNIT_OK:
                yield {"u": [[g1], [g2]]}
                if g1 in small and g2 in small:
                    yield {"u": [[g1], ["p"], [g2]]}
                    yield {"u": [["p", g1], [g2, "p"]]}
    if fmt in MULTIUNIT_OK:
        for g in small:
            yield {"u": [["p"], [g]]}
            yield {"u": [[g], ["p"]]}
    # D: format options
    reduced = list(_grid_space(True, kinds))
    if fmt in ("odt", "odp"):
        for r, c in _shapes(2 if quick else 3):
            for hr in range(1, r + 1):
                yield {"u": [[_tgrid(r, c)]], "o": {"hr": hr}}
                yield {"u": [["p", _tgrid(r, c), _tgrid(1, 1)]], "o": {"hr": hr}}
        for r, c in _shapes(2):
            cells = [(i, j) for i in range(r) for j in range(c)]
            for n in REPEATS:
                for i, j in cells:
                    for kind in ("T", "E"):
                        g = _tgrid(r, c)
                        g[i][j] = kind
                        yield {"u": [[g]], "o": {"cr": [[0, i, j, n]]}}
                for i in range(r):
                    yield {"u": [[_tgrid(r, c)]], "o": {"rr": [[0, i, n]]}}
                    g = _tgrid(r, c)
                    g[i] = ["E"] * c
                    yield {"u": [[g]], "o": {"rr": [[0, i, n]]}}
            if not quick:
                for n in REPEATS:
                    for m in REPEATS:
                        for i, j in cells:
                            for i2 in range(r):
                                yield {"u": [[_tgrid(r, c)]], "o": {"cr": [[0, i, j, n]], "rr": [[0, i2, m]]}}
                        for (i, j), (i2, j2) in itertools.combinations(cells, 2):
                            yield {"u": [[_tgrid(r, c)]], "o": {"cr": [[0, i, j, n], [0, i2, j2, m]]}}
        # second table repeated (table index 1)
        for n in REPEATS:
            yield {"u": [[_tgrid(1, 2), _tgrid(1, 2)]], "o": {"cr": [[1, 0, 0, n]]}}
            yield {"u": [[_tgrid(2, 1), _tgrid(2, 1)]], "o": {"rr": [[1, 1, n]]}}
    if fmt in ("html", "epub"):
        variants = [v for v in H.HTML_VARIANTS if v != "p" and not (fmt == "epub" and v == "implied")]
        for v in variants:
            space = _grid_space(quick, kinds) if v == "bare" else reduced
            for g in space:
                yield {"u": [[g]], "o": {"html": v}}
            for g1 in small:
                yield {"u": [["p", g1, "p"]], "o": {"html": v}}
                for g2 in small:
                    yield {"u": [[g1, g2]], "o": {"html": v}}
    if fmt in ("html", "epub"):
        yield from _html_spelling_cases(quick, fmt, small)
    # I: cell contents with inline structure;  X: serialisation spellings of empty elements / comments (HTML family)
    yield from _inline_cases(quick, fmt)
    if fmt in ("html", "epub"):
        yield from _xml_spelling_cases(quick, fmt)
    # E: histories - two documents (thorough: also three, A B A) read one after the other in one process; the documents of a
    #    history share one token source, so equal places hold different text
    pool_ = small + empt + ([_tgrid(1, 1, "N")] if fmt in NEST_OK else [])
    for g1 in pool_:
        for g2 in pool_:
            yield {"seq": [{"u": [[g1]]}, {"u": [[g2]]}]}
            if not quick:
                yield {"seq": [{"u": [["p", g1]]}, {"u": [[g2, "p"]]}, {"u": [["p", g1]]}]}
    if fmt == "docx":
        # every cell's content inside a block-level content control (form tables: w:tc/w:sdt/w:sdtContent/w:p)
        do = {"cell_sdt": True}
        for g in (_grid_space(quick, kinds) if not quick else reduced):
            yield {"u": [[g]], "o": {"docx": do}}
        for g1 in small:
            yield {"u": [["p", g1, "p"]], "o": {"docx": do}}
            for g2 in small:
                yield {"u": [[g1, g2]], "o": {"docx": do}}
    if fmt == "rtf":
        for ro in ({"row_props": "both"}, {"eol": "\r\n"}, {"eol": "\n"}, {"row_props": "both", "eol": "\r\n"}):
            for g in reduced:
                yield {"u": [[g]], "o": {"rtf": ro}}
            for g1 in small:
                yield {"u": [["p", g1, "p"]], "o": {"rtf": ro}}
                for g2 in small:
                    yield {"u": [[g1, g2]], "o": {"rtf": ro}}


def _inline_cases(quick, fmt):
    """Family I: cells whose content has inline structure (INLINE_KINDS): one such cell at every position of every grid up to
    2x2 (thorough: up to 3x3, and two such cells of any two kinds in grids of <= 4 cells), every ordered pair of kinds side by side and one above the
    other (quick: both in one 2x2 grid), next to empty cells, with paragraphs around and next to another table; html / epub: as data and as header cell
    under the cell-paragraph spellings, every inline wrapper element, row sections, omitted end tags (html) and the XML
    empty-element spelling (epub); docx: inside content controls; rtf: under the writer's line-end / row-property spellings"""
    kinds = [k for k in INLINE_KINDS if k not in INLINE_NOT.get(fmt, ())]
    htmlish = fmt in ("html", "epub")
    grids = []
    for r, c in _shapes(2 if quick else 3):
        for g in _dev(r, c, "T", kinds, 1 if quick or r * c > 4 else 2):
            if any(k != "T" for row in g for k in row):
                grids.append(g)
    for k1 in kinds:
        grids.append([[k1, "E"], ["E", k1]])
        grids.append([["E", k1]])
        grids.append([[k1], ["E"]])
        for k2 in kinds:
            grids.append([[k1, k2], [k2, k1]])
            if not quick:
                grids.append([[k1, k2]])
                grids.append([[k1], [k2]])
    if htmlish:
        for k in kinds:
            grids += [[[k + "h"]], [[k + "h", "Th"], ["T", "T"]], [[k + "h", "T"], ["Th", k]], [["Th", "Th"], ["T", k]], [["Th", k + "h"]]]
    ctx_grids = [[[k]] for k in kinds] + [[["T", k], [k, "T"]] for k in kinds]
    if not htmlish:
        opt_sets = [None]
        if fmt == "docx":
            opt_sets.append({"docx": {"cell_sdt": True}})
        if fmt == "rtf":
            opt_sets += [{"rtf": ro} for ro in ({"row_props": "both"}, {"eol": "\r\n"}, {"eol": "\n"}, {"row_props": "both", "eol": "\r\n"})]
        for o in opt_sets:
            for g in grids if o is None or not quick else [g for g in grids if len(g) * len(g[0]) <= 2]:
                yield dict({"u": [[g]]}, **({"o": o} if o else {}))
        for g in ctx_grids:
            yield {"u": [["p", g, "p"]]}
            yield {"u": [[g, _tgrid(1, 1)]]}
            yield {"u": [[_tgrid(1, 1), g]]}
            if fmt in MULTIUNIT_OK:
                yield {"u": [[g], [g]]}
        return
    html = fmt == "html"
    sps = [{"v": "p"}, {}, {"sec": "head"}, {"cm": 1}, {"ws": 1}]
    sps += ([{"omit": "c"}, {"omit": "cr"}, {"v": "p", "omit": "crp"}, {"upper": 1}, {"ws": 1, "omit": "cr"}, {"sec": "headfoot", "omit": "crs"}] if html
            else [{"sc": 1}, {"sc": 2, "v": "p"}, {"sc": 1, "cm": 1, "ws": 1}])
    for g in grids:
        small_g = len(g) * len(g[0]) <= 2
        for sp in sps if small_g or not quick else sps[:3] + sps[5:7]:
            if sp.get("sec") in ("head", "headfoot") and len(g) < 2:
                continue
            yield {"u": [[g]], "o": {"html": _sp(sp)}}
    for w in H.INLINE_WRAPS:
        for v in ("bare", "p"):
            for g in ([["R"]], [["T", "R"], ["R", "T"]], [["Rh", "R"]], [["R", "E"], ["E", "R"]]):
                yield {"u": [[g]], "o": {"html": {"v": v, "wrap": w}}}
                if html:
                    yield {"u": [[g]], "o": {"html": {"v": v, "wrap": w, "omit": "cr"}}}
    for g in ctx_grids:
        for sp in ({"v": "p"}, {}):
            yield {"u": [["p", g, "p"]], "o": {"html": _sp(sp)}}
            yield {"u": [[g, _tgrid(1, 1)]], "o": {"html": _sp(sp)}}
            yield {"u": [[_tgrid(1, 1), g]], "o": {"html": _sp(sp)}}
            if fmt in MULTIUNIT_OK:
                yield {"u": [[g], [g]], "o": {"html": _sp(sp)}}


def _xml_spelling_cases(quick, fmt):
    """Family X: one table under the serialisation spellings of the HTML family that do not change the document: XML
    empty-element tags for elements without content (<td/>, <td />, <th/>, <p/>; EPUB only - in text/html the slash is
    ignored) and comments between rows, between cells and inside cells (html and epub). Every grid of the bounded grid space
    over {text, empty} x {td, th} cells (quick: all up to 2x2, one deviating cell up to 3x3; thorough: all up to 4 cells, two
    deviating cells up to 4x4), x row sections x cell-paragraph spelling x white space / colgroup; with paragraphs
    around, next to another table and (epub) in the next chapter"""
    if quick:
        full = list(_grid_space(True, ["T", "E", "Eh", "Th"]))
    else:
        full = [g for r, c in _shapes(4)
                for g in (_full(r, c, ["T", "E", "Eh", "Th"]) if r * c <= 4 else _dev(r, c, "T", ["E", "Eh", "Th"], 2))]
    te = list(_grid_space(quick, ["T", "E"]))
    fams = []
    if fmt == "epub":
        fams += [(full, [{"sc": 1}, {"sc": 2}]),
                 (te, [{"sc": 1, "v": "p"}, {"sc": 1, "sec": "head"}, {"sc": 2, "sec": "bodies"}, {"sc": 1, "sec": "headfoot"},
                       {"sc": 2, "ws": 1, "cg": 1}, {"sc": 1, "cm": 1}, {"sc": 2, "sec": "body", "ws": 1}])]
    fams += [(te, [{"cm": 1}, {"cm": 1, "v": "p"}, {"cm": 1, "sec": "headfoot"}, {"cm": 1, "ws": 1, "sec": "bodies"}]
                  + ([{"cm": 1, "omit": "cr"}, {"cm": 1, "omit": "crs", "sec": "bodies"}, {"cm": 1, "upper": 1, "attr": 1}] if fmt == "html" else []))]
    for grids, sps in fams:
        for g in grids:
            for sp in sps:
                if sp.get("sec") in ("head", "foot", "headfoot") and len(g) < 2:
                    continue
                yield {"u": [[g]], "o": {"html": _sp(sp)}}
    # neighbours of a table with empty cells
    gs = [[["E"]], [["T", "E"]], [["E", "T"]], [["E"], ["T"]], [["T", "E"], ["E", "T"]], [["E", "E"], ["E", "E"]], [["Eh", "Th"], ["T", "E"]]]
    nsps = ([{"sc": 1}, {"sc": 2, "v": "p"}] if fmt == "epub" else []) + [{"cm": 1}]
    for sp in nsps:
        for g1 in gs:
            yield {"u": [["p", g1, "p"]], "o": {"html": _sp(sp)}}
            for g2 in gs[:5] + [_tgrid(1, 1)]:
                yield {"u": [[g1, g2]], "o": {"html": _sp(sp)}}
                yield {"u": [[g1, "p", g2]], "o": {"html": _sp(sp)}}
                if fmt == "epub":
                    yield {"u": [[g1], [g2]], "o": {"html": _sp(sp)}}


def _th_patterns(r, c):
    """the usual header layouts of an r x c table: first row, first column, both, everything"""
    yield [["Th" if i == 0 else "T" for j in range(c)] for i in range(r)]
    yield [["Th" if j == 0 else "T" for j in range(c)] for i in range(r)]
    yield [["Th" if i == 0 or j == 0 else "T" for j in range(c)] for i in range(r)]
    yield [["Th"] * c for i in range(r)]


def _spellings(fmt, nrows, quick):
    """every combination of row sections x omitted end tags (c cells, r rows, s sections) a table of nrows rows can have"""
    for sec in H.HTML_SECTIONS:
        if sec in ("head", "foot", "headfoot") and nrows < 2:
            continue
        for omit in ("", "c", "r", "cr") + (("s", "cs", "rs", "crs") if sec != "none" else ()):
            if omit and fmt == "epub":
                continue
            sp = {}
            if sec != "none":
                sp["sec"] = sec
            if omit:
                sp["omit"] = omit
            yield sp


def _sp(sp):
    return dict({"v": "bare"}, **sp)


def _html_spelling_cases(quick, fmt, small):
    """Markup spellings of one and the same table (family H): which cells are <th> (kind suffix h) x row sections x omitted
    optional end tags x secondary spellings (white space between tags, attributes, upper-case names, colgroup, </p> omitted)"""
    html = fmt == "html"
    # H1: every td/th assignment of the small grids under every sections x omission spelling
    if quick:
        grids = list(_grid_space(True, ["T", "Th"]))
    else:
        grids = list(_grid_space(False, ["T", "Th"]))
    for r, c in _shapes(3 if quick else 4):
        grids += list(_th_patterns(r, c))
    for g in grids:
        if not any(k.endswith("h") for row in g for k in row) and len(g) * len(g[0]) > 4:
            continue
        for sp in _spellings(fmt, len(g), quick):
            yield {"u": [[g]], "o": {"html": _sp(sp)}}
    # H2: cell contents (empty, two paragraphs, nested table; as data and as header cell) in header layouts
    kinds = ["E", "P", "N", "Eh", "Ph", "Nh"]
    sps = [{}, {"sec": "head"}] + ([{"omit": "c"}, {"omit": "cr"}, {"sec": "headfoot", "omit": "crs"}, {"v": "p", "omit": "cr"}, {"v": "p", "omit": "crp"}] if html else [{"v": "p"}])
    for r, c in _shapes(2 if quick else 3):
        bases = [_tgrid(r, c)] + list(_th_patterns(r, c))
        for base in bases:
            for i in range(r):
                for j in range(c):
                    for k in kinds:
                        g = [list(row) for row in base]
                        g[i][j] = k
                        for sp in sps:
                            if sp.get("sec") in ("head", "headfoot") and r < 2:
                                continue
                            yield {"u": [[g]], "o": {"html": _sp(sp)}}
    # H3: secondary spellings, one at a time and all together
    flags = [{"ws": 1}, {"cg": 1}] + ([{"attr": 1}, {"upper": 1}, {"ws": 1, "cg": 1, "attr": 1, "upper": 1}] if html else [{"ws": 1, "cg": 1}])
    base_sp = [{}, {"sec": "headfoot"}, {"sec": "bodies"}] + ([{"omit": "cr"}, {"omit": "crs", "sec": "headfoot"}, {"omit": "crs", "sec": "bodies"}] if html else [])
    fgrids = [g for g in grids if len(g) * len(g[0]) <= (4 if quick else 6)] + [_tgrid(r, c) for r, c in _shapes(2)]
    for g in fgrids:
        for fl in flags:
            for sp in base_sp:
                if sp.get("sec") == "headfoot" and len(g) < 2:
                    continue
                yield {"u": [[g]], "o": {"html": _sp(dict(sp, **fl))}}
    # H4: neighbours (paragraphs around, adjacent tables) of tables with row-header / column-header cells
    hsmall = [p for r, c in _shapes(2) for p in list(_th_patterns(r, c))[:2]]
    nsps = [{}, {"sec": "head"}] + ([{"omit": "c"}, {"omit": "cr"}, {"omit": "crs", "sec": "body"}, {"omit": "cr", "ws": 1}] if html else [{"ws": 1}])
    for sp in nsps:
        for g1 in hsmall:
            if sp.get("sec") == "head" and len(g1) < 2:
                continue
            yield {"u": [["p", g1, "p"]], "o": {"html": _sp(sp)}}
            for g2 in hsmall + small[:1]:
                if sp.get("sec") == "head" and len(g2) < 2:
                    continue
                yield {"u": [[g1, g2]], "o": {"html": _sp(sp)}}
                yield {"u": [[g1, "p", g2]], "o": {"html": _sp(sp)}}
                if fmt == "epub":
                    yield {"u": [[g1], [g2]], "o": {"html": _sp(sp)}}


# ---- spreadsheets

def _S(grid):
    """number the "S" / "P" cell kinds of a kind grid into distinct string tokens"""
    out, k = [], 0
    for row in grid:
        r = []
        for kind in row:
            if kind == "S":
                r.append(["s", k])
                k += 1
            elif kind == "E":
                r.append(None)
            elif kind == "P":
                r.append(["s2", k, k + 1])
                k += 2
            elif kind == "I":
                r.append(["i", 7 + k])
                k += 1
            else:
                raise ValueError(kind)
        out.append(r)
    return out


ERRORS = ["#DIV/0!", "#N/A", "#VALUE!", "#NAME?", "#REF!", "#NUM!", "#NULL!"]
TYPED_QUICK = [
    ["i", 0], ["i", 5], ["i", -1], ["f", 2.5], ["f", 3.0], ["f", -0.5], ["b", True], ["b", False],
    ["d", "2020-02-03"], ["dt", "2020-02-03T04:05:06"], ["tm", "12:30:00"], ["dur", 3600], ["dur", 90000],
    ["err", "#DIV/0!"], ["err", "#N/A"], ["fml", "=1+1", ["i", 2]], ["fml", "=A5&\"x\"", ["s", 40]], ["fml", "=1/0", ["err", "#DIV/0!"]],
    ["s", "12"], ["s", "1.5"], ["s", "TRUE"], ["s", "2020-01-01"], ["s", ""],
]
TYPED_MORE = [
    ["i", 1], ["i", 2147483648], ["i", 1000000000000000], ["i", -2147483649], ["f", 0.1], ["f", 1e-07], ["f", 1e+20], ["f", -3.0],
    ["f", 1234567.891], ["d", "1900-03-01"], ["d", "1999-12-31"], ["d", "2038-01-19"], ["d", "1900-02-28"], ["d", "1900-01-01"], ["d", "1904-01-02"],
    ["dt", "2020-02-03T00:00:00"], ["dt", "2020-02-03T23:59:59"], ["dt", "1999-12-31T12:00:00"],
    ["tm", "00:00:00"], ["tm", "00:00:01"], ["tm", "23:59:59"], ["tm", "06:00:00"],
    ["dur", 0], ["dur", 59], ["dur", 86399], ["dur", 86400], ["dur", 360000],
    ["fml", "=2.5*1", ["f", 2.5]], ["fml", "=1=1", ["b", True]], ["fml", "=A5", ["d", "2020-02-03"]], ["fml", "=A5+0", ["dt", "2020-02-03T04:05:06"]],
    ["fml", "=A5*1", ["tm", "12:30:00"]], ["fml", "=\"\"", ["s", ""]], ["fml", "=A6", ["err", "#N/A"]],
    ["s", "007"], ["s", "1e3"], ["s", "-5"], ["s", "FALSE"], ["s", "12:30"], ["s", "#N/A"], ["s", "=1+1"], ["s", "None"], ["s", "nan"],
] + [["err", e] for e in ERRORS if e not in ("#DIV/0!", "#N/A")]

HEADER_ALPHA = [["s", 1], ["s", 2], None, ["i", 5], ["i", 6], ["s", "5"]]


def _typed_ok(fmt, v):
    """values the writer of `fmt` can express"""
    c = v[2] if v[0] == "fml" else v
    if fmt == "ods" and c[0] == "err":
        from verif.gen import odf
        return c[1] in odf._ERR_FORMULA
    return True


def sheet_cases(tier, fmt):
    quick = tier == "quick"
    # A: shapes over {string, empty}, plus one two-line string / int deviating cell
    for kg in _grid_space(quick, ["S", "E"], 3, 4) if quick else _sheet_shapes_thorough():
        yield {"sheets": [_S(kg)]}
    for r, c in _shapes(2 if quick else 3):
        for kg in _dev(r, c, "S", ["P", "I"], 1):
            if any(k != "S" for row in kg for k in row):
                yield {"sheets": [_S(kg)]}
    # B: header rows
    bodies = [[], [[["s", 10], ["s", 11], ["s", 12]]], [[["s", 10], ["s", 11], ["s", 12]], [["s", 13], ["i", 14], ["s", 15]]]]
    for c in (1, 2, 3):
        if quick and c == 3:
            hdrs = [[0, 2, 2], [2, 0, 2], [2, 2, 0], [0, 0, 0], [0, 1, 0], [2, 2, 2], [3, 3, 4], [0, 1, 2], [0, 2, 1]]
            hdrs = [[HEADER_ALPHA[i] for i in h] for h in hdrs]
        else:
            hdrs = [list(h) for h in itertools.product(HEADER_ALPHA, repeat=c)]
        for h in hdrs:
            for body in bodies:
                yield {"sheets": [[list(h)] + [row[:c] for row in body]]}
    # C: typed value lattice at every position of small grids
    values = TYPED_QUICK + ([] if quick else TYPED_MORE)
    frames = [([[None]], 0, 0),
              ([[None, ["s", 1]], [["s", 2], ["s", 3]]], 0, 0), ([[["s", 0], None], [["s", 2], ["s", 3]]], 0, 1),
              ([[["s", 0], ["s", 1]], [None, ["s", 3]]], 1, 0), ([[["s", 0], ["s", 1]], [["s", 2], None]], 1, 1),
              ([[["s", 0]], [None]], 1, 0), ([[["s", 0]], [["s", 1]], [None]], 2, 0)]
    wopts = {"xlsx": [None, {"inline_strings": True}, {"date1904": True}],
             "xls": [None, {"rk": True}, {"datemode": 1}, {"blank_records": True}], "ods": [None]}[fmt]
    for v in values:
        if not _typed_ok(fmt, v):
            continue
        for frame, i, j in frames:
            g = [list(row) for row in frame]
            g[i][j] = v
            for w in (wopts if (i, j) == (1, 1) or not quick else wopts[:1]):
                if w and _is_datesys(w) and not _has_date(v):
                    continue
                if w and _is_datesys(w) and _before_1904(v):
                    continue
                if w and "rk" in w and v[0] != "i":
                    continue
                case = {"sheets": [g]}
                if w:
                    case["o"] = {"w": w}
                yield case
    # two typed values in one column under a text header (all ordered pairs of the quick lattice; thorough only)
    if not quick:
        vq = [v for v in TYPED_QUICK if _typed_ok(fmt, v)]
        for v1 in vq:
            for v2 in vq:
                yield {"sheets": [[[["s", 0], ["s", 1]], [v1, ["s", 2]], [v2, ["s", 3]]]]}
    # writer options on shape grids
    for w in wopts[1:]:
        if _is_datesys(w) or "rk" in w:
            continue
        for kg in _grid_space(True, ["S", "E"], 3, 4):
            yield {"sheets": [_S(kg)], "o": {"w": w}}
    # D: gaps (materialised empty cells / rows) and ODS repeat attributes
    for n in REPEATS:
        yield {"sheets": [[[["s", 0]] + [None] * n + [["s", 1]]]]}
        yield {"sheets": [[[["s", 0]]] + [[None]] * n + [[["s", 1]]]]}
        yield {"sheets": [[[["s", 0], ["s", 1]], [["s", 2]] + [None] * n + [["s", 3]]]]}
        yield {"sheets": [[[None] * n + [["s", 0]]]]}
        yield {"sheets": [[[None]] * n + [[["s", 0]]]]}
    if fmt == "ods":
        for n in REPEATS:
            yield {"sheets": [[[["s", 0], None, ["s", 1]]]], "o": {"cr": [[0, 0, 1, n]]}}
            yield {"sheets": [[[["s", 0]], [None], [["s", 1]]]], "o": {"rr": [[0, 1, n]]}}
            yield {"sheets": [[[["s", 0], ["s", 1]], [["s", 2], None, ["s", 3]]]], "o": {"cr": [[0, 1, 1, n]]}}
            yield {"sheets": [[[None, ["s", 0]]]], "o": {"cr": [[0, 0, 0, n]]}}
            yield {"sheets": [[[None], [["s", 0]]]], "o": {"rr": [[0, 0, n]]}}
            for r, c in _shapes(2):
                cells = [(i, j) for i in range(r) for j in range(c)]
                base = _S(_tgrid(r, c, "S"))
                for i, j in cells:
                    yield {"sheets": [base], "o": {"cr": [[0, i, j, n]]}}
                    g = [list(row) for row in base]
                    g[i][j] = ["i", 5]
                    yield {"sheets": [g], "o": {"cr": [[0, i, j, n]]}}
                for i in range(r):
                    yield {"sheets": [base], "o": {"rr": [[0, i, n]]}}
                if not quick:
                    for m in REPEATS:
                        for i, j in cells:
                            for i2 in range(r):
                                yield {"sheets": [base], "o": {"cr": [[0, i, j, n]], "rr": [[0, i2, m]]}}
            for m in [None] + list(REPEATS):
                for on in ("empty", "value"):
                    for base in (_S(_tgrid(1, 1, "S")), _S(_tgrid(2, 2, "S"))):
                        yield {"sheets": [base], "o": {"rep": {"cols": n, "rows": m, "on": on}}}
                        if n == REPEATS[0] and m is not None:
                            yield {"sheets": [base], "o": {"rep": {"cols": None, "rows": m, "on": on}}}
        if not quick:
            for base in (_S(_tgrid(1, 1, "S")), _S(_tgrid(2, 2, "S"))):
                yield {"sheets": [base], "o": {"rep": {"cols": 1000000, "rows": 1000000, "on": "empty"}}}
                yield {"sheets": [base], "o": {"rep": {"cols": 16384, "rows": 1048576, "on": "empty"}}}
    # T: falsy typed values (0, 0.0, FALSE, zero duration, midnight, formulas giving them) as the only content of the trailing
    #    rows / columns of the used range
    base = [[["s", 0], ["s", 1]], [["s", 2], ["s", 3]]]
    for z in FALSY if not quick else FALSY[:5]:
        if not _typed_ok(fmt, z):
            continue
        yield {"sheets": [base + [[z, z]]]}
        yield {"sheets": [base + [[z]]]}
        yield {"sheets": [base + [[None, z]]]}
        yield {"sheets": [base + [[z, z], [z, z]]]}
        yield {"sheets": [[row + [z] for row in base]]}
        yield {"sheets": [[base[0]] + [row + [z] for row in base[1:]]]}
        yield {"sheets": [[row + [z, z] for row in base]]}
        yield {"sheets": [[row + [z] for row in base] + [[z, z, z]]]}
        yield {"sheets": [[[["s", 0]], [z]]]}
        yield {"sheets": [[[["s", 0], z]]]}
        if not quick:
            for z2 in FALSY:
                if _typed_ok(fmt, z2) and z2 != z:
                    yield {"sheets": [base + [[z, z2]]]}
                    yield {"sheets": [[base[0] + [z], base[1] + [z2]]]}
    # N: cells that carry a comment (annotation / note)
    if fmt in NOTES_OK:
        yield from _note_cases(quick, fmt)
    # F: histories - workbooks read one after the other in one process (see evaluate); the workbooks of a history share one
    #    token source, so the same string-table index / cell address holds different text in each
    yield from _sheet_histories(quick, fmt)
    # E: several sheets
    pool_ = [_S(_tgrid(1, 1, "S")), _S(_tgrid(2, 2, "S")), _S(_tgrid(1, 2, "S")), []]
    for a in pool_:
        for b in pool_:
            yield {"sheets": [a, b]}
            if not quick:
                for c_ in pool_:
                    yield {"sheets": [a, b, c_]}
    yield {"sheets": [[]]}


def _note_cases(quick, fmt):
    """Family N: a comment (ODF office:annotation, SpreadsheetML comments part, BIFF8 NOTE + text-box object) on a cell: on every cell of every string grid
    up to 2x2 and on all of them, on a typed cell (every value of the typed lattice) in the body and in row 0, on a two-line
    string, on an empty cell inside the used range, on the second sheet; thorough: two-line comments, every pair of commented
    cells of a 2x2 grid, comments on ODS repeated cells"""
    for r, c in _shapes(2):
        base = _S(_tgrid(r, c, "S"))
        cells = [[0, i, j] for i in range(r) for j in range(c)]
        for ent in cells:
            yield {"sheets": [base], "o": {"cm": [ent]}}
            if not quick:
                yield {"sheets": [base], "o": {"cm": [ent + [2]]}}
        if len(cells) > 1:
            yield {"sheets": [base], "o": {"cm": cells}}
        if not quick:
            for a, b in itertools.combinations(cells, 2):
                yield {"sheets": [base], "o": {"cm": [a, b]}}
    values = [v for v in TYPED_QUICK + ([] if quick else TYPED_MORE) if _typed_ok(fmt, v)] + [["s2", 5, 6]]
    for v in values:
        yield {"sheets": [[[["s", 0], ["s", 1]], [["s", 2], v]]], "o": {"cm": [[0, 1, 1]]}}
        yield {"sheets": [[[v, ["s", 1]], [["s", 2], ["s", 3]]]], "o": {"cm": [[0, 0, 0]]}}
        if not quick:
            yield {"sheets": [[[v]]], "o": {"cm": [[0, 0, 0]]}}
            yield {"sheets": [[[["s", 0], ["s", 1]], [["s", 2], v]]], "o": {"cm": [[0, 1, 0]]}}
    # empty cells inside the used range
    yield {"sheets": [[[["s", 0], None, ["s", 1]]]], "o": {"cm": [[0, 0, 1]]}}
    yield {"sheets": [[[["s", 0]], [None], [["s", 1]]]], "o": {"cm": [[0, 1, 0]]}}
    yield {"sheets": [[[["s", 0], ["s", 1]], [None, ["s", 2]]]], "o": {"cm": [[0, 1, 0]]}}
    yield {"sheets": [[[["s", 0], None], [["s", 1], ["s", 2]]]], "o": {"cm": [[0, 0, 1]]}}
    yield {"sheets": [[[["s", 0], ["s", 1], ["s", 2]], [["s", 3], None, ["s", 4]], [["s", 5], ["s", 6], ["s", 7]]]], "o": {"cm": [[0, 1, 1]]}}
    # several sheets
    b1, b2 = _S(_tgrid(1, 2, "S")), _S(_tgrid(2, 1, "S"))
    yield {"sheets": [b1, b2], "o": {"cm": [[1, 1, 0]]}}
    yield {"sheets": [b1, b2], "o": {"cm": [[0, 0, 1], [1, 0, 0]]}}
    yield {"sheets": [b2, b1], "o": {"cm": [[0, 0, 0]]}}
    if fmt == "ods":
        for n in REPEATS if not quick else REPEATS[:2]:
            yield {"sheets": [_S(_tgrid(1, 2, "S"))], "o": {"cm": [[0, 0, 0]], "cr": [[0, 0, 1, n]]}}
            yield {"sheets": [_S(_tgrid(2, 1, "S"))], "o": {"cm": [[0, 0, 0]], "rr": [[0, 1, n]]}}


def _sheet_shapes_thorough():
    for r, c in _shapes(4):
        if r <= 3 and c <= 3:
            yield from _full(r, c, ["S", "E"])
        else:
            yield from _dev(r, c, "S", ["E"], 2)


FALSY = [["i", 0], ["f", 0.0], ["b", False], ["dur", 0], ["tm", "00:00:00"], ["fml", "=1-1", ["i", 0]], ["fml", "=1=2", ["b", False]],
         ["fml", "=0*1.5", ["f", 0.0]]]
DATE_SYSTEM_1904 = {"xls": {"datemode": 1}, "xlsx": {"date1904": True}}     # writer option selecting the 1904 date system
_HFRAMES = [([[["s", 0], ["s", 1]], [["s", 2], None]], 1, 1), ([[["s", 0]], [None]], 1, 0)]


def _is_datesys(w):
    return "datemode" in w or "date1904" in w


def _shift_days(v, days):
    """the date / date-time cell `days` later (formula cells: their cached value)"""
    import datetime
    if v[0] == "fml":
        return ["fml", v[1], _shift_days(v[2], days)]
    if v[0] == "d":
        return ["d", (datetime.date.fromisoformat(v[1]) + datetime.timedelta(days=days)).isoformat()]
    return ["dt", (datetime.datetime.fromisoformat(v[1]) + datetime.timedelta(days=days)).isoformat()]


def _stored_number(v):
    """the plain number cell that stores the same number as the date / time / duration / boolean cell v (1900 date system)"""
    from verif.gen import biff8
    if v[0] == "b":
        return ["i", 1 if v[1] else 0]
    x = biff8.cell_number(v, 0)[0]
    return ["i", int(x)] if float(x).is_integer() else ["f", float(x)]


def _in_frame(frame, i, j, v, w=None):
    g = [list(row) for row in frame]
    g[i][j] = v
    case = {"sheets": [g]}
    if w:
        case["o"] = {"w": dict(w)}
    return case


def _sheet_histories(quick, fmt):
    values = [v for v in TYPED_QUICK + ([] if quick else TYPED_MORE) if _typed_ok(fmt, v)]
    frames = _HFRAMES
    w1904 = DATE_SYSTEM_1904.get(fmt)
    # F1: the two date systems. A (1900 system) and B (1904 system, the date 1462 days later) store the SAME serial number;
    #     A and C (1904 system, same date) store different serials for the same date. Both orders; thorough also A B A / B A B.
    if w1904:
        for v in values:
            if not _has_date(v) or _before_1904(v) or _shift_days(v, 0) != v:
                continue
            for frame, i, j in frames:
                a = _in_frame(frame, i, j, v)
                b = _in_frame(frame, i, j, _shift_days(v, 1462), w1904)
                c = _in_frame(frame, i, j, v, w1904)
                for x, y in ((a, b), (b, a), (a, c), (c, a), (b, c), (c, b)):
                    yield {"seq": [x, y]}
                    if not quick:
                        yield {"seq": [x, y, x]}
    # F2: the same stored number under another cell format: a date / time / duration / boolean cell and the plain number cell
    #     holding its serial (xls, xlsx; an ODS cell stores the typed value itself)
    if fmt in ("xls", "xlsx"):
        for v in values:
            c = v[2] if v[0] == "fml" else v
            if c[0] not in ("d", "dt", "tm", "dur", "b") or (c[0] in ("d", "dt") and c[1] < "1900-03-01"):
                continue
            for frame, i, j in frames[:1] if quick else frames:
                a, b = _in_frame(frame, i, j, v), _in_frame(frame, i, j, _stored_number(c))
                yield {"seq": [a, b]}
                yield {"seq": [b, a]}
    # F3: every ordered pair of cell kinds (quick: one representative each; thorough: the whole quick lattice) at one address
    reps = [[k, x] for k, x in _CANON.items()] + [["s", 0], ["fml", "=1+1", ["i", 2]]]
    reps = [v for v in (reps if quick else TYPED_QUICK + [["s", 0]]) if _typed_ok(fmt, v)]
    frame, i, j = frames[0]
    for v1 in reps:
        for v2 in reps:
            yield {"seq": [_in_frame(frame, i, j, v1), _in_frame(frame, i, j, v2)]}
    # F4: string tables / sheet lists of different length
    books = [[_S(_tgrid(1, 1, "S"))], [_S(_tgrid(2, 2, "S"))], [_S(_tgrid(1, 2, "S")), _S(_tgrid(2, 1, "S"))], [_S([["S", "S"], ["E", "S"]])]]
    for b1 in books:
        for b2 in books:
            yield {"seq": [{"sheets": b1}, {"sheets": b2}]}
            if not quick:
                yield {"seq": [{"sheets": b1}, {"sheets": b2}, {"sheets": b1}]}


def _has_date(v):
    c = v[2] if v[0] == "fml" else v
    return c[0] in ("d", "dt")


def _before_1904(v):
    c = v[2] if v[0] == "fml" else v
    return c[0] in ("d", "dt") and c[1] < "1904-01-02"


def cases_for(tier, fmt):
    """the case set of one format, duplicates removed, in a fixed order"""
    seen = set()
    for case in (sheet_cases if fmt in SHEET_FORMATS else text_cases)(tier, fmt):
        key = json.dumps(case, sort_keys=True)
        if key not in seen:
            seen.add(key)
            yield case


# =============================================================================================== run

def _part(arg):
    tier, fmt, k, n, seed = arg
    ev = 0
    fails, herr, samples = [], [], []
    outcomes = {}
    dups = 0
    for i, case in enumerate(cases_for(tier, fmt)):
        if i % n != k:
            continue
        key = json.dumps(case, sort_keys=True)
        try:
            f, oc = evaluate(fmt, case, seed)
        except Exception as e:  # noqa  (generator / harness problem, never a finding)
            if len(herr) < 3:
                herr.append(f"{fmt} case {key[:300]}: {type(e).__name__}: {e}")
            continue
        ev += 1
        oc = fmt + ":" + str(oc)
        outcomes[oc] = outcomes.get(oc, 0) + 1
        for clause, msg in f:
            fails.append((clause, fmt, case, msg))
        if ev in (2, 40) and len(samples) < 2:
            samples.append(dict({"fmt": fmt, "case": case, "outcome": oc}, **describe(fmt, case, seed)))
    return {"ev": ev, "fails": fails, "outcomes": outcomes, "samples": samples, "herr": herr, "dups": dups}


def run(ctx):
    args = []
    for fmt in TEXT_FORMATS + SHEET_FORMATS:
        n = 8 if ctx.quick else 32
        args += [(ctx.tier, fmt, k, n, ctx.seed) for k in range(n)]
    random.Random(ctx.seed).shuffle(args)
    res = P.run_all("verif.props.C13", "_part", args, n=ctx.ncpu, hard_timeout=3000)
    ev = 0
    fails, herr, samples = [], [], []
    outcomes, per_fmt, fail_fmt = {}, {}, {}
    for (st, r, _), a in zip(res, args):
        if st != "done":
            herr.append(f"partition {a} failed: {st}: {str(r)[-600:]}")
            continue
        ev += r["ev"]
        per_fmt[a[1]] = per_fmt.get(a[1], 0) + r["ev"]
        herr += r["herr"]
        for x in r["fails"]:
            fails.append(tuple(x))
            fail_fmt[x[1] + ":" + x[0]] = fail_fmt.get(x[1] + ":" + x[0], 0) + 1
        for k_, v in r["outcomes"].items():
            outcomes[k_] = outcomes.get(k_, 0) + v
        samples += r["samples"]
    samples = sorted(samples, key=lambda s: (s["fmt"], json.dumps(s["case"], sort_keys=True)))
    samples = [s for i, s in enumerate(samples) if i % max(1, len(samples) // 6) == 0][:6]
    cov = {"evaluations": ev, "distinct_nontrivial": len(outcomes), "exhaustive": True, "samples": samples,
           "rule": "every table grid of the bounded space (text formats: cell kinds T/E/P/N, all grids up to 2x2 [quick] or up to 6 cells "
                   "[thorough], larger grids up to 3x3 [quick] / 4x4 [thorough] with <= 1 / <= 2 (3x3: 3) deviating cells; all ragged row-length "
                   "vectors; paragraph / adjacent-table / two-unit contexts over all pairs of small grids; ODF header rows and repeat "
                   "attributes 1,2,100,101 on every cell and row; HTML spellings; RTF writer spellings; spreadsheets: all string/empty "
                   "grids, all header rows over a 6-symbol alphabet, typed value lattice x 7 positions, gaps and ODS repeats 1,2,100,101, "
                   "sheet sequences, trailing rows / columns of falsy typed values; HTML/EPUB spellings: every td/th assignment x row sections x "
                   "omitted optional end tags x white space / attributes / upper case / colgroup; histories: two (thorough: three) documents read one "
                   "after the other in one process - the two date systems of xls / xlsx with equal serials, equal stored numbers under other cell "
                   "formats, all ordered pairs of cell kinds, string tables of different size, pairs of text-format tables; "
                   "cell contents with inline structure - word in two runs / half in a hyperlink, line break, tab, empty paragraph, list, heading - at every "
                   "position of every grid up to 2x2 [thorough 3x3] and in all ordered pairs; XML empty-element tags <td/> <td /> <th/> <p/> [epub] and comments "
                   "between / inside cells [html, epub] over every {text, empty} x {td, th} grid of the grid space x row sections; spreadsheet cells carrying a "
                   "comment [ods, xlsx, xls] on every cell of every grid up to 2x2, on every typed value, on empty cells inside the used range) rendered by the reference writers and extracted by the real readers; distinct_nontrivial = distinct "
                   "(format, failed clauses, returned dims) outcome classes",
           "per_format": per_fmt, "failing_by_format_clause": dict(sorted(fail_fmt.items())),
           "bounds": {"tier": ctx.tier, "grid_full_upto": "2x2" if ctx.quick else "6 cells", "grid_max": "3x3" if ctx.quick else "4x4",
                      "html_th_assignments": "all of every grid up to " + ("2x2" if ctx.quick else "6 cells"), "html_sections": list(H.HTML_SECTIONS),
                      "html_omitted_end_tags": "every subset of {cells, rows, sections}; </p> in cells", "html_flags": list(H.HTML_FLAGS),
                      "history_length": 2 if ctx.quick else 3, "date_systems": ["1900", "1904"], "date_system_shift_days": 1462,
                      "falsy_values": len(FALSY[:5] if ctx.quick else FALSY), "repeats": list(REPEATS),
                      "inline_cell_kinds": list(INLINE_KINDS), "inline_grid_max": "2x2, 1 such cell + all ordered pairs" if ctx.quick else "3x3, <= 2 such cells in <= 4 cells",
                      "inline_wrappers": list(H.INLINE_WRAPS), "xml_empty_element_spellings": ["<td/>", "<td />"],
                      "xml_spelling_grids": "{T,E,Th,Eh}: all up to 2x2, 1 deviating cell up to 3x3" if ctx.quick else "{T,E,Th,Eh}: all up to 4 cells, 2 deviating cells up to 4x4",
                      "comment_formats": sorted(NOTES_OK), "comment_lines": 1 if ctx.quick else 2}}
    return {"coverage": cov, "failures": fails, "harness_errors": herr,
            "assumptions": [
                "a nested table may come back inside its outer cell, as a 1x1 grid of its own (before or after the outer table's successors), or both",
                "a ragged source row may be returned with its own length or padded with empty cells up to the table width; get_dim() columns = widest row",
                "empty cell = None, '' or white space; cell text is compared as token sequence + white-space separation, never exact white space",
                "spreadsheets: the table of a sheet is its used range; trailing empty rows/columns never count; leading empty rows/columns may "
                "be kept (A1-anchored) or dropped; an empty sheet may yield an empty table or none",
                "typed values: int/float by numeric value (int 3 == float 3.0; bool is not a number); bool must be bool; date/datetime = date/"
                "datetime object or any string datetime.fromisoformat parses to the source value; time / duration = time, timedelta, ISO 8601 "
                "duration, [h]:mm:ss text, number of seconds or day fraction equal to the source; error = any string starting with '#'; formula = its cached value",
                "RTF / DOCX have no table container: the writers keep two adjacent tables apart by the empty paragraph Word itself forces",
                "histories: what a document's tables are does not depend on the documents read before it in the same process; each document of a "
                "history is judged by the single-document clauses, a failure that needs the history keeps the history as its minimal case",
                "HTML: <th> and <td> are both cells of the grid; thead / tbody / tfoot keep source order (tfoot is written last); omitting the end "
                "tags HTML5 13.1.2.4 makes optional does not change the table",
                "spreadsheets: a cell holding 0, 0.0, FALSE, a zero duration or midnight is a used cell (it counts for the used range)",
                "cell text with inline structure: character formatting, hyperlinks and other inline markup do not split a word and add no text (the link target "
                "is not cell text); a line break or tab between two words is white space between them; the markers of a list inside a cell (bullet "
                "glyphs such as the RTF \\listtext fallback) are not judged",
                "XHTML (EPUB): <td/> and <td></td> are the same empty cell (XML 1.0, 3.1); a comment is not content",
                "spreadsheets: a cell comment / annotation is not part of the cell's value; a comment on an empty cell inside the used range leaves it empty",
                "ODF number-columns-repeated / number-rows-repeated on text and draw tables mean n copies of the cell / row (ODF 1.2 part 1, 19.675/19.679)",
            ]}
