"""C06 helper: the document universe D (fixtures + generated documents) as plain-JSON document specs.

    spec = {"fix": "<path below tests/resources>", "sha256": "<hex of the file>"}            a repository fixture
         | {"gen": "<format>", "n": {"<feature>": count, ...}}                             a generated document

A generated document holds, for every feature named in "n", `count` DISTINCT instances of that feature (distinct style
names, hyperlink targets, bookmark names, image payloads, table contents, list items, notes, comments, recipients,
attachments, archive members, sheets ...; altimgs = images that carry alternative text (OOXML descr, ODF svg:title + svg:desc);
kwords = keywords of the metadata (ODF: one meta:keyword element each, EPUB: one dc:subject each, else one comma separated
string); .odf formula documents: formulas / fracs = FURTHER <semantics> blocks with a StarMath annotation of their own (plain
/ `frac {a} {b}`), encodings = further annotations of the first block in other encodings - the typical file has one block with
one annotation).  Besides counted features there are on/off features (FLAGS, count 1) and CHOICE
features whose number selects a variant:
    optional information absent at every level (third-party readers substitute defaults - clock, generator names, random
    names - exactly there):  nocore / nometa = OOXML / ODF package without the core-properties / meta.xml part (a document
    without "meta" already has an EMPTY <cp:coreProperties/>),  emptymeta = meta.xml with an empty <office:meta/>,
    bare = e-mail without Date and Message-ID headers,  noname = attachments without a file name,  rfc822 = an embedded
    message/rfc822 part;
    pdf "enc" = 1..8, the forms of the standard security handler (PDF_ENC): legacy RC4-40 / RC4-128, and the crypt-filter
    forms /V 4 with /CFM /V2 or /AESV2 and /V 5 with /AESV3, each with the conventional filter name /StdCF and with another
    name (the name is free: /StmF and /StrF reference it);  userpw = non-empty user password (the library has to refuse);
    incell (docx odt rtf html mhtml epub) = PLACEMENT: the hyperlink paragraphs, pictures and lists of the document sit inside
    the cells of one table instead of directly in the body (nothing is anchored at body level);  clsnames (odp) = ROLES: the
    paragraph styles are named TitleText / BodyText as presentation software names them, so that heads / lists / paras are
    the title / body / other paragraphs of a slide (with the anonymous automatic names P1.. every paragraph is "other" text).
The bytes depend on the spec only (tokens come from Tokens(0): the token
alphabet permutation of VERIF_SEED is irrelevant for this property and would only make inputs seed dependent).

    FEATURES[fmt]          the features the format's builder understands (in canonical order)
    build(spec) -> (bytes, name)     name = the path argument handed to the extractor (a path that does not exist)
    universe(tier) -> list of specs  (quick is a subset of thorough)
    shrink_spec(spec) -> iterator of smaller generated specs
    spec_embeds(small, big) -> bool
"""
from __future__ import annotations

import hashlib
import io
import itertools
import os
import re
import struct
import zipfile
import zlib

from verif.gen.tokens import Tokens

FIX = "/repo/sharepoint2text/tests/resources"
PATH_PREFIX = "c06-no-such-dir/"     # the path argument never names an existing file: the result must not depend on the disk

# ------------------------------------------------------------------------------------------------------------ images


def png(uid: int, w: int = 3, h: int = 2) -> bytes:
    def chunk(t, d):
        return struct.pack(">I", len(d)) + t + d + struct.pack(">I", zlib.crc32(t + d) & 0xFFFFFFFF)
    raw = b"".join(b"\x00" + bytes(((uid * 7 + x + y) & 0xFF) for x in range(w)) for y in range(h))
    return (b"\x89PNG\r\n\x1a\n" + chunk(b"IHDR", struct.pack(">IIBBBBB", w, h, 8, 0, 0, 0, 0))
            + chunk(b"tEXt", b"Comment\x00verif-c06-%06d" % uid) + chunk(b"IDAT", zlib.compress(raw, 9)) + chunk(b"IEND", b""))


def jpeg(uid: int, w: int = 16, h: int = 8) -> bytes:
    """Baseline grey JPEG (every 8x8 block: DC difference 0, end-of-block) with a COM segment carrying the uid."""
    out = bytearray(b"\xff\xd8")
    out += b"\xff\xe0" + struct.pack(">H", 16) + b"JFIF\x00\x01\x01\x00\x00\x01\x00\x01\x00\x00"
    com = b"verif-c06-%06d" % uid
    out += b"\xff\xfe" + struct.pack(">H", len(com) + 2) + com
    out += b"\xff\xdb" + struct.pack(">H", 67) + b"\x00" + bytes([1] * 64)
    out += b"\xff\xc0" + struct.pack(">HBHHB", 11, 8, h, w, 1) + bytes([1, 0x11, 0])
    for tc in (0x00, 0x10):
        out += b"\xff\xc4" + struct.pack(">H", 20) + bytes([tc, 1] + [0] * 15 + [0])
    out += b"\xff\xda" + struct.pack(">HB", 8, 1) + bytes([1, 0x00]) + b"\x00\x3f\x00"
    nbits = 2 * ((w + 7) // 8) * ((h + 7) // 8)
    bits = "0" * nbits + "1" * (-nbits % 8)
    out += bytes(int(bits[i:i + 8], 2) for i in range(0, len(bits), 8)).replace(b"\xff", b"\xff\x00")
    out += b"\xff\xd9"
    return bytes(out)


# ---------------------------------------------------------------------------------------------------------- features

_TEXT = ["paras", "heads", "links", "images", "tables", "lists"]
FEATURES = {
    "docx": _TEXT + ["altimgs", "styles", "notes", "comments", "revs", "boxes", "math", "units", "kwords", "meta", "nocore", "incell"],
    "odt": _TEXT + ["altimgs", "bookmarks", "notes", "comments", "revs", "units", "kwords", "meta", "nometa", "emptymeta", "incell"],
    "rtf": _TEXT + ["notes", "comments", "revs", "units", "kwords", "meta", "incell"],
    "pptx": _TEXT + ["altimgs", "notes", "comments", "math", "units", "kwords", "meta", "nocore"],
    "odp": _TEXT + ["altimgs", "notes", "units", "kwords", "meta", "nometa", "emptymeta", "clsnames"],
    "odg": _TEXT + ["altimgs", "units", "kwords", "meta", "nometa", "emptymeta"],
    "odf": ["paras", "formulas", "fracs", "encodings", "kwords", "meta"],
    "ppt": ["paras", "heads", "images", "notes", "units", "kwords", "meta"],
    "pdf": ["paras", "heads", "images", "units", "kwords", "meta", "enc", "userpw"],
    "html": _TEXT + ["kwords", "meta", "incell"],
    "mhtml": _TEXT + ["kwords", "meta", "incell"],
    "epub": _TEXT + ["units", "kwords", "meta", "incell"],
    "txt": ["paras", "units"],
    "md": ["paras", "heads", "links", "lists", "units"],
    "json": ["paras"],
    "csv": ["rows"],
    "xlsx": ["rows", "sheets", "images", "altimgs", "kwords", "meta", "nocore"],
    "ods": ["rows", "sheets", "images", "altimgs", "kwords", "meta", "nometa", "emptymeta"],
    "xls": ["rows", "sheets", "images", "kwords", "meta"],
    "eml": ["rcpts", "atts", "html", "bare", "noname", "rfc822"],
    "mbox": ["msgs", "rcpts", "atts", "html", "bare", "noname"],
    "zip": ["members", "macjunk"],
    "tar": ["members", "macjunk"],
    "tgz": ["members", "macjunk"],
    "7z": ["members", "macjunk"],
}
GEN_FORMATS = list(FEATURES)
FLAGS = ("meta", "html", "nocore", "nometa", "emptymeta", "bare", "noname", "rfc822", "userpw", "incell", "clsnames", "macjunk")     # on/off features (count 1)
NOMETA = ("nocore", "nometa", "emptymeta")       # the package has no docProps/core.xml / no meta.xml part (both parts are optional) /
#                                                  an empty <office:meta/>; they exclude "meta" and each other
CHOICES = {"enc": 8}                             # feature -> number of variants (the value selects the variant, it is not a count)
VARIANTS = NOMETA + ("bare", "noname", "rfc822", "enc", "userpw", "incell", "clsnames", "macjunk")    # not part of the rich document: documents of their own
# PLACEMENT / ROLE variants - WHERE a counted feature sits and WHICH ROLE a paragraph plays decides which branch of an extractor
# (and which field of the result) it reaches:
#   incell    the document's hyperlink paragraphs, pictures (with and without alternative text) and lists are not children of the
#             body but sit inside the cells of ONE table (one row each: a label cell and the nested block) - content a reader
#             only finds when it descends into containers
#   clsnames  (odp) the paragraph styles carry the role names presentation software writes (TitleText / BodyText) instead of
#             anonymous automatic names (P1 / P2): only then does a reader tell title, body (outline) and other text apart;
#             heads = title paragraph, lists = body (outline) paragraphs, paras = other paragraphs
NESTABLE = ("links", "images", "altimgs", "lists")        # the features "incell" moves into table cells
ROLES = ("heads", "lists", "paras")                      # odp + clsnames: title / body / other paragraphs of a slide
# pdf "enc": (algorithm of verif.gen.pdfw, crypt filter | None)
PDF_ENC = {1: ("RC4-40", None), 2: ("RC4-128", None),
           3: ("RC4-128", {"name": "StdCF", "cfm": "V2"}), 4: ("RC4-128", {"name": "StdCF", "cfm": "AESV2"}),
           5: ("RC4-128", {"name": "StdCF", "cfm": "AESV3"}),
           6: ("RC4-128", {"name": "VerifCF", "cfm": "V2"}), 7: ("RC4-128", {"name": "VerifCF", "cfm": "AESV2"}),
           8: ("RC4-128", {"name": "VerifCF", "cfm": "AESV3"})}
PDF_ENC_BASE = {"paras": 2, "images": 1, "meta": 1}      # an encrypted document has strings and streams of every kind to decrypt
EXT = {"tgz": "tar.gz"}


def _p(tok):
    return ["p", [["t", tok]]]


class _B:
    """token / image allocation for one document"""

    def __init__(self, img="png"):
        self.tk = Tokens(0)
        self.images = {}
        self.alts = {}
        self.img = img

    def t(self, c):
        return self.tk.new(c)

    def image(self, alt=False):
        k = "i%d" % (len(self.images) + 1)
        uid = len(self.images) + 1
        self.images[k] = (png(uid), "png") if self.img == "png" else (jpeg(uid), "jpeg")
        if alt:
            self.alts[k] = (self.t("G"), self.t("G") + " " + self.t("G"))      # (title, description / alternative text)
        return k

    def ooxml_opts(self, opts=None):
        """writer options: alternative text = descr attribute of the picture"""
        o = dict(opts or {})
        if self.alts:
            o["alt"] = {k: v[1] for k, v in self.alts.items()}
        return o

    def odf_images(self):
        """images for the ODF writers: alternative text = svg:title + svg:desc of the frame"""
        return {k: (v + ({"title": self.alts[k][0], "desc": self.alts[k][1]},) if k in self.alts else v) for k, v in self.images.items()}


def _adm_blocks(fmt, n, b: _B, first_unit=True):
    """blocks of one unit for the text-like ADM formats"""
    out = []
    sink = [] if n.get("incell") else out         # incell: hyperlinks, pictures and lists go into the cells of one table
    for _ in range(n.get("paras", 0)):
        out.append(["p", [["t", b.t("B")], ["t", b.t("B")]]] if fmt not in ("odf",) else _p(b.t("B")))
    for i in range(min(n.get("heads", 0), 1) if fmt in ("pptx", "odp") else n.get("heads", 0)):
        out.append(["h", 1 + i % 3, [["t", b.t("H")]]])       # a slide has one title: further headings become further slides
        out.append(_p(b.t("B")))
    for i in range(n.get("styles", 0)):
        out.append(_p("Sty%03dx%s" % (i, b.t("B"))))      # marker paragraphs: restyled by _docx_restyle
    for i in range(n.get("links", 0)):
        sink.append(["p", [["t", b.t("B")], ["a", "http://verif.example/%s/%d" % (b.t("Z").lower(), i), [["t", b.t("K")]]]]])
    for i in range(n.get("bookmarks", 0)):
        out.append(_p("Bkm%03dx%s" % (i, b.t("B"))))      # marker paragraphs: a text:bookmark is put in front of the text
    for _ in range(n.get("images", 0)):
        sink.append(["img", b.image()])
    for _ in range(n.get("altimgs", 0)):
        sink.append(["img", b.image(alt=True)])                # a picture WITH alternative text (title / description)
    for _ in range(n.get("tables", 0)):
        out.append(["tbl", [[[_p(b.t("C"))], [_p(b.t("C"))]], [[_p(b.t("C"))], [_p(b.t("C"))]]]])
    k = n.get("lists", 0)
    if k:
        items = [[_p(b.t("L"))] for _ in range(k)]
        if k >= 2 and fmt not in ("md",):
            items[1].append(["ul", [[_p(b.t("L"))]]])
        sink.append(["ul", items])
    if sink is not out and sink:
        out.append(["tbl", [[[_p(b.t("C"))], [blk]] for blk in sink]])
    if first_unit:
        for _ in range(n.get("notes", 0) if fmt in ("docx", "odt", "rtf") else 0):
            out.append(["p", [["t", b.t("B")], ["fn", b.t("Z")]]])
        for _ in range(n.get("comments", 0) if fmt in ("docx", "odt", "rtf") else 0):
            out.append(["p", [["t", b.t("B")], ["cref", b.t("M")]]])
        for _ in range(n.get("revs", 0)):
            out.append(["p", [["t", b.t("B")], ["ins", b.t("I")], ["del", b.t("D")]]])
        for i in range(n.get("boxes", 0)):
            out.append(["p", [["t", b.t("B")], (["box", [_p(b.t("S"))]] if i % 2 == 0 else ["sdt", [["t", b.t("S")]]])]])
        for _ in range(n.get("math", 0)):
            out.append(["p", [["t", b.t("B")], ["math", ["omath", [["f", [["r", "L"]], [["r", "L"]]]]]]]])
    return out


def _keywords(n, b: "_B") -> str:
    """kwords = k: the document's keyword list has k distinct members (ODF: one meta:keyword element each, EPUB: one
    dc:subject each, elsewhere one comma separated string)"""
    return ", ".join(b.t("W") for _ in range(n["kwords"]))


def _adm_doc(fmt, n, b: _B):
    meta = {}
    if n.get("meta") and not any(n.get(k) for k in NOMETA):
        meta = {"title": b.t("Z"), "author": b.t("Z"), "subject": b.t("Z"), "keywords": b.t("Z") + ", " + b.t("Z")}
        if fmt not in ("pdf",):
            meta["description"] = b.t("Z")
        if fmt in ("docx", "odt", "rtf", "ppt"):
            meta["header"] = b.t("R")
            meta["footer"] = b.t("R")
    if n.get("kwords") and not any(n.get(k) for k in NOMETA):
        meta["keywords"] = _keywords(n, b)
    units = []
    nunits = max(1, n.get("units", 0))
    titled = max(0, n.get("heads", 0) - 1) if fmt in ("pptx", "odp") else 0
    for ui in range(nunits + titled):
        blocks = _adm_blocks(fmt, n if ui == 0 else {"paras": 1}, b, ui == 0)
        if ui and (fmt in ("ppt", "odg") or ui >= nunits):
            blocks = [["h", 1, [["t", b.t("H")]]]] + blocks
        ex = {}
        if ui == 0:
            if fmt in ("pptx", "odp", "ppt") and n.get("notes"):
                ex["notes"] = [b.t("P") for _ in range(n["notes"])]
            if fmt == "pptx" and n.get("comments"):
                ex["comments"] = [b.t("M") for _ in range(n["comments"])]
        units.append(["unit", blocks, ex])
    return ["doc", meta, units]


# ----------------------------------------------------------------------------------------- post-processing of packages

def _rezip(data: bytes, edit) -> bytes:
    """rewrite members of a zip package (member order, compression and fixed timestamps are kept)"""
    zin = zipfile.ZipFile(io.BytesIO(data))
    bio = io.BytesIO()
    with zipfile.ZipFile(bio, "w") as zout:
        for info in zin.infolist():
            payload = zin.read(info.filename)
            payload = edit(info.filename, payload)
            zi = zipfile.ZipInfo(info.filename, date_time=info.date_time)
            zi.external_attr = info.external_attr
            zi.compress_type = info.compress_type
            zout.writestr(zi, payload)
    return bio.getvalue()


_STY = re.compile(r'<w:p><w:r><w:t xml:space="preserve">Sty(\d\d\d)x')


def _docx_restyle(data: bytes, nstyles: int) -> bytes:
    """give the marker paragraphs the custom paragraph styles VerifStyle000.. (defined in styles.xml, as the schema asks)"""
    names = ["Verif Style %s" % w for w in ("alpha", "bravo", "charlie", "delta", "echo", "foxtrot", "golf", "hotel", "india",
                                             "juliett", "kilo", "lima")]

    def edit(name, payload):
        if name == "word/document.xml":
            s = payload.decode("utf-8")
            s = _STY.sub(lambda m: '<w:p><w:pPr><w:pStyle w:val="VerifStyle%s"/></w:pPr><w:r><w:t xml:space="preserve">Sty%sx'
                         % (m.group(1), m.group(1)), s)
            return s.encode("utf-8")
        if name == "word/styles.xml":
            s = payload.decode("utf-8")
            add = "".join('<w:style w:type="paragraph" w:customStyle="1" w:styleId="VerifStyle%03d"><w:name w:val="%s"/>'
                          '<w:basedOn w:val="Normal"/><w:qFormat/></w:style>' % (i, names[i % len(names)] + (" %d" % (i // len(names)) if i >= len(names) else ""))
                          for i in range(nstyles))
            return s.replace("</w:styles>", add + "</w:styles>").encode("utf-8")
        return payload
    return _rezip(data, edit)


def _ooxml_drop_core(data: bytes) -> bytes:
    """OPC package without the (optional) core properties part: part, relationship and content type override removed"""
    zin = zipfile.ZipFile(io.BytesIO(data))
    bio = io.BytesIO()
    with zipfile.ZipFile(bio, "w") as zout:
        for info in zin.infolist():
            if info.filename == "docProps/core.xml":
                continue
            payload = zin.read(info.filename)
            if info.filename == "_rels/.rels":
                payload = re.sub(rb'<Relationship Id="[^"]*" Type="[^"]*/core-properties" Target="docProps/core.xml"/>', b"", payload)
            elif info.filename == "[Content_Types].xml":
                payload = re.sub(rb'<Override PartName="/docProps/core.xml" ContentType="[^"]*"/>', b"", payload)
            zi = zipfile.ZipInfo(info.filename, date_time=info.date_time)
            zi.external_attr = info.external_attr
            zi.compress_type = info.compress_type
            zout.writestr(zi, payload)
    return bio.getvalue()


_BKM = re.compile(r"Bkm(\d\d\d)x")


def _odt_bookmarks(data: bytes) -> bytes:
    def edit(name, payload):
        if name == "content.xml":
            s = payload.decode("utf-8")
            s = _BKM.sub(lambda m: '<text:bookmark text:name="verif_bm_%s"/>Bkm%sx' % (m.group(1), m.group(1)), s)
            return s.encode("utf-8")
        return payload
    return _rezip(data, edit)


_ODF_META = re.compile(rb"<office:meta>.*</office:meta>", re.S)


def _odf_empty_meta(data: bytes) -> bytes:
    """meta.xml present, but <office:meta/> has no child (every child of office:meta is optional)"""
    def edit(name, payload):
        if name == "meta.xml":
            out, k = _ODF_META.subn(b"<office:meta/>", payload)
            if k != 1:
                raise ValueError("meta.xml of the ODF writer has no <office:meta> element")
            return out
        return payload
    return _rezip(data, edit)


_ODF_SEM_END = "</semantics></math>"


def _odf_more_formulas(data: bytes, n, b) -> bytes:
    """a formula document holding MORE than the one formula / the one annotation of the writer's document (MathML: <math> takes
    any number of children, <semantics> any number of annotations):
      formulas = k   k further <semantics> blocks, each a row of two identifiers with its own StarMath annotation "a b"
      fracs = k      k further <semantics> blocks, each a fraction <mfrac> with the StarMath annotation "frac {a} {b}"
      encodings = k  k further annotations of the FIRST block in other encodings (TeX, application/x-tex, ...), each holding its
                     own source text
    every annotation text of the document is distinct"""
    encs = ["TeX", "application/x-tex", "LaTeX", "application/x-latex", "text/plain", "AsciiMath", "Maple", "Mathematica"]

    def edit(name, payload):
        if name != "content.xml":
            return payload
        s = payload.decode("utf-8")
        if s.count(_ODF_SEM_END) != 1:
            raise ValueError("content.xml of the ODF formula writer does not end in one semantics block")
        more = ""
        for i in range(n.get("encodings", 0)):
            enc = encs[i % len(encs)] + ("" if i < len(encs) else "-%d" % (i // len(encs)))
            more += '<annotation encoding="%s">%s %s</annotation>' % (enc, b.t("F"), b.t("F"))
        blocks = ""
        for _ in range(n.get("formulas", 0)):
            x, y = b.t("F"), b.t("F")
            blocks += ('<semantics><mrow><mi>%s</mi><mi>%s</mi></mrow><annotation encoding="StarMath 5.0">%s %s</annotation></semantics>'
                       % (x, y, x, y))
        for _ in range(n.get("fracs", 0)):
            x, y = b.t("F"), b.t("F")
            blocks += ('<semantics><mfrac><mi>%s</mi><mi>%s</mi></mfrac><annotation encoding="StarMath 5.0">frac {%s} {%s}</annotation>'
                       '</semantics>' % (x, y, x, y))
        return s.replace(_ODF_SEM_END, more + "</semantics>" + blocks + "</math>").encode("utf-8")
    return _rezip(data, edit)


# -------------------------------------------------------------------------------------------------------- html family

def _html_body(n, b: _B, img_src):
    x = []
    for _ in range(n.get("paras", 0)):
        x.append(f"<p>{b.t('B')} {b.t('B')}</p>")
    for i in range(n.get("heads", 0)):
        x.append(f"<h{1 + i % 3}>{b.t('H')}</h{1 + i % 3}><p>{b.t('B')}</p>")
    body, x = x, ([] if n.get("incell") else x)      # incell: hyperlinks, pictures and the list go into the cells of one table
    for i in range(n.get("links", 0)):
        x.append(f'<p>{b.t("B")} <a href="http://verif.example/{b.t("Z").lower()}/{i}">{b.t("K")}</a></p>')
    for i in range(n.get("images", 0)):
        x.append(f'<p><img src="{img_src(i)}" alt="{b.t("Z")}"/></p>')
    nested, x = x, body
    for _ in range(n.get("tables", 0)):
        x.append(f"<table><tr><td>{b.t('C')}</td><td>{b.t('C')}</td></tr><tr><td>{b.t('C')}</td><td>{b.t('C')}</td></tr></table>")
    k = n.get("lists", 0)
    if k:
        (nested if n.get("incell") else x).append("<ul>" + "".join(f"<li>{b.t('L')}</li>" for _ in range(k)) + "</ul>")
    if n.get("incell") and nested:
        x.append("<table>" + "".join(f"<tr><td>{b.t('C')}</td><td>{blk}</td></tr>" for blk in nested) + "</table>")
    return "".join(x)


def _html_head(n, b: _B):
    if not n.get("meta"):
        return f'<meta name="keywords" content="{_keywords(n, b)}"/>' if n.get("kwords") else ""
    return (f'<meta name="author" content="{b.t("Z")}"/><meta name="description" content="{b.t("Z")}"/>'
            + (f'<meta name="keywords" content="{b.t("Z")}, {b.t("Z")}"/>' if not n.get("kwords") else
               f'<meta name="keywords" content="{_keywords(n, b)}"/>'))


def _epub(n, b: _B) -> bytes:
    from verif.gen import htmlfam
    nimg = n.get("images", 0)
    chapters = [htmlfam.xhtml_page(_html_body(n, b, lambda i: "img%d.png" % (i + 1)), b.t("Z"))]
    for _ in range(max(1, n.get("units", 0)) - 1):
        chapters.append(htmlfam.xhtml_page(f"<h1>{b.t('H')}</h1><p>{b.t('B')}</p>", b.t("Z")))
    items, files = [], {}
    for i, ch in enumerate(chapters, 1):
        files[f"OEBPS/ch{i}.xhtml"] = ch
        items.append(f'<item id="it{i}" href="ch{i}.xhtml" media-type="application/xhtml+xml"/>')
    for i in range(1, nimg + 1):
        files[f"OEBPS/img{i}.png"] = png(i)
        items.append(f'<item id="im{i}" href="img{i}.png" media-type="image/png"/>')
    spine = "".join(f'<itemref idref="it{i}"/>' for i in range(1, len(chapters) + 1))
    extra = ""
    if n.get("meta"):
        extra = (f'<dc:creator>{b.t("Z")}</dc:creator><dc:publisher>{b.t("Z")}</dc:publisher><dc:subject>{b.t("Z")}</dc:subject>'
                 f'<dc:subject>{b.t("Z")}</dc:subject><dc:description>{b.t("Z")}</dc:description><dc:date>2024-03-05</dc:date>')
    for _ in range(n.get("kwords", 0)):
        extra += f'<dc:subject>{b.t("W")}</dc:subject>'
    opf = ('<?xml version="1.0" encoding="utf-8"?><package xmlns="http://www.idpf.org/2007/opf" version="3.0" unique-identifier="id">'
           '<metadata xmlns:dc="http://purl.org/dc/elements/1.1/"><dc:identifier id="id">urn:verif:c06</dc:identifier>'
           f'<dc:title>{b.t("Z")}</dc:title><dc:language>en</dc:language>{extra}</metadata>'
           f'<manifest>{"".join(items)}</manifest><spine>{spine}</spine></package>')
    bio = io.BytesIO()
    with zipfile.ZipFile(bio, "w") as z:
        z.writestr(zipfile.ZipInfo("mimetype"), "application/epub+zip", compress_type=zipfile.ZIP_STORED)
        z.writestr(zipfile.ZipInfo("META-INF/container.xml"), htmlfam.CONTAINER_XML, compress_type=zipfile.ZIP_DEFLATED)
        z.writestr(zipfile.ZipInfo("OEBPS/content.opf"), opf, compress_type=zipfile.ZIP_DEFLATED)
        for path, data in files.items():
            z.writestr(zipfile.ZipInfo(path), data, compress_type=zipfile.ZIP_DEFLATED)
    return bio.getvalue()


# ------------------------------------------------------------------------------------------------------- spreadsheets

def _sheets(fmt, n, b: _B):
    nrows = n.get("rows", 0)
    nsheets = max(1, n.get("sheets", 0))
    sheets = []
    for si in range(nsheets):
        grid = [[["s", b.t("C")], ["s", b.t("C")], ["s", b.t("C")]]]
        for r in range(nrows if si == 0 else 1):
            kinds = [["s", b.t("C")], ["i", 10 + r], ["f", 1.5 + r], ["b", r % 2 == 0], ["d", "2024-03-%02d" % (1 + r % 28)],
                     ["dt", "2024-03-05T14:07:%02d" % (r % 60)], ["tm", "14:07:%02d" % (r % 60)], ["dur", 3600 * 30 + r],
                     ["err", "#DIV/0!"], ["fml", "=B%d+1" % (r + 2), ["i", 11 + r]]]
            if fmt == "csv":
                kinds = [k for k in kinds if k[0] not in ("fml",)]
            grid.append([["s", b.t("C")], kinds[r % len(kinds)], kinds[(r + 3) % len(kinds)]])
        sheets.append(["sheet", b.t("N"), grid])
    meta = {}
    if n.get("meta") and not any(n.get(k) for k in NOMETA):
        meta = {"title": b.t("Z"), "author": b.t("Z"), "subject": b.t("Z"), "keywords": b.t("Z"), "description": b.t("Z")}
    if n.get("kwords") and not any(n.get(k) for k in NOMETA):
        meta["keywords"] = _keywords(n, b)
    return ["doc", meta, sheets]


# --------------------------------------------------------------------------------------------------------------- mail

def _mail_spec(n, b: _B, i=0):
    spec = {"subject": ["ascii", b.t("Z") + " " + b.t("Z")], "message_id": "<c06.%d@verif.example>" % i,
            "charset": "us-ascii", "cte": "7bit", "body_plain": b.t("B") + " " + b.t("B") + "\n"}
    k = n.get("rcpts", 0)
    if k:
        spec["to"] = [[b.t("N"), "to%d@verif.example" % j] for j in range(k)]
        spec["cc"] = [[b.t("N"), "cc%d@verif.example" % j] for j in range(k)]
        spec["bcc"] = [[None, "bcc%d@verif.example" % j] for j in range(k)]
        spec["reply_to"] = [[b.t("N"), "rt%d@verif.example" % j] for j in range(min(k, 2))]
    a = n.get("atts", 0) or (2 if n.get("noname") else 0)
    html = n.get("html", 0)
    if n.get("bare"):
        spec["message_id"] = None
    if a:
        spec["structure"] = "mixed-alt-att" if html else "mixed-plain-att-att"
        atts = []
        for j in range(a):
            kind = j % 4
            if kind == 0:
                atts.append({"filename": "note%d.txt" % j, "ctype": "text/plain", "cte": "base64",
                             "data_hex": (b.t("B") + " attached\n").encode("ascii").hex()})
            elif kind == 1:
                atts.append({"filename": "page%d.html" % j, "ctype": "text/html", "cte": "base64",
                             "data_hex": ("<html><body><p>%s</p></body></html>" % b.t("B")).encode("ascii").hex()})
            elif kind == 2:
                atts.append({"filename": "blob%d.bin" % j, "ctype": "application/octet-stream", "cte": "base64",
                             "data_hex": bytes(range(j, j + 40)).hex()})
            else:
                atts.append({"filename": "pic%d.png" % j, "ctype": "image/png", "cte": "base64", "data_hex": png(j + 1).hex()})
        if n.get("noname"):
            for x in atts:
                x["filename"] = None
        spec["attachments"] = atts
        if n.get("rfc822"):
            spec["structure"] = "rfc822-attachment"
    elif n.get("rfc822"):
        spec["structure"] = "rfc822-attachment"
        spec["attachments"] = [{"filename": "note.txt", "ctype": "text/plain", "cte": "base64", "data_hex": (b.t("B") + " attached\n").encode("ascii").hex()}]
    elif html:
        spec["structure"] = "alternative"
    if html and spec.get("structure") != "rfc822-attachment":
        spec["body_html"] = "<html><body><p>%s</p><p>%s</p></body></html>\n" % (b.t("B"), b.t("B"))
    return spec


_DATE_HDR = re.compile(rb"^Date:[^\r\n]*(?:\r?\n[ \t][^\r\n]*)*\r?\n", re.M)


def _mail_bare(data: bytes) -> bytes:
    """drop every Date header field (the writer always writes one; generated bodies have no line starting with 'Date:')"""
    out, k = _DATE_HDR.subn(b"", data)
    if not k:
        raise ValueError("no Date header to drop")
    return out


# ----------------------------------------------------------------------------------------------------------- archives

def _members(n, b: _B):
    from verif.gen import htmlfam, ooxml, plain
    k = n.get("members", 0)
    out = []
    for j in range(k):
        kind = j % 6
        unit = ["doc", {}, [["unit", [_p(b.t("B"))], {}]]]
        if kind == 0:
            out.append(("m%d.txt" % j, plain.txt(unit)))
        elif kind == 1:
            out.append(("sub/m%d.html" % j, htmlfam.html_page("<p>%s</p>" % b.t("B")).encode("utf-8")))
        elif kind == 2:
            out.append(("m%d.md" % j, plain.md(unit)))
        elif kind == 3:
            out.append(("sub/deep/m%d.docx" % j, ooxml.docx(unit)))
        elif kind == 4:
            out.append(("m%d.csv" % j, plain.csv(["doc", {}, [["sheet", b.t("N"), [[["s", b.t("C")], ["i", j]]]]]])))
        else:
            out.append(("m%d.bin" % j, bytes(range(j, j + 32))))
    return out


# -------------------------------------------------------------------------------------------------------------- build

def name_of(spec) -> str:
    if "fix" in spec:
        return PATH_PREFIX + spec["fix"]
    fmt = spec["gen"]
    return PATH_PREFIX + "doc." + EXT.get(fmt, fmt)


def fmt_of(spec) -> str:
    """short format label used as the `fmt` of a failure"""
    if "gen" in spec:
        return spec["gen"]
    f = spec["fix"].lower()
    for suffix, lab in ((".tar.gz", "tgz"), (".tgz", "tgz"), (".htm", "html"), (".mht", "mhtml"), (".tsv", "csv"), (".docm", "docx"),
                        (".xlsm", "xlsx"), (".pptm", "pptx")):
        if f.endswith(suffix):
            return lab
    return f.rsplit(".", 1)[-1] if "." in f else "noext"


def build(spec):
    """-> (bytes, path argument)"""
    if "fix" in spec:
        with open(os.path.join(FIX, spec["fix"]), "rb") as f:
            data = f.read()
        if spec.get("sha256") and hashlib.sha256(data).hexdigest() != spec["sha256"]:
            raise ValueError("fixture %s changed on disk (sha256 differs from the recorded case)" % spec["fix"])
        return data, name_of(spec)
    fmt = spec["gen"]
    n = {k: int(v) for k, v in (spec.get("n") or {}).items() if int(v) > 0}
    for k in n:
        if k not in FEATURES[fmt]:
            raise ValueError("format %s has no feature %r" % (fmt, k))
    return _build_gen(fmt, n), name_of(spec)


def _build_gen(fmt, n) -> bytes:
    from verif.gen import htmlfam
    if fmt in ("docx", "pptx"):
        from verif.gen import ooxml
        b = _B("png")
        doc = _adm_doc(fmt, n, b)
        data = getattr(ooxml, fmt)(doc, b.images, b.ooxml_opts())
        if fmt == "docx" and n.get("styles"):
            data = _docx_restyle(data, n["styles"])
        return _ooxml_drop_core(data) if n.get("nocore") else data
    if fmt in ("odt", "odp", "odg", "odf"):
        from verif.gen import odf
        b = _B("png")
        doc = _adm_doc(fmt, n, b)
        if fmt == "odf":
            doc[2] = [["unit", [_p(b.t("B"))], {}]] if not n.get("paras") else [["unit", doc[2][0][1][:1], {}]]
        o = {"omit_parts": ["meta.xml"]} if n.get("nometa") else ({"split_keywords": True} if n.get("kwords") else {})
        if fmt == "odp" and n.get("clsnames"):
            o["class_style_names"] = True
        data = getattr(odf, fmt)(doc, b.odf_images(), o)
        if fmt == "odt" and n.get("bookmarks"):
            data = _odt_bookmarks(data)
        if fmt == "odf" and any(n.get(k) for k in ("formulas", "fracs", "encodings")):
            data = _odf_more_formulas(data, n, b)
        return _odf_empty_meta(data) if n.get("emptymeta") and not n.get("nometa") else data
    if fmt == "rtf":
        from verif.gen import rtf
        b = _B("png")
        return rtf.rtf(_adm_doc(fmt, n, b), b.images, {})
    if fmt == "pdf":
        from verif.gen import pdfw
        b = _B("jpeg")
        opts = {}
        if n.get("enc"):
            alg, cf = PDF_ENC[n["enc"]]
            opts["encrypt"] = {"user": "Verif-user" if n.get("userpw") else "", "owner": "Verif-owner", "algorithm": alg}
            if cf:
                opts["encrypt"]["crypt_filter"] = dict(cf)
        return pdfw.pdf(_adm_doc(fmt, n, b), b.images, opts)
    if fmt == "ppt":
        from verif.gen import pptbin
        b = _B("jpeg")
        doc = _adm_doc(fmt, n, b)
        return pptbin.ppt(doc, {k: v[0] for k, v in b.images.items()}, {})
    if fmt in ("html", "mhtml"):
        b = _B()
        body = _html_body(n, b, lambda i: "http://verif.example/img%d.png" % (i + 1))
        page = htmlfam.html_page(body, b.t("Z"), _html_head(n, b))
        if fmt == "html":
            return page.encode("utf-8")
        extra = [("image/png", "http://verif.example/img%d.png" % (i + 1), png(i + 1)) for i in range(n.get("images", 0))]
        return htmlfam.mhtml(page, "quoted-printable", extra or None)
    if fmt == "epub":
        return _epub(n, _B())
    if fmt in ("txt", "md", "json"):
        from verif.gen import plain
        b = _B()
        doc = _adm_doc(fmt, n, b)
        if not any(u[1] for u in doc[2]):
            doc[2][0][1].append(_p(b.t("B")))
        return {"txt": plain.txt, "md": plain.md, "json": plain.json_}[fmt](doc)
    if fmt == "csv":
        from verif.gen import plain
        doc = _sheets(fmt, n, _B())
        return plain.csv(["doc", {}, doc[2][:1]])
    if fmt in ("xlsx", "ods", "xls"):
        b = _B("png")
        doc = _sheets(fmt, n, b)
        keys = [b.image() for _ in range(n.get("images", 0))] + [b.image(alt=True) for _ in range(n.get("altimgs", 0))]
        if fmt == "xlsx":
            from verif.gen import ooxml
            data = ooxml.xlsx(doc, b.images, b.ooxml_opts({"sheet_images": {0: keys}} if keys else {}))
            return _ooxml_drop_core(data) if n.get("nocore") else data
        if fmt == "ods":
            from verif.gen import odf
            o = {"images_at": [[0, k] for k in keys]} if keys else {}
            if n.get("nometa"):
                o["omit_parts"] = ["meta.xml"]
            elif n.get("kwords"):
                o["split_keywords"] = True
            data = odf.ods(doc, b.odf_images(), o)
            return _odf_empty_meta(data) if n.get("emptymeta") and not n.get("nometa") else data
        from verif.gen import biff8
        return biff8.xls(doc, {k: v[0] for k, v in b.images.items()}, {"pictures": [[0, k] for k in keys]} if keys else {})
    if fmt in ("eml", "mbox"):
        from verif.gen import mail
        b = _B()
        if fmt == "eml":
            data = mail.eml(_mail_spec(n, b))
            return _mail_bare(data) if n.get("bare") else data
        specs = [_mail_spec(n if i == 0 else ({"bare": 1} if n.get("bare") else {}), b, i) for i in range(max(1, n.get("msgs", 0)))]
        data = mail.mbox(specs, {})
        return _mail_bare(data) if n.get("bare") else data
    if fmt in ("zip", "tar", "tgz", "7z"):
        b = _B()
        mem = _members(n, b)
        if not mem:
            mem = [("only.txt", (b.t("B") + "\n").encode("ascii"))]
        if n.get("macjunk"):
            # macjunk (wave 8): in front of the first member, a `__MACOSX/` twin of it - same base name, other text - which the
            # library skips by its directory; the other archive documents hold members of the SAME base name in kept directories,
            # so a skip decision remembered per base name in one extraction shows in the next (fresh-process / warm passes)
            mem = [("__MACOSX/" + mem[0][0].rsplit("/", 1)[-1], (b.t("B") + "\n").encode("ascii"))] + mem
        if fmt == "zip":
            from verif.gen import zipforge
            return zipforge.zipforge([{"name": nm, "data": d, "method": 8} for nm, d in mem])
        if fmt in ("tar", "tgz"):
            from verif.gen import tarforge
            return tarforge.tarforge([{"name": nm, "data": d} for nm, d in mem], compression="gz" if fmt == "tgz" else None)
        from verif.gen import sevenz
        return sevenz.sevenz([{"name": nm, "data": d} for nm, d in mem], {"coder": "lzma2"})
    raise ValueError(fmt)


# ----------------------------------------------------------------------------------------------------------- universe

def fixture_specs():
    out = []
    for root, _, files in os.walk(FIX):
        for f in files:
            p = os.path.join(root, f)
            with open(p, "rb") as fh:
                h = hashlib.sha256(fh.read()).hexdigest()
            out.append({"fix": os.path.relpath(p, FIX), "sha256": h})
    return sorted(out, key=lambda s: s["fix"])


def _values(f, single=False, quick=True):
    if f in CHOICES:
        return list(range(1, CHOICES[f] + 1))
    if f in FLAGS:
        return [1]
    return [5] if quick or not single else [5, 6, 8]


def gen_specs(tier):
    """rich document (every feature of the format, 2 of each; thorough also 3 of each), every single feature with 5
    (thorough also 6 and 8) distinct instances / every flag / every variant of a choice feature (pdf: every encryption form on
    the base document PDF_ENC_BASE, with and without a user password), thorough: every pair of features (5 instances each,
    every variant of a choice).
    Placement family (formats with "incell"): each nestable feature (NESTABLE) alone with 5 (thorough also 6, 8) instances inside
    table cells + all nestable features together (2 each; thorough also 3 each).  Role family (odp, "clsnames"): every non-empty
    subset of ROLES = {title, body, other} paragraphs on a slide with role-named styles (2 each; thorough also 3 and 5 each)."""
    quick = tier == "quick"
    out = []
    for fmt in GEN_FORMATS:
        feats = FEATURES[fmt]
        out.append({"gen": fmt, "n": {}})
        out.append(rich_spec(fmt, 2))
        for f in feats:
            if f == "userpw":
                continue                      # only meaningful together with "enc" (below)
            if f in ("incell", "clsnames"):
                continue                      # placement / role variants say something about content only: families below
            for k in _values(f, True, quick):
                if f == "enc":
                    out.append({"gen": fmt, "n": dict(PDF_ENC_BASE, enc=k)})
                    out.append({"gen": fmt, "n": dict(PDF_ENC_BASE, enc=k, userpw=1)})
                else:
                    out.append({"gen": fmt, "n": {f: k}})
        if "incell" in feats:
            # placement: every nestable feature on its own (5 instances; thorough also 6 and 8) inside table cells, and all of them
            # together (2 each; thorough also 3 each)
            for f in NESTABLE:
                if f in feats:
                    for k in _values(f, True, quick):
                        out.append({"gen": fmt, "n": {f: k, "incell": 1}})
            for k in ((2,) if quick else (2, 3)):
                out.append({"gen": fmt, "n": dict({f: k for f in NESTABLE if f in feats}, incell=1)})
        if "clsnames" in feats:
            # roles: a slide with every non-empty subset of {title, body, other} paragraphs (2 of each; thorough also 3 and 5)
            for r in range(1, len(ROLES) + 1):
                for sub in itertools.combinations(ROLES, r):
                    for k in ((2,) if quick else (2, 3, 5)):
                        out.append({"gen": fmt, "n": dict({f: k for f in sub}, clsnames=1)})
        if not quick:
            out.append(rich_spec(fmt, 3))
            for f, g in itertools.combinations(feats, 2):
                if f in NOMETA + ("meta",) and g in NOMETA + ("meta",):
                    continue
                if "userpw" in (f, g):
                    continue
                for kf in _values(f):
                    for kg in _values(g):
                        out.append({"gen": fmt, "n": {f: kf, g: kg}})
    seen, uniq = set(), []
    for s in out:
        if spec_key(s) not in seen:
            seen.add(spec_key(s))
            uniq.append(s)
    return uniq


def rich_spec(fmt, k=2):
    """every feature of the format with k instances (flags once; the variants - no metadata part, encryption forms, bare
    e-mails ... - are separate documents)"""
    return {"gen": fmt, "n": {f: (1 if f in FLAGS else k) for f in FEATURES[fmt] if f not in VARIANTS}}


def universe(tier):
    return fixture_specs() + gen_specs(tier)


def spec_key(spec) -> str:
    if "fix" in spec:
        return "fix:" + spec["fix"]
    return "gen:%s:%s" % (spec["gen"], ",".join("%s=%d" % (k, v) for k, v in sorted((spec.get("n") or {}).items()) if v))


def shrink_spec(spec):
    if "gen" not in spec:
        return
    n = {k: v for k, v in (spec.get("n") or {}).items() if v}
    for k in sorted(n):
        d = dict(n)
        del d[k]
        yield {"gen": spec["gen"], "n": d}
    for k in sorted(n):
        if n[k] > 1 and k not in CHOICES:
            for v in sorted({1, n[k] // 2, n[k] - 1}):
                if 0 < v < n[k]:
                    d = dict(n)
                    d[k] = v
                    yield {"gen": spec["gen"], "n": d}


def spec_embeds(small, big) -> bool:
    """is the document `big` an instance of the shape `small`?  generated shapes embed by feature counts; a generated
    shape also explains a fixture of the same format (the caller has already matched format, clause and diff location)."""
    if "gen" in small:
        if "gen" in big:
            if small["gen"] != big["gen"]:
                return False
            bn = big.get("n") or {}
            return all((bn.get(k, 0) == v if k in CHOICES else bn.get(k, 0) >= v) for k, v in (small.get("n") or {}).items() if v)
        return True
    return "fix" in big and small["fix"] == big["fix"]
