"""C04 helper: the PICTURE family of the results corpus.

The other generated documents of C04 carry one picture encoding per format (PNG; JPEG in PDF) inside a frame of the
writer's natural size.  Extractors, however, treat pictures by kind (signature sniffing, re-wrapping of header-less
bitmaps, metafile records, pixel-size probes) and keep the frame's display size - sometimes as the raw attribute text,
parsed only when get_metadata() is called.  This family therefore enumerates, for every format whose reference writer can
embed a picture, the document [paragraph, one picture] with the picture described by

    pic = {"kind": K, "w": lexeme name, "h": lexeme name, "uid2": bool, "title": S, "desc": S, "name": S, "cap": S, "file": N}

K (payload encoding; each payload is a minimal valid file of the kind unless said otherwise)
    png, jpeg, gif, bmp (24 bit, 40-byte BITMAPINFOHEADER), bmpv5 (124-byte BITMAPV5HEADER), tiff, emf, wmf (placeable), pict,
    unk (bytes of no picture format), empty (zero bytes), png0 (PNG declaring 0 x 0 pixels), pngsig (a PNG cut after 12 bytes:
    signature present, header too short to hold the size)
  how a kind is stored: package formats (docx, pptx, xlsx, odt, odp, odg, ods, epub): a part with the kind's file extension /
  media type (unk: .bin resp. .png where the package needs a registered type; empty, png0, pngsig: .png; pict is not
  expressible in OOXML);  ppt, xls: the OfficeArt BLIP record of the kind (PNG, JPEG, TIFF, DIB for bmp / bmpv5 - the BMP
  file header is dropped as the format demands -, EMF, WMF, PICT with a deflated metafile body; gif, unk, empty, png0, pngsig
  travel in a PNG BLIP), uid2: the two-UID form of the record (recInstance + 1);  rtf: {\\pict} with \\pngblip, \\jpegblip,
  \\emfblip, \\wmetafile8, \\dibitmap0 (bmp, bmpv5: header-less), \\macpict; the rest under \\pngblip (gif, tiff: not
  expressible, skipped).  PDF is not part of the family (the writer can express DCT images only; PdfImage reports no size).
w, h (display size of the frame; a name of LEN or INT below; "ok" = the writer's natural value)
    odt, odp, odg, ods: svg:width / svg:height of the draw:frame, lexemes LEN (ODF lengths and their damaged forms);
    docx (wp:extent + a:ext), pptx (a:ext), rtf (\\picw \\pich \\picwgoal \\pichgoal), xlsx (xdr:ext of a oneCellAnchor - the
    natural form "ok" keeps the writer's twoCellAnchor, which has no extent at all): lexemes INT (rtf: without the
    non-ASCII digit);
    ppt, xls, epub: no size lexeme (binary anchors / no size attribute is read).

title, desc, name, cap (the LABEL slots of the picture: the places where a document says what the picture shows; extractors feed them
into get_caption() / get_description(), each slot through its own look-up, often with a fall-back from one slot to another;
S names a STATE of the slot, "ok" = what the writer does by itself)
    odt, odp, odg, ods: title = svg:title, desc = svg:desc (child ELEMENTS of the draw:frame; natural: not written), name = the
        draw:name ATTRIBUTE (natural: "Image1");  odt also cap = the caption form of a text document: the picture frame sits in a
        paragraph of a text box of an outer frame and the paragraph's text is the caption (natural: no outer frame);
    docx (wp:docPr and pic:cNvPr, both get the same), pptx (p:cNvPr), xlsx (xdr:cNvPr): title = title, desc = descr, name = name
        ATTRIBUTES (natural: name "Picture n", the others not written);
    epub: title = title, desc = alt ATTRIBUTES of the img element (natural: alt text, no title);
    rtf, ppt, xls: no label slot.
  states of an element slot:   ok (absent), empty (<e/>), ws (two spaces), text, uni (non-BMP / RTL / markup characters), nl (two
                               lines), comment (<e><!--c--></e>: present, no text node), cdata (the text as a CDATA section)
  states of an attribute slot: ok, absent (only where the natural form writes the attribute), empty (a=""), ws, text, uni, nl (&#10;)
  states of cap:               ok (no caption frame), empty (caption paragraph holds the picture only), text, uni,
                               seq ("Illustration <text:sequence>1</text:sequence>: text", what an editor writes)

file (the STORAGE NAME of the picture: the name of the package member that holds the payload and that the document refers to;
extractors derive get_content_type() - and sometimes the kind - from this name, through a suffix table of their own or the platform's
MIME table, which knows media suffixes, compression suffixes (.gz .Z .bz2 .xz .br: "encoding" of the named type) and
aliases (.svgz .tgz .taz .tz .tbz2 .txz); N names a lexeme of FILES, "ok" = the writer's natural name <key>.<kind suffix>)
    odt, odp, odg, ods (Pictures/<name>, also in the manifest), docx, pptx, xlsx (<part dir>/media/<name>, relationship target, an
        Override content type for the part), epub (OEBPS/img/<name>, manifest item with the kind's media type, img src):
        the member is renamed and every reference to it with it (asserted: at least one reference).  Lexemes: upper-case / other-
        media / text / unknown / numeric / very long suffix, no suffix, trailing dot, suffix only, two suffixes, every compression
        or alias suffix of the MIME table alone ("k.bz2") and stacked on the picture's suffix ("k.png.bz2"), non-ASCII stem /
        suffix (ODF, EPUB: package names are IRIs; not OOXML, whose part names are ASCII and must not end in a dot).
    rtf, ppt, xls: pictures have no storage name.

mem, mem2 (the MEMBER STATE of the picture's package member: a ZIP package can list a member - so that an existence test succeeds -
whose content nevertheless cannot be read; extractors then take their error path, which has to number and describe the picture
- or leave it out - like the normal path does.  mem is the state of the first picture, mem2 the state of a SECOND picture that
follows it in the same unit (mem2 "none", the default: the document has one picture); M names a state of MEM)
    odt, odp, odg, ods, docx, pptx, xlsx, epub: the package is re-written member by member (verif.gen.zipforge), the picture members
        in state: ok | crc (CRC-32 field does not match the content: the read fails at its end) | method (compression method 99 in
        the headers: the read fails when the member is opened) | enc (general purpose bit 0 set without any encryption: the read asks
        for a password) | absent (member not stored: the dangling reference) | thorough also: crc8 (CRC damage on a deflated
        member) | bz2 (a VALID member compressed with bzip2, method 12).
    rtf, ppt, xls: pictures are not package members.

Nothing here shares code with the library.  Writers are used as they are; where a writer cannot express the deviation
(size lexemes of OOXML / RTF, RTF picture kinds, label slots) its output is patched at exactly one place (asserted).
"""
from __future__ import annotations

import io
import re
import struct
import zipfile

from verif.props import c04_corpus as K

# ------------------------------------------------------------------------------------------------ alphabets

KINDS = ["png", "jpeg", "gif", "bmp", "bmpv5", "tiff", "emf", "wmf", "pict", "unk", "empty", "png0", "pngsig"]

LEN = {"ok": "2.5cm", "in": "1in", "mm": "10mm", "pt": "72pt", "pc": "6pc", "px": "40px", "bare": "40", "barefrac": "2.5",
       "noint": ".5in", "nofrac": "5.cm", "dots": "1.2.3cm", "dot": ".", "ddot": "..", "dotunit": ".cm", "empty": "", "unit": "cm",
       "neg": "-1cm", "plus": "+1cm", "exp": "1e3cm", "comma": "1,5cm", "lsp": " 2cm", "tsp": "2cm ", "isp": "2 cm", "pct": "50%",
       "nan": "nan", "inf": "inf", "zero": "0cm", "tiny": "0.0001cm", "huge": "9" * 400 + "cm", "unidigit": "\u0663cm",
       "upper": "2CM", "otherunit": "2em", "hex": "0x10"}
INT = {"ok": None, "zero": "0", "neg": "-1", "empty": "", "frac": "1.5", "exp": "1e3", "word": "abc", "sp": " 7 ", "plus": "+7",
       "huge": "9" * 30, "huger": "9" * 5000, "unidigit": "\u0663", "hex": "0x10", "under": "1_000"}

INT_RTF = {k: v for k, v in INT.items() if k != "unidigit"}       # RTF is 7-bit ASCII: no non-ASCII digit
ODF_FORMATS = ("odt", "odp", "odg", "ods")
INT_FORMATS = ("docx", "pptx", "xlsx", "rtf")
BLIP_FORMATS = ("ppt", "xls")
PIC_FORMATS = ("docx", "pptx", "xlsx") + ODF_FORMATS + ("rtf", "ppt", "xls", "epub")
LAB_SLOTS = ("title", "desc", "name", "cap")
LAB_ELEM = ["ok", "empty", "ws", "text", "uni", "nl", "comment", "cdata"]      # element slot (natural: element absent)
LAB_ATTR = ["ok", "empty", "ws", "text", "uni", "nl"]                          # attribute slot the writer leaves out by itself
LAB_ATTR_NAT = ["ok", "absent", "empty", "ws", "text", "uni", "nl"]            # attribute slot the writer fills by itself
LAB_CAP = ["ok", "empty", "text", "uni", "seq"]                                # caption paragraph around the picture frame (odt)
LAB_FORMATS = ODF_FORMATS + ("docx", "pptx", "xlsx", "epub")
DEFAULT = {"kind": "png", "w": "ok", "h": "ok", "uid2": False, "title": "ok", "desc": "ok", "name": "ok", "cap": "ok", "file": "ok",
           "mem": "ok", "mem2": "none"}
MEM = ["ok", "crc", "method", "enc", "absent"]                 # member states (quick)
MEM_THOROUGH = MEM + ["crc8", "bz2"]
_MEM_OVERRIDE = {"ok": {}, "crc": {"crc": "bad"}, "method": {"method": 99}, "enc": {"flag_bits": 1}, "crc8": {"method": 8, "crc": "bad"},
                 "bz2": {"method": 12}}
# storage names.  MIME_SUFFIXES: the suffixes Python's mimetypes module (the platform MIME table most libraries consult) does not map to a
# type of their own: encodings_map (compression: the type is the one of the name without the suffix) and suffix_map (aliases)
MIME_SUFFIXES = [".gz", ".Z", ".bz2", ".xz", ".br", ".svgz", ".tgz", ".taz", ".tz", ".tbz2", ".txz"]
FILES = {"ok": None, "upper": "k.PNG", "jpg": "k.jpg", "svg": "k.svg", "txt": "k.txt", "html": "k.html", "unknown": "k.qqq",
         "num": "k.123", "long": "k." + "x" * 200, "noext": "k", "enddot": "k.", "dotfile": ".png", "double": "k.png.jpg",
         "unistem": "\u00fc\u00e4.png", "uniext": "k.\u00fc"}
for _s in MIME_SUFFIXES:
    FILES["c" + _s] = "k" + _s                 # the suffix alone
    FILES["pc" + _s] = "k.png" + _s            # stacked on a picture suffix
FILE_FORMATS = ODF_FORMATS + ("docx", "pptx", "xlsx", "epub")
_FILES_NOT_OOXML = ("enddot", "unistem", "uniext")
FILE_KINDS_THOROUGH = ("png", "unk", "empty")

_EXT = {"png": "png", "jpeg": "jpeg", "gif": "gif", "bmp": "bmp", "bmpv5": "bmp", "tiff": "tiff", "emf": "emf", "wmf": "wmf",
        "pict": "pct", "unk": "bin", "empty": "png", "png0": "png", "pngsig": "png"}
_MEDIA = {"png": "image/png", "jpeg": "image/jpeg", "gif": "image/gif", "bmp": "image/bmp", "tiff": "image/tiff",
          "emf": "image/x-emf", "wmf": "image/x-wmf", "pct": "image/x-pict", "bin": "application/octet-stream"}
_BLIP = {"png": "png", "jpeg": "jpeg", "tiff": "tiff", "bmp": "dib", "bmpv5": "dib", "emf": "emf", "wmf": "wmf", "pict": "pict"}
_RTF_KW = {"png": "\\pngblip", "jpeg": "\\jpegblip", "emf": "\\emfblip", "wmf": "\\wmetafile8", "bmp": "\\dibitmap0",
           "bmpv5": "\\dibitmap0", "pict": "\\macpict", "unk": "\\pngblip", "empty": "\\pngblip", "png0": "\\pngblip",
           "pngsig": "\\pngblip"}


def sizes_of(fmt):
    """the size lexeme alphabet of a format: {} when the format has none"""
    if fmt == "rtf":
        return INT_RTF
    return LEN if fmt in ODF_FORMATS else (INT if fmt in INT_FORMATS else {})


def kinds_of(fmt):
    if fmt not in PIC_FORMATS:
        return []
    if fmt in ("docx", "pptx", "xlsx"):
        return [k for k in KINDS if k != "pict"]
    if fmt == "rtf":
        return [k for k in KINDS if k in _RTF_KW]
    return list(KINDS)


def labels_of(fmt):
    """the label slots of a format and the state alphabet of each: {} when the format has none"""
    if fmt in ODF_FORMATS:
        d = {"title": LAB_ELEM, "desc": LAB_ELEM, "name": LAB_ATTR_NAT}
        if fmt == "odt":
            d["cap"] = LAB_CAP
        return d
    if fmt in ("docx", "pptx", "xlsx"):
        return {"title": LAB_ATTR, "desc": LAB_ATTR, "name": LAB_ATTR_NAT}
    if fmt == "epub":
        return {"title": LAB_ATTR, "desc": LAB_ATTR_NAT}
    return {}


def files_of(fmt):
    """the storage-name lexemes of a format: {} when its pictures have no storage name"""
    if fmt not in FILE_FORMATS:
        return {}
    if fmt in ("docx", "pptx", "xlsx"):
        return {k: v for k, v in FILES.items() if k not in _FILES_NOT_OOXML}
    return FILES


def canonical(pic):
    """only the components that differ from DEFAULT (the PNG in a frame of natural size, one UID)"""
    return {k: v for k, v in sorted(pic.items()) if v != DEFAULT[k]}


def valid(fmt, pic):
    if not isinstance(pic, dict) or set(pic) - set(DEFAULT):
        return False
    p = dict(DEFAULT, **pic)
    s = sizes_of(fmt) or {"ok": None}
    lab = labels_of(fmt)
    return (p["kind"] in kinds_of(fmt) and p["w"] in s and p["h"] in s and isinstance(p["uid2"], bool)
            and (not p["uid2"] or fmt in BLIP_FORMATS) and all(p[k] in lab.get(k, ("ok",)) for k in LAB_SLOTS)
            and (p["file"] == "ok" or p["file"] in files_of(fmt))
            and ((p["mem"], p["mem2"]) == ("ok", "none") or (fmt in FILE_FORMATS and p["mem"] in MEM_THOROUGH
                                                              and p["mem2"] in MEM_THOROUGH + ["none"]
                                                              and all(p[k] == DEFAULT[k] for k in DEFAULT if k not in ("mem", "mem2")))))


# ------------------------------------------------------------------------------------------------ payloads

def _bmp(header_size: int) -> bytes:
    w, h, bpp = 3, 2, 24
    row = ((bpp * w + 31) // 32) * 4
    pixels = bytes((i * 7 + 3) % 251 for i in range(row * h))
    info = struct.pack("<IiiHHIIiiII", header_size, w, h, 1, bpp, 0, len(pixels), 2835, 2835, 0, 0)
    info += b"\0" * (header_size - len(info))
    off = 14 + len(info)
    return b"BM" + struct.pack("<IHHI", off + len(pixels), 0, 0, off) + info + pixels


def _tiff() -> bytes:
    ents = [(256, 3, 1, 3), (257, 3, 1, 2), (258, 3, 1, 8), (259, 3, 1, 1), (262, 3, 1, 1), (273, 4, 1, 0), (278, 3, 1, 2),
            (279, 4, 1, 6)]
    data_off = 8 + 2 + 12 * len(ents) + 4
    ifd = struct.pack("<H", len(ents))
    for tag, typ, cnt, val in ents:
        ifd += struct.pack("<HHII", tag, typ, cnt, data_off if tag == 273 else val)
    return b"II*\0" + struct.pack("<I", 8) + ifd + struct.pack("<I", 0) + bytes([10, 20, 30, 40, 50, 60])


def _emf() -> bytes:
    eof = struct.pack("<IIIII", 14, 20, 0, 0, 20)
    head = struct.pack("<II4i4iIIIIHHIII2i2i", 1, 88, 0, 0, 2, 1, 0, 0, 100, 100, 0x464D4520, 0x10000, 88 + len(eof), 2, 1, 0, 0, 0, 0,
                       1024, 768, 320, 240)
    assert len(head) == 88
    return head + eof


def _wmf() -> bytes:
    plc = struct.pack("<IH4hHI", 0x9AC6CDD7, 0, 0, 0, 100, 100, 1440, 0)
    ck = 0
    for (x,) in struct.iter_unpack("<H", plc):
        ck ^= x
    plc += struct.pack("<H", ck)
    eof = struct.pack("<IH", 3, 0)
    head = struct.pack("<HHHIHIH", 1, 9, 0x0300, 9 + len(eof) // 2, 0, 3, 0)
    return plc + head + eof


def _pict() -> bytes:
    return b"\0" * 512 + struct.pack(">H4H", 0, 0, 0, 2, 3) + b"\x00\x11\x02\xff" + b"\x00\xff"


def payload(kind: str) -> bytes:
    if kind == "png":
        return K.png(3, 2, 1)
    if kind == "jpeg":
        return K.jpeg(16, 8, 1)
    if kind == "gif":
        return (b"GIF89a" + struct.pack("<HH", 3, 2) + b"\x80\x00\x00" + b"\x00\x00\x00\xff\xff\xff" + b"!\xf9\x04\x01\x00\x00\x00\x00" +
                b"," + struct.pack("<HHHH", 0, 0, 1, 1) + b"\x00" + b"\x02\x02D\x01\x00" + b";")
    if kind == "bmp":
        return _bmp(40)
    if kind == "bmpv5":
        return _bmp(124)
    if kind == "tiff":
        return _tiff()
    if kind == "emf":
        return _emf()
    if kind == "wmf":
        return _wmf()
    if kind == "pict":
        return _pict()
    if kind == "unk":
        return b"verif-c04: bytes of no picture format \x00\x01\x02\x03\xfe\xff"
    if kind == "empty":
        return b""
    if kind == "png0":
        return K.png(0, 0, 1)
    if kind == "pngsig":
        return K.png(3, 2, 1)[:12]
    raise ValueError(kind)


# ------------------------------------------------------------------------------------------------ patches

def _sub_once(text, pattern, repl, what):
    out, n = re.subn(pattern, lambda m: repl(m) if callable(repl) else repl, text, flags=re.S)
    if n != 1:
        raise ValueError(f"picture patch: {what} found {n} times, expected once")
    return out


def _patch_part(data: bytes, part: str, fn) -> bytes:
    raw = zipfile.ZipFile(io.BytesIO(data)).read(part).decode("utf-8")
    return K._rezip(data, part, fn(raw).encode("utf-8"))


def _ext_attrs(xml: str, w, h) -> str:
    """every cx / cy extent inside xml gets the lexemes (None: the written value stays)"""
    def rep(m):
        return '%s cx="%s" cy="%s"/>' % (m.group(1), m.group(2) if w is None else w, m.group(3) if h is None else h)
    return re.sub(r'(<(?:wp:extent|a:ext|xdr:ext)) cx="(\d+)" cy="(\d+)"/>', rep, xml)


def _patch_docx(data, w, h):
    return _patch_part(data, "word/document.xml",
                       lambda x: _sub_once(x, r"<w:drawing>.*?</w:drawing>", lambda m: _ext_attrs(m.group(0), w, h), "w:drawing"))


def _patch_pptx(data, w, h):
    return _patch_part(data, "ppt/slides/slide1.xml",
                       lambda x: _sub_once(x, r"<p:pic>.*?</p:pic>", lambda m: _ext_attrs(m.group(0), w, h), "p:pic"))


def _patch_xlsx(data, w, h):
    """twoCellAnchor -> oneCellAnchor carrying xdr:ext (the element whose size the drawing states explicitly)"""
    def one(m):
        a = m.group(0)
        nat = re.search(r'<a:ext cx="(\d+)" cy="(\d+)"/>', a)
        ext = '<xdr:ext cx="%s" cy="%s"/>' % (nat.group(1) if w is None else w, nat.group(2) if h is None else h)
        a = _sub_once(a, r"<xdr:twoCellAnchor[^>]*>", "<xdr:oneCellAnchor>", "anchor start")
        a = _sub_once(a, r"<xdr:to>.*?</xdr:to>", ext, "xdr:to")
        a = _sub_once(a, r"</xdr:twoCellAnchor>", "</xdr:oneCellAnchor>", "anchor end")
        return _ext_attrs(a, w, h)
    part = [n for n in zipfile.ZipFile(io.BytesIO(data)).namelist() if re.fullmatch(r"xl/drawings/drawing\d+\.xml", n)]
    if len(part) != 1:
        raise ValueError("picture patch: expected one drawing part, found %r" % (part,))
    return _patch_part(data, part[0], lambda x: _sub_once(x, r"<xdr:twoCellAnchor.*?</xdr:twoCellAnchor>", one, "anchor"))


def _patch_rtf(data: bytes, kind, body: bytes, w, h) -> bytes:
    def grp(m):
        nat = re.match(r"\\picw(\d+)\\pich(\d+)\\picwgoal(\d+)\\pichgoal(\d+)", m.group(2))
        pw, ph, gw, gh = nat.groups()
        if w is not None:
            pw = gw = w
        if h is not None:
            ph = gh = h
        return "{\\pict%s\\picw%s\\pich%s\\picwgoal%s\\pichgoal%s %s}" % (_RTF_KW[kind], pw, ph, gw, gh, body.hex())
    text = data.decode("ascii")
    return _sub_once(text, r"\{\\pict(\\pngblip|\\jpegblip)((?:\\pic[a-z]+\d+)+) [0-9a-f]*\}", grp, "\\pict group").encode("ascii")


# ------------------------------------------------------------------------------------------------ label slots

def _xt(v: str) -> str:
    return v.replace("&", "&amp;").replace("<", "&lt;").replace(">", "&gt;")


def _xa(v: str) -> str:
    return _xt(v).replace('"', "&quot;").replace("\n", "&#10;")


def _lab_value(state, tk) -> str:
    if state == "ws":
        return "  "
    if state == "uni":
        return tk.new("L") + K.UNI_TEXT + tk.new("L")
    if state == "nl":
        return tk.new("L") + "\n" + tk.new("L")
    if state in ("text", "cdata", "seq"):
        return tk.new("L")
    raise ValueError(state)


def _lab_elem(tag, state, tk) -> str:
    if state == "ok":
        return ""
    if state == "empty":
        return "<%s/>" % tag
    if state == "comment":
        return "<%s><!--c--></%s>" % (tag, tag)
    if state == "cdata":
        return "<%s><![CDATA[%s]]></%s>" % (tag, _lab_value(state, tk), tag)
    return "<%s>%s</%s>" % (tag, _xt(_lab_value(state, tk)), tag)


def _lab_attr(attrs: str, name: str, state, tk) -> str:
    """attrs = the attribute text of a start tag (' a="1" b="2"'); attribute `name` is removed / rewritten as the state says"""
    if state == "ok":
        return attrs
    attrs, n = re.subn(r'\s%s="[^"]*"' % re.escape(name), "", attrs)
    if n > 1:
        raise ValueError("label patch: attribute %s found %d times" % (name, n))
    if state == "absent":
        return attrs
    return attrs + ' %s="%s"' % (name, "" if state == "empty" else _xa(_lab_value(state, tk)))


def _lab_odf(data: bytes, p, tk) -> bytes:
    def frame(m):
        attrs = _lab_attr(m.group(1), "draw:name", p["name"], tk)
        f = "<draw:frame%s>%s%s%s</draw:frame>" % (attrs, m.group(2), _lab_elem("svg:title", p["title"], tk),
                                                   _lab_elem("svg:desc", p["desc"], tk))
        cap = p["cap"]
        if cap == "ok":
            return f
        if cap == "empty":
            text = ""
        elif cap == "seq":
            text = ('Illustration <text:sequence text:ref-name="refIllustration0" text:name="Illustration" '
                    'text:formula="ooow:Illustration+1" style:num-format="1">1</text:sequence>: ' + _xt(_lab_value(cap, tk)))
        else:
            text = _xt(_lab_value(cap, tk))
        return ('<draw:frame draw:style-name="fr1" draw:name="Frame1" text:anchor-type="as-char" svg:width="8cm" draw:z-index="1">'
                '<draw:text-box fo:min-height="0.5cm"><text:p text:style-name="Standard">%s%s</text:p></draw:text-box></draw:frame>'
                % (f, text))
    return _patch_part(data, "content.xml",
                       lambda x: _sub_once(x, r"<draw:frame( [^>]*)>(<draw:image [^>]*/>)</draw:frame>", frame, "picture frame"))


def _xlsx_drawing_part(data: bytes) -> str:
    part = [n for n in zipfile.ZipFile(io.BytesIO(data)).namelist() if re.fullmatch(r"xl/drawings/drawing\d+\.xml", n)]
    if len(part) != 1:
        raise ValueError("picture patch: expected one drawing part, found %r" % (part,))
    return part[0]


def _lab_ooxml(data: bytes, fmt, p, tk) -> bytes:
    """name / descr / title attributes of the picture's non-visual properties.  docx states them twice (wp:docPr of the drawing,
    pic:cNvPr of the picture): both elements get the same value"""
    made = {}

    def props(m):
        attrs = m.group(2)
        for slot, name in (("name", "name"), ("desc", "descr"), ("title", "title")):
            if p[slot] == "ok":
                continue
            attrs = _lab_attr(attrs, name, "absent", tk)
            if p[slot] != "absent":
                if slot not in made:
                    made[slot] = _lab_attr("", name, p[slot], tk)
                attrs += made[slot]
        return "<%s%s/>" % (m.group(1), attrs)

    if fmt == "docx":
        part, scope, tags = "word/document.xml", r"<w:drawing>.*?</w:drawing>", ("wp:docPr", "pic:cNvPr")
    elif fmt == "pptx":
        part, scope, tags = "ppt/slides/slide1.xml", r"<p:pic>.*?</p:pic>", ("p:cNvPr",)
    else:
        part, scope, tags = _xlsx_drawing_part(data), r"<xdr:pic>.*?</xdr:pic>", ("xdr:cNvPr",)

    def inside(m):
        x = m.group(0)
        for t in tags:
            x = _sub_once(x, r"<(%s)((?:\s[\w:]+=\"[^\"]*\")*)\s*/>" % re.escape(t), props, t)
        return x
    return _patch_part(data, part, lambda x: _sub_once(x, scope, inside, "picture"))


# ------------------------------------------------------------------------------------------------ storage name

_PIC_DIR = {"odt": "Pictures/", "odp": "Pictures/", "odg": "Pictures/", "ods": "Pictures/", "docx": "word/media/", "pptx": "ppt/media/",
            "xlsx": "xl/media/", "epub": "OEBPS/img/"}
_TEXT_PART = re.compile(r".*\.(xml|rels|opf|xhtml|html|ncx)\Z")


def _rename_picture(data: bytes, fmt, new: str) -> bytes:
    """the one picture member of the package is stored as <its directory>/<new>; every reference to its old name in the XML parts
    (content, manifest / relationships / package document) follows.  OOXML: the new part gets an Override content type."""
    src = zipfile.ZipFile(io.BytesIO(data))
    pics = [n for n in src.namelist() if n.startswith(_PIC_DIR[fmt]) and not n.endswith("/")]
    if len(pics) != 1:
        raise ValueError("picture rename: expected one picture member, found %r" % (pics,))
    old = pics[0]
    old_base, new_name = old[len(_PIC_DIR[fmt]):], _PIC_DIR[fmt] + new
    if new_name in src.namelist():
        raise ValueError("picture rename: %r exists" % new_name)
    refs = 0
    out = io.BytesIO()
    with zipfile.ZipFile(out, "w") as z:
        for zi in src.infolist():
            raw = src.read(zi)
            if zi.filename == old:
                nzi = zipfile.ZipInfo(new_name, zi.date_time)
                nzi.external_attr = zi.external_attr
                z.writestr(nzi, raw, compress_type=zi.compress_type)
                continue
            if _TEXT_PART.match(zi.filename) or zi.filename == "[Content_Types].xml":
                text = raw.decode("utf-8")
                refs += text.count(old_base)
                text = text.replace(old_base, _xa(new))
                if zi.filename == "[Content_Types].xml":
                    text = _sub_once(text, r"</Types>", '<Override PartName="/%s" ContentType="image/png"/></Types>' % _xa(new_name),
                                     "content types end")
                raw = text.encode("utf-8")
            z.writestr(zi, raw, compress_type=zi.compress_type)
    if refs < 1:
        raise ValueError("picture rename: no reference to %r found" % old_base)
    return out.getvalue()


# ------------------------------------------------------------------------------------------------ member state

def _build_two(fmt, tk):
    """the document [paragraph, picture 1, paragraph, picture 2] (sheets: two pictures on the first sheet): natural PNG pictures"""
    images = {"k": (K.png(3, 2, 1), "png"), "k2": (K.png(3, 2, 2), "png")}
    doc = ["doc", {}, [["unit", [["p", [["t", tk.new("B")]]], ["img", "k"], ["p", [["t", tk.new("B")]]], ["img", "k2"]], {}]]]
    sheets = [["sheet", tk.new("N"), [[["s", tk.new("C")], ["s", tk.new("C")]], [["s", tk.new("C")], ["i", 5]]]]]
    if fmt in ODF_FORMATS:
        from verif.gen import odf
        if fmt == "ods":
            return odf.ods(["doc", {}, sheets], images, {"images_at": [[0, "k"], [0, "k2"]]})
        return getattr(odf, fmt)(doc, images, None)
    if fmt in ("docx", "pptx", "xlsx"):
        from verif.gen import ooxml
        if fmt == "xlsx":
            return ooxml.xlsx(["doc", {}, sheets], images, {"sheet_images": {0: ["k", "k2"]}})
        return getattr(ooxml, fmt)(doc, images, None)
    from verif.gen import htmlfam
    inner = '<p>%s</p><p><img src="img/k.png" alt="%s"/></p><p>%s</p><p><img src="img/k2.png" alt="%s"/></p>' % (
        tk.new("B"), tk.new("Z"), tk.new("B"), tk.new("Z"))
    dc = {"identifier": "urn:verif:c04", "language": "en", "title": "Zttttt"}
    return htmlfam.epub([htmlfam.xhtml_page(inner, "t")], dc, extra_items=[("img1", "img/k.png", "image/png", images["k"][0]),
                                                                           ("img2", "img/k2.png", "image/png", images["k2"][0])])


def _member_states(data: bytes, fmt, states) -> bytes:
    """re-write the package member by member (names, order, content, compression kept); the picture member holding payload i
    (recognised by its content: K.png(3, 2, i + 1)) is written in states[i]"""
    import zlib
    from verif.gen import zipforge
    src = zipfile.ZipFile(io.BytesIO(data))
    want = {K.png(3, 2, i + 1): st for i, st in enumerate(states)}
    hit = 0
    members = []
    for zi in src.infolist():
        if zi.is_dir():
            members.append({"name": zi.filename, "is_dir": True})
            continue
        raw = src.read(zi)
        m = {"name": zi.filename, "data": raw, "method": zi.compress_type, "date_time": zi.date_time, "external_attr": zi.external_attr}
        if zi.filename.startswith(_PIC_DIR[fmt]) and raw in want:
            hit += 1
            st = want[raw]
            if st == "absent":
                continue
            for k_, v in _MEM_OVERRIDE[st].items():
                m[k_] = ((zlib.crc32(raw) & 0xFFFFFFFF) ^ 0x5A5A5A5A) if v == "bad" else v
        members.append(m)
    if hit != len(states):
        raise ValueError("member state: %d picture members recognised, expected %d" % (hit, len(states)))
    return zipforge.zipforge(members, None)


# ------------------------------------------------------------------------------------------------ builder

def build(fmt, pic, tk):
    """-> {"data", "props": {}, "members": [], "used": [...]}; the document [paragraph, picture]"""
    p = dict(DEFAULT, **pic)
    if (p["mem"], p["mem2"]) != ("ok", "none"):
        if p["mem2"] == "none":
            data = build(fmt, {}, tk)["data"]
            states = [p["mem"]]
        else:
            data = _build_two(fmt, tk)
            states = [p["mem"], p["mem2"]]
        return {"data": _member_states(data, fmt, states), "props": {}, "members": [], "used": ["text", "img"]}
    kind = p["kind"]
    body = payload(kind)
    lex = sizes_of(fmt)
    w, h = (lex[p["w"]], lex[p["h"]]) if lex else (None, None)
    para = ["p", [["t", tk.new("B")]]]
    doc = ["doc", {}, [["unit", [para, ["img", "k"]], {}]]]
    used = ["text", "img"]
    if fmt in ODF_FORMATS:
        from verif.gen import odf
        ext = {"jpeg": "jpg", "tiff": "tif"}.get(_EXT[kind], _EXT[kind])
        images = {"k": (body, ext, {"width": w, "height": h})}
        if fmt == "ods":
            sheets = [["sheet", tk.new("N"), [[["s", tk.new("C")], ["s", tk.new("C")]], [["s", tk.new("C")], ["i", 5]]]]]
            data = odf.ods(["doc", {}, sheets], images, {"images_at": [[0, "k"]]})
        else:
            data = getattr(odf, fmt)(doc, images, None)
    elif fmt in ("docx", "pptx", "xlsx"):
        from verif.gen import ooxml
        ext = _EXT[kind] if _EXT[kind] in ooxml.IMG_CT else "png"
        images = {"k": (body, ext)}
        if fmt == "xlsx":
            sheets = [["sheet", tk.new("N"), [[["s", tk.new("C")], ["s", tk.new("C")]], [["s", tk.new("C")], ["i", 5]]]]]
            data = ooxml.xlsx(["doc", {}, sheets], images, {"sheet_images": {0: ["k"]}})
            if (p["w"], p["h"]) != ("ok", "ok"):
                data = _patch_xlsx(data, w, h)
        else:
            data = getattr(ooxml, fmt)(doc, images, None)
            if (p["w"], p["h"]) != ("ok", "ok"):
                data = (_patch_docx if fmt == "docx" else _patch_pptx)(data, w, h)
    elif fmt == "rtf":
        from verif.gen import rtf
        data = rtf.rtf(doc, {"k": (K.png(3, 2, 1), "png")}, None)
        if kind in ("bmp", "bmpv5"):
            body = body[14:]
        data = _patch_rtf(data, kind, body, w, h)
    elif fmt == "ppt":
        from verif.gen import pptbin
        data = pptbin.ppt(doc, {"k": (body, {"kind": _BLIP.get(kind, "png"), "uid2": p["uid2"]})}, None)
    elif fmt == "xls":
        from verif.gen import biff8
        sheets = [["sheet", tk.new("N"), [[["s", tk.new("C")], ["s", tk.new("C")]], [["s", tk.new("C")], ["i", 5]]]]]
        data = biff8.xls(["doc", {}, sheets], {"k": (body, {"kind": _BLIP.get(kind, "png"), "uid2": p["uid2"]})}, {"pictures": [[0, "k"]]})
    elif fmt == "epub":
        from verif.gen import htmlfam
        ext = _EXT[kind]
        attrs = _lab_attr(_lab_attr(' src="img/k.%s" alt="%s"' % (ext, tk.new("Z")), "alt", p["desc"], tk), "title", p["title"], tk)
        inner = '<p>%s</p><p><img%s/></p>' % (tk.new("B"), attrs)
        dc = {"identifier": "urn:verif:c04", "language": "en", "title": "Zttttt"}
        data = htmlfam.epub([htmlfam.xhtml_page(inner, "t")], dc, extra_items=[("img1", "img/k." + ext, _MEDIA[ext], body)])
    else:
        raise ValueError(fmt)
    if any(p[k] != "ok" for k in LAB_SLOTS):
        if fmt in ODF_FORMATS:
            data = _lab_odf(data, p, tk)
        elif fmt in ("docx", "pptx", "xlsx"):
            data = _lab_ooxml(data, fmt, p, tk)
    if p["file"] != "ok":
        data = _rename_picture(data, fmt, files_of(fmt)[p["file"]])
    return {"data": data, "props": {}, "members": [], "used": used}


# ------------------------------------------------------------------------------------------------ enumeration

def pair_forms(lex):
    """(w, h) with one or both sides taken from the alphabet: (l, ok), (ok, l), (l, l)"""
    out = []
    for name in lex:
        if name == "ok":
            continue
        out += [(name, "ok"), ("ok", name), (name, name)]
    return out


def cases(tier, fmt):
    """quick:    every kind (ppt, xls: x one / two UIDs) with the natural size, every kind with size (zero, zero), and the PNG
                 with every (l, ok), (ok, l), (l, l) of the format's size lexemes l;
       thorough: every kind x {natural} u every kind x the pair forms, and the PNG with every (w, h) of lexemes x lexemes."""
    out, seen = [], set()

    def add(kind, w="ok", h="ok", uid2=False):
        key = (kind, w, h, uid2)
        if key in seen:
            return
        seen.add(key)
        out.append(canonical({"kind": kind, "w": w, "h": h, "uid2": uid2}))

    lex = sizes_of(fmt)
    for k in kinds_of(fmt):
        add(k)
        if fmt in BLIP_FORMATS:
            add(k, uid2=True)
        if lex:
            add(k, "zero", "zero")
    for w, h in pair_forms(lex):
        for k in (kinds_of(fmt) if tier != "quick" else ["png"]):
            add(k, w, h)
    if tier != "quick":
        for w in lex:
            for h in lex:
                add("png", w, h)
    return out


def label_cases(tier, fmt):
    """the PNG in a frame of natural size with its label slots in every combination of states:
       quick:    every pair of slots in every pair of states, the other slots natural (pairwise);
       thorough: every slot in every state (the full product)."""
    lab = labels_of(fmt)
    slots = [k for k in LAB_SLOTS if k in lab]
    out, seen = [], set()

    def add(states):
        c = canonical(dict(DEFAULT, **states))
        key = tuple(sorted(c.items()))
        if c and key not in seen:
            seen.add(key)
            out.append(c)

    if tier == "quick":
        for i, a in enumerate(slots):
            for b in slots[i + 1:]:
                for x in lab[a]:
                    for y in lab[b]:
                        add({a: x, b: y})
    else:
        combos = [{}]
        for k in slots:
            combos = [dict(c, **{k: x}) for c in combos for x in lab[k]]
        for c in combos:
            add(c)
    return out


def file_cases(tier, fmt):
    """the picture stored under every storage-name lexeme of the format (natural frame size and labels):
       quick: the PNG;  thorough: the payload kinds FILE_KINDS_THOROUGH (PNG, bytes of no picture format, zero bytes)."""
    out = []
    for k in (FILE_KINDS_THOROUGH if tier != "quick" else ("png",)):
        if k not in kinds_of(fmt):
            continue
        for name in files_of(fmt):
            if name != "ok":
                out.append(canonical(dict(DEFAULT, kind=k, file=name)))
    return out


def member_cases(tier, fmt):
    """package formats: one picture in every non-ok member state, and two pictures in every pair of states (not both ok);
       quick: the states MEM; thorough: MEM_THOROUGH."""
    if fmt not in FILE_FORMATS:
        return []
    st = MEM if tier == "quick" else MEM_THOROUGH
    out = [canonical(dict(DEFAULT, mem=a)) for a in st if a != "ok"]
    out += [canonical(dict(DEFAULT, mem=a, mem2=b)) for a in st for b in st if (a, b) != ("ok", "ok")]
    return out
