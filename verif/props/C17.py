"""C17 - removed markup is removed completely and takes nothing else with it.

Space I over parser event sequences. A case is {"r": removable element, "ctx": context, "seq": [symbols]}:
the document is  context( V1 <!--X--> <r> seq </r> V2 ) V3  and every sequence of length <= L over the
content alphabet is generated (subject to the delimitation constraints below). Token classes are assigned
by the reference automaton (ref_classify): B = must be visible exactly once and in order, X = must not
appear, Z = don't care (behaviour not settled by the statement, e.g. text after a nested same-name close).
Formats: html (read_html), mhtml x {7bit, quoted-printable, base64}, epub chapter, msg-style body
(_html_to_text).
"""
from __future__ import annotations

import io
import itertools
import os
import random

from verif.gen import htmlfam
from verif.gen.tokens import Tokens, find_tokens
from verif.mc import pool as P

LEVEL = "model_checking"
REMOVABLE = ["script", "style", "noscript", "iframe", "object", "embed", "applet"]
RAW = {"script", "style"}
CONTEXTS = ["body", "div", "td", "li", "sib"]     # sib: the removed element follows an already closed inline sibling
# content alphabet (19 symbols). "<n1>" = nested raw-text removable, "<n2>" = nested ordinary removable
SIGMA = ["<p>", "</p>", "<span>", "</span>", "<td>", "</td>", "<img>", "<img/>", "<br>", "<br/>",
         "<n1>", "</n1>", "<n2>", "</n2>", "<r>", "</r>", "T", "C", "D"]
SIGMA_EXTRA_VOID = ["<input>", "<param>", "<source>", "<hr>", "<wbr>"]
FORMATS_ALL = ["html", "msgbody", "epub", "epubseq", "mhtml-qp", "mhtml-7bit", "mhtml-b64"]


def nested_names(r):
    n1 = "style" if r != "style" else "script"
    n2 = "iframe" if r != "iframe" else "object"
    return n1, n2


def valid(r, seq):
    """Delimitation constraints: r's own open/close balanced (never negative); nested removable opens are closed
    later inside the content; for raw-text r the content must not contain the literal end tag except as the balanced
    close. embed has no content."""
    if r == "embed":
        return False
    if (r in RAW or r == "iframe") and ("<r>" in seq or "</r>" in seq):
        return False   # raw-text content cannot nest its own tag (browsers treat iframe content as raw text too)
    depth = 0
    open1 = open2 = 0
    for s in seq:
        if open1 and s != "</n1>" and r not in RAW:
            continue          # inside the nested raw-text element every symbol is plain text, not markup
        if s == "<r>":
            depth += 1
        elif s == "</r>":
            depth -= 1
            if depth < 0:
                return False
        elif s == "<n1>":
            open1 += 1
        elif s == "</n1>":
            if open1:
                open1 -= 1
        elif s == "<n2>":
            open2 += 1
        elif s == "</n2>":
            if open2:
                open2 -= 1
    return depth == 0 and open1 == 0 and open2 == 0


def ref_classify(r, seq):
    """Reference automaton: class of each token-bearing symbol of seq ('X' hidden or 'Z' don't care)."""
    classes = []
    seen_own_close = False
    for s in seq:
        if s == "</r>":
            seen_own_close = True
        if s in ("T", "C", "D"):
            classes.append("Z" if seen_own_close else "X")
    return classes


def render_body(case, tk: Tokens, xhtml=False):
    """Returns (body html, visible tokens in order, hidden tokens)."""
    r, ctx, seq = case["r"], case["ctx"], case["seq"]
    n1, n2 = nested_names(r)
    v1, v2, v3, v0 = tk.new("B"), tk.new("B"), tk.new("B"), tk.new("B")
    xc = tk.new("X")
    hidden = [xc]
    spell = case.get("spell", "pair")
    if r == "embed" or spell != "pair":
        inner = {"open": f"<{r} src=\"x\">", "self": f"<{r} src=\"x\"/>", "pair": f"<{r} src=\"x\"></{r}>"}[spell if spell != "pair" or r == "embed" else "pair"]
        if r == "embed" and spell == "pair":
            inner = "<embed src=\"x\"></embed>"
    else:
        parts = []
        classes = ref_classify(r, seq)
        ci = 0
        for s in seq:
            if s in ("T", "C", "D"):
                c = classes[ci]
                ci += 1
                t = tk.new(c)
                if c == "X":
                    hidden.append(t)
                if s == "T":
                    parts.append(t)
                elif s == "C":
                    parts.append(f"<!--{t}-->")
                else:
                    parts.append(f"<![CDATA[{t}]]>")
            elif s in ("<r>", "</r>"):
                parts.append(s.replace("r", r))
            elif s in ("<n1>", "</n1>"):
                parts.append(s.replace("n1", n1))
            elif s in ("<n2>", "</n2>"):
                parts.append(s.replace("n2", n2))
            else:
                parts.append(s)
        inner = f"<{r}>" + "".join(parts) + f"</{r}>"
    core = f"{v1} <!--{xc}--> {inner} {v2}"
    if ctx == "body":
        body = f"<p>{v0}</p>{core}<p>{v3}</p>"
    elif ctx == "div":
        body = f"<p>{v0}</p><div>{core}</div><p>{v3}</p>"
    elif ctx == "li":
        body = f"<p>{v0}</p><ul><li>{core}</li></ul><p>{v3}</p>"
    elif ctx == "td":
        body = f"<p>{v0}</p><table><tr><td>{core}</td></tr></table><p>{v3}</p>"
    elif ctx == "sib":
        vs = tk.new("B")
        body = f"<p>{v0}</p><div><span>{v1}</span><!--{xc}-->{inner} {v2} <span>{vs}</span></div><p>{v3}</p>"
        return body, [v0, v1, v2, vs, v3], hidden
    else:
        raise ValueError(ctx)
    return body, [v0, v1, v2, v3], hidden


def extract_text(fmt, body):
    if fmt == "html":
        from sharepoint2text.parsing.extractors.html_extractor import read_html
        res = list(read_html(io.BytesIO(htmlfam.html_page(body).encode("utf-8")), "p.html"))
        return "\n".join(r.get_full_text() for r in res)
    if fmt == "msgbody":
        from sharepoint2text.parsing.extractors.mail.msg_email_extractor import _html_to_text
        return _html_to_text(htmlfam.html_page(body))
    if fmt.startswith("mhtml"):
        from sharepoint2text.parsing.extractors.mhtml_extractor import read_mhtml
        enc = {"qp": "quoted-printable", "7bit": "7bit", "b64": "base64"}[fmt.split("-")[1]]
        res = list(read_mhtml(io.BytesIO(htmlfam.mhtml(htmlfam.html_page(body), enc)), "p.mhtml"))
        return "\n".join(r.get_full_text() for r in res)
    if fmt == "epub":
        from sharepoint2text.parsing.extractors.epub_extractor import read_epub
        data = htmlfam.epub([htmlfam.xhtml_page(body, "t")], {"title": "t"})
        res = list(read_epub(io.BytesIO(data), "b.epub"))
        out = []
        for r in res:
            out.append(r.get_full_text())
        tabs = []
        for r in res:
            for t in r.iterate_tables():
                for row in t.get_table():
                    tabs.append(" ".join(str(c) for c in row))
        # EPUB documents table text in iterate_tables() only: splice the cell text where the table stands (after v0)
        text = "\n".join(out)
        if tabs:
            tt = "\n".join(tabs)
            lines = text.split("\n")
            text = "\n".join(lines[:1] + [tt] + lines[1:])
        return text
    raise ValueError(fmt)


def evaluate_epubseq(case, seed=0):
    """Three-chapter EPUB; chapter 1 ends inside an unterminated removable element (everything after it in that chapter
    is legitimately hidden). Chapters 2 and 3 must be unaffected: one parser state must not leak into the next chapter."""
    from sharepoint2text.parsing.extractors.epub_extractor import read_epub
    tk = Tokens(seed)
    r, seq = case["r"], case["seq"]
    n1, n2 = nested_names(r)
    v = [tk.new("B") for _ in range(5)]
    hidden = []
    parts = []
    for s in seq:
        if s in ("T", "C", "D"):
            t = tk.new("X"); hidden.append(t)
            parts.append(t if s == "T" else (f"<!--{t}-->" if s == "C" else f"<![CDATA[{t}]]>"))
        else:
            parts.append(s.replace("n1", n1).replace("n2", n2).replace("<r>", f"<{r}>").replace("</r>", f"</{r}>"))
    xt = tk.new("X"); hidden.append(xt)
    ch1 = htmlfam.xhtml_page(f"<p>{v[0]}</p><p>{v[1]}</p><{r}>" + "".join(parts) + xt, "a")
    ch2 = htmlfam.xhtml_page(f"<p>{v[2]}</p>", "b")
    ch3 = htmlfam.xhtml_page(f"<p>{v[3]}</p><table><tr><td>{v[4]}</td></tr></table>", "c")
    try:
        res = list(read_epub(io.BytesIO(htmlfam.epub([ch1, ch2, ch3], {"title": "t"})), "b.epub"))
        text = "\n".join(x.get_full_text() for x in res)
        units = [u.get_text() for x in res for u in x.iterate_units()]
        tabs = " ".join(str(c) for x in res for t in x.iterate_tables() for row in t.get_table() for c in row)
    except Exception as e:  # noqa
        return [("raises", f"{type(e).__name__}: {e}")], None
    fails = []
    found = find_tokens(text)
    leaked = [t for t in found if t in hidden]
    if leaked:
        fails.append(("leak", f"removed content {leaked} appears in {text!r}"))
    vis = [t for t in found if t in v[:4]]
    if vis != v[:4]:
        fails.append(("lost", f"chapters after an unterminated <{r}> lose text: expected v0..v3 once, in order; got positions "
                              f"{[v.index(t) for t in vis]} text {text!r}"))
    if v[4] not in tabs:
        fails.append(("lost", f"table of chapter 3 lost after unterminated <{r}> in chapter 1: tables {tabs!r}"))
    return fails, (tuple(v.index(t) for t in vis), len(leaked), len(units))


def evaluate(fmt, case, seed=0):
    if fmt == "epubseq":
        return evaluate_epubseq(case, seed)
    tk = Tokens(seed)
    body, visible, hidden = render_body(case, tk, xhtml=(fmt == "epub"))
    try:
        text = extract_text(fmt, body)
    except Exception as e:  # noqa
        return [("raises", f"{type(e).__name__}: {e}")], None
    found = find_tokens(text)
    fails = []
    leaked = [t for t in found if t in hidden]
    if leaked:
        fails.append(("leak", f"removed content {leaked} appears in text {text!r} for body {body!r}"))
    vis_found = [t for t in found if t in visible]
    miss = [t for t in visible if t not in vis_found]
    if miss:
        which = ",".join("v%d" % visible.index(t) for t in miss)
        fails.append(("lost", f"visible text {which} missing: text {text!r} for body {body!r}"))
    elif len(vis_found) != len(visible):
        fails.append(("dup", f"visible text duplicated: text {text!r} for body {body!r}"))
    elif vis_found != visible:
        fails.append(("order", f"visible text out of order: text {text!r} for body {body!r}"))
    outcome = (tuple(visible.index(t) for t in vis_found), len(leaked))
    return fails, outcome


def reexec(fmt, case):
    return evaluate(fmt, case, int(os.environ.get("VERIF_SEED", "0")))[0]


def shrinks(case):
    seq = case["seq"]
    for i in range(len(seq)):
        c = dict(case)
        c["seq"] = seq[:i] + seq[i + 1:]
        if c.get("spell", "pair") not in ("pair", "unterminated") or valid(c["r"], c["seq"]):
            yield c
    if case["ctx"] != "body":
        c = dict(case)
        c["ctx"] = "body"
        yield c


def embeds(small, big):
    if small["r"] != big["r"] or small.get("spell", "pair") != big.get("spell", "pair"):
        return False
    if small["ctx"] != "body" and small["ctx"] != big["ctx"]:
        return False
    it = iter(big["seq"])
    return all(any(s == b for b in it) for s in small["seq"])


def cases_for(tier, fmt):
    """Yield cases for one format."""
    quick = tier == "quick"
    if fmt == "epubseq":
        for r in REMOVABLE:
            if r == "embed":
                continue
            sig = [x for x in SIGMA if x not in ("<r>", "</r>")]
            for n in range(0, (2 if quick else 3) + 1):
                for seq in itertools.product(sig, repeat=n):
                    if valid(r, seq):
                        yield {"r": r, "ctx": "body", "seq": list(seq), "spell": "unterminated"}
        return
    if fmt == "html":
        L = {r: (3 if quick else (5 if r in ("script", "noscript") else 4)) for r in REMOVABLE}
        ctxs = CONTEXTS
    elif fmt == "epub":
        L = {r: (3 if quick else 4) for r in REMOVABLE}
        ctxs = CONTEXTS
    elif fmt == "msgbody":
        L = {r: (2 if quick else 3) for r in REMOVABLE}
        ctxs = ["body", "td"]
    else:
        L = {r: (2 if quick else 3) for r in REMOVABLE}
        ctxs = ["body"]
    for r in REMOVABLE:
        if r == "embed":
            for ctx in ctxs:
                for sp in ("open", "self", "pair"):
                    yield {"r": r, "ctx": ctx, "seq": [], "spell": sp}
            continue
        if fmt == "epub":
            for ctx in ctxs:
                yield {"r": r, "ctx": ctx, "seq": [], "spell": "self"}
        sig = SIGMA
        for n in range(0, L[r] + 1):
            for seq in itertools.product(sig, repeat=n):
                if not valid(r, seq):
                    continue
                # deeper contexts only up to length 3 (context does not interact with longer content: argument in DESIGN)
                for ctx in (ctxs if n <= 3 else ["body"]):
                    yield {"r": r, "ctx": ctx, "seq": list(seq)}
        # extra void tags (statement lists input/param/source): all sequences of length <= 2 with one extra symbol
        for v in SIGMA_EXTRA_VOID:
            for other in [None] + SIGMA:
                for seq in ([v], [v, other], [other, v]) if other else ([v],):
                    if other is None or valid(r, seq):
                        yield {"r": r, "ctx": "body", "seq": [s for s in seq if s]}


def _part(arg):
    tier, fmt, k, n, seed = arg
    ev = 0
    trans = 0
    fails = []
    outcomes = {}
    samples = []
    for i, case in enumerate(cases_for(tier, fmt)):
        if i % n != k:
            continue
        f, oc = evaluate(fmt, case, seed)
        ev += 1
        trans += len(case["seq"]) + 2
        outcomes[str(oc)] = outcomes.get(str(oc), 0) + 1
        for clause, msg in f:
            fails.append((clause, fmt, case, msg))
        if ev in (3, 700) and len(samples) < 2:
            samples.append({"fmt": fmt, "case": case, "body": render_body(case, Tokens(seed))[0] if fmt != "epubseq" else "3 chapters", "outcome": str(oc)})
    return {"ev": ev, "trans": trans, "fails": fails, "outcomes": outcomes, "samples": samples}


def run(ctx):
    fmts = FORMATS_ALL
    args = []
    for fmt in fmts:
        n = 32 if fmt in ("html", "epub") else 8
        if not ctx.quick and fmt == "html":
            n = 128
        args += [(ctx.tier, fmt, k, n, ctx.seed) for k in range(n)]
    random.Random(ctx.seed).shuffle(args)
    res = P.run_all("verif.props.C17", "_part", args, n=ctx.ncpu, hard_timeout=3000)
    ev = trans = 0
    fails = []
    outcomes = {}
    samples = []
    per_fmt = {}
    herr = []
    for (st, r, _), a in zip(res, args):
        if st != "done":
            herr.append(f"partition {a} failed: {st}: {str(r)[-600:]}")
            continue
        ev += r["ev"]
        trans += r["trans"]
        per_fmt[a[1]] = per_fmt.get(a[1], 0) + r["ev"]
        fails += [tuple(x) for x in r["fails"]]
        for k_, v in r["outcomes"].items():
            outcomes[k_] = outcomes.get(k_, 0) + v
        samples += r["samples"]
    samples = sorted(samples, key=lambda s: (s["fmt"], str(s["case"])))[:6]
    cov = {"states": ev, "transitions": trans, "traces_validated_against_impl": ev, "samples": samples,
           "evaluations": ev, "distinct_nontrivial": len(outcomes),
           "rule": "every delimited event sequence of length <= L over the 19-symbol content alphabet (plus 5 extra void tags at "
                   "length <= 2), for each of 7 removable elements x contexts, rendered to real markup and parsed by the real "
                   "extractors; states = (format, element, context, sequence) executed, transitions = parser events fed; "
                   "distinct_nontrivial = distinct (visible-token order, leak count) outcomes",
           "per_format": per_fmt, "outcomes": outcomes, "exhaustive": True,
           "bounds": {"tier": ctx.tier, "L_html": "3 (quick) / 5 script,noscript; 4 others (thorough)", "L_wrappers": "2 (quick) / 3"}}
    return {"coverage": cov, "failures": fails, "harness_errors": herr,
            "assumptions": ["reference automaton: content hidden until the matching close of the same element name; raw-text "
                            "elements end at their first end tag; text after a nested same-name close inside the element is "
                            "don't-care (class Z)", "self-closed non-void removable elements only generated for XHTML (EPUB)"]}
