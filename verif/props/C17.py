"""C17 - removed markup is removed completely and takes nothing else with it.

Space I over parser event sequences. Three exhaustive families; every case is rendered to real markup and run through
the real extractors. Token classes: B = must be visible exactly once and in order, X = must not appear, Z = don't care.

Family "seq" (a case without "fam": {"r", "ctx", "seq"[, "spell"][, "cform"]}): the document is
context( V1 <!--X--> <r> seq </r> V2 ) V3  and every sequence of length <= L over the content alphabet SIGMA is
generated (subject to the delimitation constraints of valid()). Classes are assigned by the reference automaton
(ref_classify; text after a nested same-name close is Z). "cform" selects the spelling of every comment in the document
(CFORMS: one line, multi-line, Office conditional comment, downlevel-revealed pair, comment holding the element's own
tags); non-plain spellings are generated for every sequence of length <= 1 and every longer sequence (<= Lc) with a
comment symbol. Formats: html (read_html), mhtml x {7bit, quoted-printable, base64}, epub chapter, epubseq (three
chapters, the first ends inside an unterminated element), msg-style body (_html_to_text on a full page; "msgfrag": a body
fragment without <html>/<body> shell whose tags carry attributes, through the reader's own is-this-HTML decision),
HTML-only messages ("emlhtml", "mboxhtml": the page as the single text/html part of a real .eml / .mbox, read through
read_eml_format_mail / read_mbox_format_mail, judged on get_full_text()).

Family "cm" (comment forms, {"fam": "cm", "lay", "frame", "k": [slot, slot]}): V0 K1 V1 K2 V2 - two removable
constructs with visible text before, between and after. A slot is a comment `<!--c-->`, a markup declaration `<!c>`
(bogus comment: `<![if c]>`, `<![endif]>`, `<!tok>`, `<![x]>`) or a raw-text element `<script|style>c</..>`; c ranges over EVERY
sequence over the comment-content alphabet KAPPA (token, `[if c]>`, `<![endif]`, `<!`, `<!--`, `>`, `<p>`, `</p>`,
`<script>`, `</script>`, newline, `--`; for raw text also the closing half `-->`) within the length bounds, restricted
to contents whose end is unambiguous in the HTML standard and in html.parser (valid_comment). The pair matters: any
shortcut that pairs a marker of one construct with a marker of a later one (e.g. `<!--[if ..]>` with the next
`<![endif]-->`) deletes the visible text between them. Layouts: blk (own paragraphs), inl (inside one paragraph), nest
(div/span); frames: page (bare page) and office (Word/Outlook head with its own conditional comment and
comment-wrapped style sheet). Formats: html, msgbody, epub (XML-safe subset), mhtml.

Family "wrap" (container layouts, fmt "mhtml-tree", {"fam": "wrap", "shape", "enc", "hdr", "eol", "r", "seq"}): a
multi-line page  V0 V1 <removed> V2 V3  inside every MIME tree of c17_wrap (6 shapes: single part, flat related, root
named by start=, related>alternative, alternative>related, mixed>related) x 4 transfer encodings x 2 header orders
x 2 line terminators. The removed construct (comment, script, style, noscript, object) holds every sequence over the
LINE alphabet LAMBDA: newline, token, `--`, `--=_b` (line that looks like a MIME delimiter), a Content-Type and a
Content-Transfer-Encoding look-alike line, a line longer than 76 columns (soft line break lands in the token). The
container framing is line based; nothing inside removed markup may be mistaken for it, whatever the tree looks like.
Every container is read back with the stdlib e-mail parser once per run (writer check, harness error if it disagrees).

Family "eof" (end of input inside removed markup, {"fam": "eof", "open", "seq", "tail", "lay"}): the document ENDS inside
a removable construct that is never terminated (truncated download, template that lost its `-->`): V0 <!--X--> V1 OPEN c
EOF. OPEN ranges over EOF_OPEN: comment `<!--`, markup declaration `<!`, marked section `<![`, `<![CDATA[`, processing
instruction `<?` (all (bogus) comments in HTML: they run to the first `>` / `-->`, else to the end of input), the raw-text
elements `<script>` `<style>`, and `<noscript>` `<iframe>` `<object>` `<applet>`. c ranges over every sequence over the
construct's alphabet (comment, element: KAPPA; raw text: KAPPA_RAW; declarations: KAPPA_DECL = the symbols without `>`
plus `]` `]]`) that leaves the construct unterminated (valid_eof). tail: "cut" (the input stops right there) or "shell"
(the closing tags of the page follow, i.e. they are inside the construct). Layouts: blk (after a closed paragraph), inl
(inside an open paragraph, after bare text), nest (div/span), td (open table cell; not for EPUB, whose tables are
reported only once closed). Oracle: V0, V1(, V2) once and in order; no token of c in the text; nor the construct's own
opening delimiter (`<!`, `<?`, `<script` ...) as literal text. Formats: html, msgbody, epub, mhtml-qp (quick), also
msgfrag, mhtml-7bit, mhtml-b64 (thorough).

Family "shell" (document-shell tags inside removed markup, {"fam": "shell", "r", "seq"[, "shape", "enc", "hdr", "eol",
"root"]}): the multi-line page  V0 V1 <removed> V2 V3  of family "wrap"; the removed construct (comment, script, style,
noscript, iframe, object, applet) holds every sequence over the SHELL alphabet OMEGA: token, newline, `<html>`, `</html>`,
`<body>`, `</body>`, `</head>` - an inline fallback document, a saved copy of a page in a comment, a script that writes a
page. Tags of the document shell inside removed markup are content of that markup: they must not end (or restart) the
document for the parser, nor for any code that locates "the HTML document" in its container by looking for these tags.
Formats: html, msgbody, and mhtml-tree over the containers of c17_wrap x ROOTS, the media type the root part is labelled
with: text/html, Text/HTML (media types are case-insensitive) and application/xhtml+xml (RFC 2557 lets the root of a
multipart/related have any type; the page then carries the XHTML namespace). Roots that are not text/html are generated
with the identity transfer encodings only (7bit, none) - see assumptions.

Bounds (quick / thorough): shell: html length <= 3 / 4, msgbody <= 2 / 3; mhtml-tree: length <= 1 / 2 for all 240
containers (6 shapes x 10 (root, encoding) pairs x 2 header orders x 2 line terminators), length 2 / 3 for the 18 containers
with CRLF, Content-Type first and (root, encoding) in (text/html, 7bit), (text/html, quoted-printable),
(application/xhtml+xml, 7bit); seq L = 3 / 5 (html), 2 / 3 (wrappers), Lc = 2 / 3; cm: slot contents of length <= 1 for all
39 x 39 slot pairs x 3 layouts, comment-comment pairs of total length <= 3 / 4 (layout blk), office frame for total
length <= 2 / 3; wrap: all 96 containers x 5 constructs x sequences of length <= 1 / 3, plus length 2 for the 24
containers with CRLF and Content-Type first (quick); eof: all 11 openers x 2 tails x contents of length <= 1 / 2 for the
4 layouts and of length 2 / 3 (3: html only) for layout blk.
"""
from __future__ import annotations

import io
import itertools
import os
import random
import re

from verif.gen import htmlfam
from verif.gen.tokens import Tokens, find_tokens
from verif.mc import pool as P
from verif.props import c17_wrap as W

LEVEL = "model_checking"
REMOVABLE = ["script", "style", "noscript", "iframe", "object", "embed", "applet"]
RAW = {"script", "style"}
CONTEXTS = ["body", "div", "td", "li", "sib"]     # sib: the removed element follows an already closed inline sibling
# content alphabet (19 symbols). "<n1>" = nested raw-text removable, "<n2>" = nested ordinary removable
SIGMA = ["<p>", "</p>", "<span>", "</span>", "<td>", "</td>", "<img>", "<img/>", "<br>", "<br/>",
         "<n1>", "</n1>", "<n2>", "</n2>", "<r>", "</r>", "T", "C", "D"]
SIGMA_EXTRA_VOID = ["<input>", "<param>", "<source>", "<hr>", "<wbr>"]
FORMATS_ALL = ["html", "msgbody", "msgfrag", "emlhtml", "mboxhtml", "epub", "epubseq", "mhtml-qp", "mhtml-7bit", "mhtml-b64", "mhtml-tree"]
# spellings of a comment (family "seq", key "cform")
CFORMS = ["plain", "ml", "cond", "rev", "tag"]
# family "cm": comment-content alphabet
KAPPA = ["T", "[if", "endif]", "<!", "<!--", ">", "<p>", "</p>", "<script>", "</script>", "\n", "--"]
KAPPA_XML = [x for x in KAPPA if x not in ("<!--", "--")]            # XML comments must not contain "--"
KAPPA_RAW = ["T", "[if", "endif]", "<!--", "-->", ">", "<p>", "</p>", "\n", "--"]   # raw text: no script/style tags
KAPPA_TEXT = {"[if": "[if c]>", "endif]": "<![endif]"}
DECLS = ["[if c]", "[endif]", "T", "[x]"]    # `<![x]>`: marked section with an unknown keyword (bogus comment)
CM_LAYS = ["blk", "inl", "nest"]
CM_FRAMES = ["page", "office"]
# family "eof": constructs still open at the end of input
EOF_OPEN = {"cm": "<!--", "decl": "<!", "msect": "<![", "cdata": "<![CDATA[", "pi": "<?", "script": "<script>", "style": "<style>",
            "noscript": "<noscript>", "iframe": "<iframe>", "object": "<object>", "applet": "<applet>"}
EOF_DECLS = ("decl", "msect", "cdata", "pi")
KAPPA_DECL = [x for x in KAPPA if ">" not in KAPPA_TEXT.get(x, x)] + ["]", "]]"]      # a declaration ends at its first ">"
EOF_TAILS = ["cut", "shell"]
EOF_LAYS = ["blk", "inl", "nest", "td"]
EOF_CLOSERS = {"blk": "", "inl": "</p>", "nest": "</div>", "td": "</td></tr></table>"}
_EOF_MARKUP = re.compile(r"<!|<\?|--!?>|<script|<style|<noscript|<iframe|<object|<applet", re.I)
# family "wrap": line alphabet of the removed construct
LAMBDA = ["\n", "T", "--", "--b", "H", "E", "L"]
LAMBDA_TEXT = {"--b": "--=_b", "H": "Content-Type: text/html", "E": "Content-Transfer-Encoding: base64"}
WRAP_R = ["cm", "script", "style", "noscript", "object"]
# family "shell": tags of the document shell inside the removed construct; media types of the MHTML root part
OMEGA = ["T", "\n", "<html>", "</html>", "<body>", "</body>", "</head>"]
SHELL_R = ["cm", "script", "style", "noscript", "iframe", "object", "applet"]
ROOTS = ["text/html", "Text/HTML", "application/xhtml+xml"]
SHELL_DEEP = [("text/html", "7bit"), ("text/html", "quoted-printable"), ("application/xhtml+xml", "7bit")]


def nested_names(r):
    n1 = "style" if r != "style" else "script"
    n2 = "iframe" if r != "iframe" else "object"
    return n1, n2


def valid(r, seq):
    """Delimitation constraints: r's own open/close balanced (never negative); nested removable opens are closed
    later inside the content; for raw-text r the content must not contain the literal end tag except as the balanced
    close. embed has no content."""
    if r == "embed":
        return False
    if (r in RAW or r == "iframe") and ("<r>" in seq or "</r>" in seq):
        return False   # raw-text content cannot nest its own tag (browsers treat iframe content as raw text too)
    depth = 0
    open1 = open2 = 0
    for s in seq:
        if open1 and s != "</n1>" and r not in RAW:
            continue          # inside the nested raw-text element every symbol is plain text, not markup
        if s == "<r>":
            depth += 1
        elif s == "</r>":
            depth -= 1
            if depth < 0:
                return False
        elif s == "<n1>":
            open1 += 1
        elif s == "</n1>":
            if open1:
                open1 -= 1
        elif s == "<n2>":
            open2 += 1
        elif s == "</n2>":
            if open2:
                open2 -= 1
    return depth == 0 and open1 == 0 and open2 == 0


def ref_classify(r, seq):
    """Reference automaton: class of each token-bearing symbol of seq ('X' hidden or 'Z' don't care)."""
    classes = []
    seen_own_close = False
    for s in seq:
        if s == "</r>":
            seen_own_close = True
        if s in ("T", "C", "D"):
            classes.append("Z" if seen_own_close else "X")
    return classes


def comment(t, form, r, top=False):
    """One comment around token t in spelling `form`. Inside the element (top=False) everything is hidden anyway; the
    top-level comment (top=True) only takes spellings in which t is comment content."""
    if form == "plain":
        return f"<!--{t}-->"
    if form == "ml":
        return f"<!--\n{t}\n-->"
    if form == "cond" or (form == "rev" and top):
        return f"<!--[if gte mso 9]>{t}<![endif]-->"
    if form == "rev":       # downlevel-revealed pair: two complete comments around t
        return f"<!--[if !mso]><!-->{t}<!--<![endif]-->"
    if form == "tag":       # a comment that holds tags of the removed element itself
        if top or r in RAW or r == "iframe":
            return f"<!--<{r}>{t}-->"
        return f"<!--</{r}>{t}<{r}>-->"
    raise ValueError(form)


def render_body(case, tk: Tokens, xhtml=False):
    """Returns (body html, visible tokens in order, hidden tokens)."""
    r, ctx, seq = case["r"], case["ctx"], case["seq"]
    cform = case.get("cform", "plain")
    n1, n2 = nested_names(r)
    v1, v2, v3, v0 = tk.new("B"), tk.new("B"), tk.new("B"), tk.new("B")
    xc = tk.new("X")
    hidden = [xc]
    spell = case.get("spell", "pair")
    if r == "embed" or spell != "pair":
        inner = {"open": f"<{r} src=\"x\">", "self": f"<{r} src=\"x\"/>", "pair": f"<{r} src=\"x\"></{r}>"}[spell if spell != "pair" or r == "embed" else "pair"]
        if r == "embed" and spell == "pair":
            inner = "<embed src=\"x\"></embed>"
    else:
        parts = []
        classes = ref_classify(r, seq)
        ci = 0
        for s in seq:
            if s in ("T", "C", "D"):
                c = classes[ci]
                ci += 1
                t = tk.new(c)
                if c == "X":
                    hidden.append(t)
                if s == "T":
                    parts.append(t)
                elif s == "C":
                    parts.append(comment(t, cform, r))
                else:
                    parts.append(f"<![CDATA[{t}]]>")
            elif s in ("<r>", "</r>"):
                parts.append(s.replace("r", r))
            elif s in ("<n1>", "</n1>"):
                parts.append(s.replace("n1", n1))
            elif s in ("<n2>", "</n2>"):
                parts.append(s.replace("n2", n2))
            else:
                parts.append(s)
        inner = f"<{r}>" + "".join(parts) + f"</{r}>"
    xcm = comment(xc, cform, r, top=True)
    core = f"{v1} {xcm} {inner} {v2}"
    if ctx == "body":
        body = f"<p>{v0}</p>{core}<p>{v3}</p>"
    elif ctx == "div":
        body = f"<p>{v0}</p><div>{core}</div><p>{v3}</p>"
    elif ctx == "li":
        body = f"<p>{v0}</p><ul><li>{core}</li></ul><p>{v3}</p>"
    elif ctx == "td":
        body = f"<p>{v0}</p><table><tr><td>{core}</td></tr></table><p>{v3}</p>"
    elif ctx == "sib":
        vs = tk.new("B")
        body = f"<p>{v0}</p><div><span>{v1}</span>{xcm}{inner} {v2} <span>{vs}</span></div><p>{v3}</p>"
        return body, [v0, v1, v2, vs, v3], hidden
    else:
        raise ValueError(ctx)
    return body, [v0, v1, v2, v3], hidden


def extract_text(fmt, body):
    return extract_page(fmt, htmlfam.xhtml_page(body, "t") if fmt == "epub" else htmlfam.html_page(body))


def extract_page(fmt, page, container=None):
    """Text the library extracts from the complete (x)html document `page` wrapped as `fmt`."""
    if fmt == "html":
        from sharepoint2text.parsing.extractors.html_extractor import read_html
        res = list(read_html(io.BytesIO(page.encode("utf-8")), "p.html"))
        return "\n".join(r.get_full_text() for r in res)
    if fmt == "msgbody":
        from sharepoint2text.parsing.extractors.mail.msg_email_extractor import _html_to_text
        return _html_to_text(page)
    if fmt == "msgfrag":
        # the reader's own decision whether the stored body is HTML, then its converter (as read_msg_format_mail does)
        from sharepoint2text.parsing.extractors.mail.msg_email_extractor import _html_to_text, _looks_like_html
        return _html_to_text(page) if _looks_like_html(page) else page
    if fmt in ("emlhtml", "mboxhtml"):
        # an HTML-only message (no text/plain part): the text of the result is what the library makes of the HTML body
        import base64
        head = ("From: A <a@example.org>\r\nTo: B <b@example.org>\r\nSubject: s\r\nDate: Mon, 01 Jan 2024 10:00:00 +0000\r\n"
                "Message-ID: <verif-c17@example.org>\r\nMIME-Version: 1.0\r\nContent-Type: text/html; charset=\"utf-8\"\r\n"
                "Content-Transfer-Encoding: base64\r\n\r\n")
        raw = (head + base64.encodebytes(page.encode("utf-8")).decode("ascii").replace("\n", "\r\n")).encode("ascii")
        if fmt == "emlhtml":
            from sharepoint2text.parsing.extractors.mail.eml_email_extractor import read_eml_format_mail
            res = list(read_eml_format_mail(io.BytesIO(raw), "m.eml"))
        else:
            from sharepoint2text.parsing.extractors.mail.mbox_email_extractor import read_mbox_format_mail
            res = list(read_mbox_format_mail(io.BytesIO(b"From a@example.org Mon Jan  1 10:00:00 2024\n" + raw.replace(b"\r\n", b"\n") + b"\n"), "m.mbox"))
        return "\n".join(r.get_full_text() for r in res)
    if fmt == "mhtml-tree":
        from sharepoint2text.parsing.extractors.mhtml_extractor import read_mhtml
        res = list(read_mhtml(io.BytesIO(W.mhtml_tree(page, **container)), "p.mhtml"))
        return "\n".join(r.get_full_text() for r in res)
    if fmt.startswith("mhtml"):
        from sharepoint2text.parsing.extractors.mhtml_extractor import read_mhtml
        enc = {"qp": "quoted-printable", "7bit": "7bit", "b64": "base64"}[fmt.split("-")[1]]
        res = list(read_mhtml(io.BytesIO(htmlfam.mhtml(page, enc)), "p.mhtml"))
        return "\n".join(r.get_full_text() for r in res)
    if fmt == "epub":
        from sharepoint2text.parsing.extractors.epub_extractor import read_epub
        data = htmlfam.epub([page], {"title": "t"})
        res = list(read_epub(io.BytesIO(data), "b.epub"))
        out = []
        for r in res:
            out.append(r.get_full_text())
        tabs = []
        for r in res:
            for t in r.iterate_tables():
                for row in t.get_table():
                    tabs.append(" ".join(str(c) for c in row))
        # EPUB documents table text in iterate_tables() only: splice the cell text where the table stands (after v0)
        text = "\n".join(out)
        if tabs:
            tt = "\n".join(tabs)
            lines = text.split("\n")
            text = "\n".join(lines[:1] + [tt] + lines[1:])
        return text
    raise ValueError(fmt)


def evaluate_epubseq(case, seed=0):
    """Three-chapter EPUB; chapter 1 ends inside an unterminated removable element (everything after it in that chapter
    is legitimately hidden). Chapters 2 and 3 must be unaffected: one parser state must not leak into the next chapter."""
    from sharepoint2text.parsing.extractors.epub_extractor import read_epub
    tk = Tokens(seed)
    r, seq = case["r"], case["seq"]
    n1, n2 = nested_names(r)
    v = [tk.new("B") for _ in range(5)]
    hidden = []
    parts = []
    for s in seq:
        if s in ("T", "C", "D"):
            t = tk.new("X"); hidden.append(t)
            parts.append(t if s == "T" else (f"<!--{t}-->" if s == "C" else f"<![CDATA[{t}]]>"))
        else:
            parts.append(s.replace("n1", n1).replace("n2", n2).replace("<r>", f"<{r}>").replace("</r>", f"</{r}>"))
    xt = tk.new("X"); hidden.append(xt)
    ch1 = htmlfam.xhtml_page(f"<p>{v[0]}</p><p>{v[1]}</p><{r}>" + "".join(parts) + xt, "a")
    ch2 = htmlfam.xhtml_page(f"<p>{v[2]}</p>", "b")
    ch3 = htmlfam.xhtml_page(f"<p>{v[3]}</p><table><tr><td>{v[4]}</td></tr></table>", "c")
    try:
        res = list(read_epub(io.BytesIO(htmlfam.epub([ch1, ch2, ch3], {"title": "t"})), "b.epub"))
        text = "\n".join(x.get_full_text() for x in res)
        units = [u.get_text() for x in res for u in x.iterate_units()]
        tabs = " ".join(str(c) for x in res for t in x.iterate_tables() for row in t.get_table() for c in row)
    except Exception as e:  # noqa
        return [("raises", f"{type(e).__name__}: {e}")], None
    fails = []
    found = find_tokens(text)
    leaked = [t for t in found if t in hidden]
    if leaked:
        fails.append(("leak", f"removed content {leaked} appears in {text!r}"))
    vis = [t for t in found if t in v[:4]]
    if vis != v[:4]:
        fails.append(("lost", f"chapters after an unterminated <{r}> lose text: expected v0..v3 once, in order; got positions "
                              f"{[v.index(t) for t in vis]} text {text!r}"))
    if v[4] not in tabs:
        fails.append(("lost", f"table of chapter 3 lost after unterminated <{r}> in chapter 1: tables {tabs!r}"))
    return fails, (tuple(v.index(t) for t in vis), len(leaked), len(units))


_CEND = re.compile(r"--\s*!?>")


def valid_comment(c):
    """The comment `<!--` c `-->` ends exactly at our terminator for the HTML standard and for html.parser alike: c does
    not start with `>` / `->` (abrupt closing) and contains no `--` + optional blanks/`!` + `>`."""
    if c.startswith(">") or c.startswith("->"):
        return False
    m = _CEND.search(c + "-->")
    return m is not None and m.start() == len(c)


def slot_text(slot, tk, hidden):
    """Markup of one removable construct of family "cm"; its tokens are appended to `hidden`."""
    kind, seq = slot["kind"], slot["seq"]
    parts = []
    for s in seq:
        if s == "T":
            t = tk.new("X"); hidden.append(t)
            parts.append(t)
        else:
            parts.append(KAPPA_TEXT.get(s, s))
    c = "".join(parts)
    if kind == "cm":
        return f"<!--{c}-->"
    if kind == "decl":
        return f"<!{c}>"
    return f"<{kind}>{c}</{kind}>"


def valid_slot(slot):
    kind, seq = slot["kind"], slot["seq"]
    if kind == "cm":
        return valid_comment("".join(KAPPA_TEXT.get(s, "Xbbbbb" if s == "T" else s) for s in seq))
    if kind == "decl":
        return len(seq) == 1 and seq[0] in DECLS
    return kind in RAW and all(s in KAPPA_RAW for s in seq)


def render_cm(case, tk: Tokens, xhtml=False):
    """Family "cm": returns (complete page, visible tokens in order, hidden tokens)."""
    v0, v1, v2 = tk.new("B"), tk.new("B"), tk.new("B")
    hidden = []
    k1 = slot_text(case["k"][0], tk, hidden)
    k2 = slot_text(case["k"][1], tk, hidden)
    lay = case["lay"]
    if lay == "blk":
        body = f"<p>{v0}</p>{k1}<p>{v1}</p>{k2}<p>{v2}</p>"
    elif lay == "inl":
        body = f"<p>{v0} {k1} {v1} {k2} {v2}</p>"
    elif lay == "nest":
        body = f"<div>{v0} {k1}<span>{v1}</span>{k2}</div><p>{v2}</p>"
    else:
        raise ValueError(lay)
    frame = case.get("frame", "page")
    if xhtml:
        page = htmlfam.xhtml_page(body, "t")
    elif frame == "page":
        page = htmlfam.html_page(body)
    elif frame == "office":
        h1, h2 = tk.new("X"), tk.new("X")
        hidden += [h1, h2]
        page = ('<html xmlns:o="urn:schemas-microsoft-com:office:office">\n<head>\n'
                '<meta http-equiv="Content-Type" content="text/html; charset=utf-8">\n'
                f"<!--[if gte mso 9]><xml><o:OfficeDocumentSettings><o:AllowPNG/>{h1}</o:OfficeDocumentSettings></xml><![endif]-->\n"
                f"<style><!--\n p {{margin:0}} .{h2} {{color:red}}\n--></style>\n</head>\n<body>\n{body}\n</body>\n</html>\n")
    else:
        raise ValueError(frame)
    return page, [v0, v1, v2], hidden


def eof_alphabet(op):
    return KAPPA_DECL if op in EOF_DECLS else (KAPPA_RAW if op in RAW else KAPPA)


def eof_content(seq, tok):
    return "".join(tok() if s == "T" else KAPPA_TEXT.get(s, s) for s in seq)


def valid_eof(case):
    """The construct is still open at the end of input, for the HTML standard and for html.parser alike."""
    op, seq = case["open"], case["seq"]
    if op not in EOF_OPEN or case["tail"] not in EOF_TAILS or case["lay"] not in EOF_LAYS:
        return False
    if any(s not in eof_alphabet(op) for s in seq):
        return False
    c = eof_content(seq, lambda: "Xbbbbb")
    if op == "cm":      # no abrupt closing, no `--` blanks `>` / `--!>` anywhere up to the end of input
        rest = c + ("\n</p></div></td></tr></table></body></html>\n" if case["tail"] == "shell" else "")
        return not (c.startswith(">") or c.startswith("->")) and _CEND.search(rest) is None
    if op == "decl":    # `<!--` is the comment opener, `<![` the marked-section opener: own cases
        return not (c.startswith("--") or c.startswith("["))
    if op == "msect":   # `<![CDATA[` has its own case
        return not c.upper().startswith("CDATA[")
    return True


def render_eof(case, tk: Tokens, xhtml=False, frag=False):
    """Family "eof": returns (complete document, visible tokens in order, hidden tokens). The document ends inside the
    construct case["open"]; with tail "shell" the closing tags of the page follow (inside the construct)."""
    v0, v1 = tk.new("B"), tk.new("B")
    xc = tk.new("X")
    hidden = [xc]

    def tok():
        t = tk.new("X"); hidden.append(t)
        return t
    c = eof_content(case["seq"], tok)
    k1 = f"<!--{xc}-->"
    lay = case["lay"]
    visible = [v0, v1]
    if lay == "blk":
        body = f"<p>{v0}</p>{k1}<p>{v1}</p>"
    elif lay == "inl":
        v2 = tk.new("B"); visible.append(v2)
        body = f"<p>{v0}</p><p>{v1} {k1} {v2} "
    elif lay == "nest":
        body = f"<div>{v0} {k1}<span>{v1}</span>"
    elif lay == "td":
        v2 = tk.new("B"); visible.append(v2)
        body = f"<p>{v0}</p><table><tr><td>{v1} {k1}</td><td>{v2} "
    else:
        raise ValueError(lay)
    mark = "\x00"
    if frag:
        pre, post = '<div class="m" dir="ltr">', "</div>"
        body = re.sub(r"<([A-Za-z][A-Za-z0-9]*)>", r'<\1 data-v="1">', body)
    else:
        pre, post = (htmlfam.xhtml_page(mark, "t") if xhtml else htmlfam.html_page(mark)).split(mark)
    doc = pre + body + EOF_OPEN[case["open"]] + c
    if case["tail"] == "shell":
        doc += "\n" + EOF_CLOSERS[lay] + post + "\n"
    return doc, visible, hidden


def render_wrap(case, tk: Tokens):
    """Family "wrap": multi-line page with one removed construct whose content is a sequence of line fragments."""
    v = [tk.new("B") for _ in range(4)]
    hidden = []
    parts = []
    for s in case["seq"]:
        if s == "T":
            t = tk.new("X"); hidden.append(t)
            parts.append(t)
        elif s == "L":
            t = tk.new("X"); hidden.append(t)
            parts.append("a" * 72 + t + "e" * 8)      # > 76 columns: the quoted-printable soft break lands inside t
        else:
            parts.append(LAMBDA_TEXT.get(s, s))
    c = "".join(parts)
    r = case["r"]
    k = f"<!--{c}-->" if r == "cm" else f"<{r}>{c}</{r}>"
    page = ('<!DOCTYPE html>\n<html>\n<head>\n<meta charset="utf-8">\n</head>\n<body>\n'
            f"<p>{v[0]}</p>\n<p>{v[1]}</p>\n{k}\n<p>{v[2]}</p>\n<p>{v[3]}</p>\n</body>\n</html>\n")
    return page, v, hidden


def render_shell(case, tk: Tokens):
    """Family "shell": the multi-line page of family "wrap"; the removed construct holds document-shell tags."""
    v = [tk.new("B") for _ in range(4)]
    hidden = []
    parts = []
    for s in case["seq"]:
        if s == "T":
            t = tk.new("X"); hidden.append(t)
            parts.append(t)
        else:
            parts.append(s)
    c = "".join(parts)
    r = case["r"]
    k = f"<!--{c}-->" if r == "cm" else f"<{r}>{c}</{r}>"
    ns = ' xmlns="http://www.w3.org/1999/xhtml"' if "xhtml" in case.get("root", "") else ""
    page = (f'<!DOCTYPE html>\n<html{ns}>\n<head>\n<meta charset="utf-8">\n</head>\n<body>\n'
            f"<p>{v[0]}</p>\n<p>{v[1]}</p>\n{k}\n<p>{v[2]}</p>\n<p>{v[3]}</p>\n</body>\n</html>\n")
    return page, v, hidden


def shell_roots():
    """(root media type, transfer encoding) pairs of family "shell"."""
    for root in ROOTS:
        for enc in W.ENCS:
            if root.lower() == "text/html" or enc in ("7bit", "none"):
                yield root, enc


def container_of(case):
    return {d: case[d] for d in ("shape", "enc", "hdr", "eol", "root") if d in case}


def render_case(fmt, case, tk):
    """(document handed to the wrapper, visible, hidden) for any family."""
    fam = case.get("fam")
    if fam == "cm":
        return render_cm(case, tk, xhtml=(fmt == "epub"))
    if fam == "wrap":
        return render_wrap(case, tk)
    if fam == "shell":
        return render_shell(case, tk)
    if fam == "eof":
        return render_eof(case, tk, xhtml=(fmt == "epub"), frag=(fmt == "msgfrag"))
    body, visible, hidden = render_body(case, tk, xhtml=(fmt == "epub"))
    if fmt == "msgfrag":
        # an HTML mail body as Outlook stores it when it is a fragment: no <html>/<body> shell, tags carrying attributes
        # (every bare start tag gets an attribute: mail composers write class / style attributes on everything)
        return '<div class="m" dir="ltr">%s</div>' % re.sub(r"<([A-Za-z][A-Za-z0-9]*)>", r'<\1 data-v="1">', body), visible, hidden
    return (htmlfam.xhtml_page(body, "t") if fmt == "epub" else htmlfam.html_page(body)), visible, hidden


def evaluate(fmt, case, seed=0):
    if fmt == "epubseq":
        return evaluate_epubseq(case, seed)
    tk = Tokens(seed)
    body, visible, hidden = render_case(fmt, case, tk)
    try:
        text = extract_page(fmt, body, container_of(case) if fmt == "mhtml-tree" else None)
    except Exception as e:  # noqa
        return [("raises", f"{type(e).__name__}: {e}")], None
    found = find_tokens(text)
    fails = []
    leaked = [t for t in found if t in hidden]
    if (fmt == "msgbody" and "<body>" in text) or (fmt == "msgfrag" and '<div class="m"' in text):
        # the converter gave up and handed the markup back: every removed construct (comments included) is in the text.
        # One clause for this, whatever happens to be inside the constructs.
        fails.append(("unparsed", f"the HTML body comes back as raw markup, removed constructs included: text {text!r}"))
        return fails, ("unparsed",)
    if leaked:
        fails.append(("leak", f"removed content {leaked} appears in text {text!r} for body {body!r}"))
    elif case.get("fam") == "eof" and _EOF_MARKUP.search(text):
        fails.append(("leak", f"markup of the unterminated construct {_EOF_MARKUP.search(text).group(0)!r} appears as text: "
                              f"text {text!r} for body {body!r}"))
    vis_found = [t for t in found if t in visible]
    miss = [t for t in visible if t not in vis_found]
    if miss:
        which = ",".join("v%d" % visible.index(t) for t in miss)
        fails.append(("lost", f"visible text {which} missing: text {text!r} for body {body!r}"))
    elif len(vis_found) != len(visible):
        fails.append(("dup", f"visible text duplicated: text {text!r} for body {body!r}"))
    elif vis_found != visible:
        fails.append(("order", f"visible text out of order: text {text!r} for body {body!r}"))
    outcome = (tuple(visible.index(t) for t in vis_found), len(leaked))
    if case.get("fam") == "eof":
        outcome += (bool(_EOF_MARKUP.search(text)),)
    return fails, outcome


def reexec(fmt, case):
    return evaluate(fmt, case, int(os.environ.get("VERIF_SEED", "0")))[0]


def _sub(small, big):
    it = iter(big)
    return all(any(s == b for b in it) for s in small)


def shrinks(case):
    fam = case.get("fam")
    if fam == "cm":
        for i in (0, 1):
            sl = case["k"][i]
            for j in range(len(sl["seq"])):
                c = dict(case)
                c["k"] = list(case["k"])
                c["k"][i] = {"kind": sl["kind"], "seq": sl["seq"][:j] + sl["seq"][j + 1:]}
                if valid_slot(c["k"][i]):
                    yield c
            if sl["kind"] != "cm" or sl["seq"]:
                c = dict(case)
                c["k"] = list(case["k"])
                c["k"][i] = {"kind": "cm", "seq": []}
                yield c
            if sl["kind"] != "cm" and valid_slot({"kind": "cm", "seq": sl["seq"]}):
                c = dict(case)
                c["k"] = list(case["k"])
                c["k"][i] = {"kind": "cm", "seq": sl["seq"]}
                yield c
        for key, dflt in (("frame", "page"), ("lay", "blk")):
            if case.get(key, dflt) != dflt:
                c = dict(case)
                c[key] = dflt
                yield c
        return
    if fam == "eof":
        seq = case["seq"]
        for i in range(len(seq)):
            c = dict(case, seq=seq[:i] + seq[i + 1:])
            if valid_eof(c):
                yield c
        for key, dflt in (("tail", "cut"), ("lay", "blk"), ("open", "cm")):
            if case[key] != dflt:
                c = dict(case)
                c[key] = dflt
                if valid_eof(c):
                    yield c
        return
    if fam == "wrap":
        seq = case["seq"]
        for i in range(len(seq)):
            c = dict(case)
            c["seq"] = seq[:i] + seq[i + 1:]
            yield c
        for key, dflt in list(W.DEFAULT.items()) + [("r", "cm")]:
            if case[key] != dflt:
                c = dict(case)
                c[key] = dflt
                yield c
        return
    if fam == "shell":
        seq = case["seq"]
        for i in range(len(seq)):
            c = dict(case)
            c["seq"] = seq[:i] + seq[i + 1:]
            yield c
        for key, dflt in [("root", ROOTS[0])] + list(W.DEFAULT.items()) + [("r", "cm")]:
            if key in case and case[key] != dflt:
                c = dict(case)
                c[key] = dflt
                if (c.get("root", ROOTS[0]), c.get("enc", "7bit")) in set(shell_roots()):
                    yield c
        return
    if case.get("cform", "plain") != "plain":
        c = dict(case)
        c.pop("cform")
        yield c
    seq = case["seq"]
    for i in range(len(seq)):
        c = dict(case)
        c["seq"] = seq[:i] + seq[i + 1:]
        if c.get("spell", "pair") not in ("pair", "unterminated") or valid(c["r"], c["seq"]):
            yield c
    if case["ctx"] != "body":
        c = dict(case)
        c["ctx"] = "body"
        yield c


def embeds(small, big):
    if small.get("fam") != big.get("fam"):
        return False
    if small.get("fam") == "cm":
        if small.get("frame", "page") not in ("page", big.get("frame", "page")) or small["lay"] not in ("blk", big["lay"]):
            return False
        return all(a["kind"] == b["kind"] and _sub(a["seq"], b["seq"]) for a, b in zip(small["k"], big["k"]))
    if small.get("fam") == "eof":
        if small["open"] != big["open"] or small["tail"] not in ("cut", big["tail"]) or small["lay"] not in ("blk", big["lay"]):
            return False
        return _sub(small["seq"], big["seq"])
    if small.get("fam") == "shell":
        dflt = dict(W.DEFAULT, root=ROOTS[0])
        if set(small) != set(big) or (small["r"] != big["r"] and small["seq"]):
            return False
        if any(small[d] not in (dflt[d], big[d]) for d in dflt if d in small):
            return False
        return _sub(small["seq"], big["seq"])
    if small.get("fam") == "wrap":
        if (small["r"] != big["r"] and small["seq"]) or any(small[d] not in (W.DEFAULT[d], big[d]) for d in W.DEFAULT):
            return False      # an empty construct stands for every construct
        return _sub(small["seq"], big["seq"])
    if small["r"] != big["r"] or small.get("spell", "pair") != big.get("spell", "pair"):
        return False
    if small.get("cform", "plain") not in ("plain", big.get("cform", "plain")):
        return False
    if small["ctx"] != "body" and small["ctx"] != big["ctx"]:
        return False
    it = iter(big["seq"])
    return all(any(s == b for b in it) for s in small["seq"])


def _seqs(alpha, lo, hi):
    for n in range(lo, hi + 1):
        for seq in itertools.product(alpha, repeat=n):
            yield list(seq)


def cm_slots(fmt, n):
    """All valid slots with content length <= n (comments), <= min(n, 1) (declarations, raw text)."""
    if fmt == "epub":     # well-formed XHTML only: comments without "--", no SGML declarations, no markup in raw text
        return [{"kind": "cm", "seq": q} for q in _seqs(KAPPA_XML, 0, n) if valid_slot({"kind": "cm", "seq": q})]
    out = [{"kind": "cm", "seq": q} for q in _seqs(KAPPA, 0, n) if valid_slot({"kind": "cm", "seq": q})]
    out += [{"kind": "decl", "seq": [d]} for d in DECLS]
    for r in ("script", "style"):
        out += [{"kind": r, "seq": q} for q in _seqs(KAPPA_RAW, 0, min(n, 1))]
    return out


def cases_cm(tier, fmt):
    """Family "cm" for one format."""
    quick = tier == "quick"
    total = 3 if quick else 4          # comment-comment pairs: total content length
    each = 2 if quick else 3           # ... and length of each
    ftotal = 2 if quick else 3         # office frame
    small = cm_slots(fmt, 1)
    for a in small:
        for b in small:
            for lay in CM_LAYS:
                yield {"fam": "cm", "lay": lay, "frame": "page", "k": [a, b]}
    big = [x for x in cm_slots(fmt, each) if x["kind"] == "cm"]
    for a in big:
        for b in big:
            la, lb = len(a["seq"]), len(b["seq"])
            if la + lb <= total and max(la, lb) >= 2:
                yield {"fam": "cm", "lay": "blk", "frame": "page", "k": [a, b]}
    if fmt != "epub":
        allk = cm_slots(fmt, each)
        for a in allk:
            for b in allk:
                if len(a["seq"]) + len(b["seq"]) <= ftotal:
                    yield {"fam": "cm", "lay": "blk", "frame": "office", "k": [a, b]}


def cases_wrap(tier):
    """Family "wrap" (format mhtml-tree)."""
    quick = tier == "quick"
    for cont in W.containers():
        plain = cont["eol"] == W.DEFAULT["eol"] and cont["hdr"] == W.DEFAULT["hdr"]
        hi = 3 if not quick else (2 if plain else 1)
        for r in WRAP_R:
            for seq in _seqs(LAMBDA, 0, hi):
                yield dict(cont, fam="wrap", r=r, seq=seq)


def cases_shell(tier, fmt):
    """Family "shell" for one format (html, msgbody, mhtml-tree)."""
    quick = tier == "quick"
    if fmt != "mhtml-tree":
        hi = (3 if quick else 4) if fmt == "html" else (2 if quick else 3)
        for r in SHELL_R:
            for seq in _seqs(OMEGA, 0, hi):
                yield {"fam": "shell", "r": r, "seq": seq}
        return
    for cont in W.containers():
        if cont["enc"] != W.ENCS[0]:
            continue          # the encoding dimension comes from shell_roots()
        plain = cont["eol"] == W.DEFAULT["eol"] and cont["hdr"] == W.DEFAULT["hdr"]
        for root, enc in shell_roots():
            hi = (1 if quick else 2) + (1 if plain and (root, enc) in SHELL_DEEP else 0)
            for r in SHELL_R:
                for seq in _seqs(OMEGA, 0, hi):
                    yield dict(cont, enc=enc, root=root, fam="shell", r=r, seq=seq)


def cases_eof(tier, fmt):
    """Family "eof" for one format."""
    quick = tier == "quick"
    lo = 1 if quick else 2                                   # all layouts
    hi = 2 if quick else (3 if fmt == "html" else 2)         # layout blk
    for op in EOF_OPEN:
        for seq in _seqs(eof_alphabet(op), 0, max(lo, hi)):
            for lay in EOF_LAYS:
                if (lay == "td" and fmt == "epub") or (len(seq) > lo and lay != "blk"):
                    continue
                for tail in EOF_TAILS:
                    case = {"fam": "eof", "open": op, "seq": seq, "tail": tail, "lay": lay}
                    if valid_eof(case):
                        yield case


def cases_cform(tier, fmt, ctxs):
    """Family "seq" with non-plain comment spellings."""
    quick = tier == "quick"
    lc = 2 if quick else 3
    for r in REMOVABLE:
        for cform in CFORMS[1:]:
            if r == "embed":
                for sp in ("open", "self", "pair"):
                    yield {"r": r, "ctx": "body", "seq": [], "spell": sp, "cform": cform}
                continue
            for seq in _seqs(SIGMA, 0, lc):
                if (len(seq) <= 1 or "C" in seq) and valid(r, seq):
                    for ctx in (ctxs if len(seq) <= 1 else ["body"]):
                        yield {"r": r, "ctx": ctx, "seq": seq, "cform": cform}


def cases_for(tier, fmt):
    """Yield cases for one format."""
    quick = tier == "quick"
    if fmt == "mhtml-tree":
        yield from cases_wrap(tier)
        yield from cases_shell(tier, fmt)
        return
    if fmt == "epubseq":
        for r in REMOVABLE:
            if r == "embed":
                continue
            sig = [x for x in SIGMA if x not in ("<r>", "</r>")]
            for n in range(0, (2 if quick else 3) + 1):
                for seq in itertools.product(sig, repeat=n):
                    if valid(r, seq):
                        yield {"r": r, "ctx": "body", "seq": list(seq), "spell": "unterminated"}
        return
    if fmt == "html":
        L = {r: (3 if quick else (5 if r in ("script", "noscript") else 4)) for r in REMOVABLE}
        ctxs = CONTEXTS
    elif fmt == "epub":
        L = {r: (3 if quick else 4) for r in REMOVABLE}
        ctxs = CONTEXTS
    elif fmt in ("msgbody", "msgfrag"):
        L = {r: ((2 if quick else 3) if fmt == "msgbody" else (1 if quick else 2)) for r in REMOVABLE}
        ctxs = ["body", "td"]
    else:
        L = {r: (2 if quick else 3) for r in REMOVABLE}
        ctxs = ["body"]
    for r in REMOVABLE:
        if r == "embed":
            for ctx in ctxs:
                for sp in ("open", "self", "pair"):
                    yield {"r": r, "ctx": ctx, "seq": [], "spell": sp}
            continue
        if fmt == "epub":
            for ctx in ctxs:
                yield {"r": r, "ctx": ctx, "seq": [], "spell": "self"}
        sig = SIGMA
        for n in range(0, L[r] + 1):
            for seq in itertools.product(sig, repeat=n):
                if not valid(r, seq):
                    continue
                # deeper contexts only up to length 3 (context does not interact with longer content: argument in DESIGN)
                for ctx in (ctxs if n <= 3 else ["body"]):
                    yield {"r": r, "ctx": ctx, "seq": list(seq)}
        # extra void tags (statement lists input/param/source): all sequences of length <= 2 with one extra symbol
        for v in SIGMA_EXTRA_VOID:
            for other in [None] + SIGMA:
                for seq in ([v], [v, other], [other, v]) if other else ([v],):
                    if other is None or valid(r, seq):
                        yield {"r": r, "ctx": "body", "seq": [s for s in seq if s]}
    yield from cases_cform(tier, fmt, ctxs)
    if quick and fmt in ("mhtml-7bit", "mhtml-b64"):
        return      # quick: comment forms go through one MHTML encoding (all three in thorough)
    if not (quick and fmt == "msgfrag"):
        yield from cases_eof(tier, fmt)
    yield from cases_cm(tier, fmt)
    if fmt in ("html", "msgbody"):
        yield from cases_shell(tier, fmt)


def _part(arg):
    tier, fmt, k, n, seed = arg
    ev = 0
    trans = 0
    fails = []
    outcomes = {}
    samples = []
    fams = {}
    for i, case in enumerate(cases_for(tier, fmt)):
        if i % n != k:
            continue
        f, oc = evaluate(fmt, case, seed)
        ev += 1
        fam = case.get("fam", "seq") if fmt != "epubseq" else "epubseq"
        fams[fam] = fams.get(fam, 0) + 1
        trans += (sum(len(k["seq"]) + 2 for k in case["k"]) if fam == "cm" else len(case["seq"]) + 2)
        outcomes[str(oc)] = outcomes.get(str(oc), 0) + 1
        for clause, msg in f:
            fails.append((clause, fmt, case, msg))
        if ev in (3, 700) and len(samples) < 2:
            samples.append({"fmt": fmt, "case": case, "body": render_case(fmt, case, Tokens(seed))[0] if fmt != "epubseq" else "3 chapters", "outcome": str(oc)})
    return {"ev": ev, "trans": trans, "fails": fails, "outcomes": outcomes, "samples": samples, "fams": fams}


def run(ctx):
    fmts = FORMATS_ALL
    args = []
    for fmt in fmts:
        n = 32 if fmt in ("html", "epub") else (16 if fmt in ("mhtml-tree", "msgbody", "mhtml-qp") else 8)  # msgfrag: 8
        if not ctx.quick and fmt == "html":
            n = 128
        args += [(ctx.tier, fmt, k, n, ctx.seed) for k in range(n)]
    random.Random(ctx.seed).shuffle(args)
    res = P.run_all("verif.props.C17", "_part", args, n=ctx.ncpu, hard_timeout=3000)
    ev = trans = 0
    fails = []
    outcomes = {}
    samples = []
    per_fmt = {}
    per_fam = {}
    herr = []
    # writer check: every container layout is read back by the stdlib e-mail parser (independent of the library)
    tk = Tokens(ctx.seed)
    for r in WRAP_R:
        probe = render_wrap({"r": r, "seq": ["\n", "--", "\n", "--b", "\n", "H", "\n", "\n", "E", "\n", "L", "\n"]}, tk)[0]
        for cont in W.containers():
            probs = W.validate(W.mhtml_tree(probe, **cont), probe)
            if probs:
                herr.append(f"c17_wrap writer: container {cont} with <{r}>: {probs}")
    probe = render_shell({"r": "cm", "seq": ["\n", "<html>", "\n", "</body>", "\n", "</html>", "\n"], "root": ROOTS[-1]}, tk)[0]
    for cont in W.containers():
        for root in ROOTS:
            probs = W.validate(W.mhtml_tree(probe, root=root, **cont), probe, root)
            if probs:
                herr.append(f"c17_wrap writer: container {cont} with root type {root}: {probs}")
    for (st, r, _), a in zip(res, args):
        if st != "done":
            herr.append(f"partition {a} failed: {st}: {str(r)[-600:]}")
            continue
        ev += r["ev"]
        trans += r["trans"]
        per_fmt[a[1]] = per_fmt.get(a[1], 0) + r["ev"]
        for k_, v in r["fams"].items():
            per_fam[k_] = per_fam.get(k_, 0) + v
        fails += [tuple(x) for x in r["fails"]]
        for k_, v in r["outcomes"].items():
            outcomes[k_] = outcomes.get(k_, 0) + v
        samples += r["samples"]
    samples = sorted(samples, key=lambda s: (s["fmt"], str(s["case"])))[:6]
    cov = {"states": ev, "transitions": trans, "traces_validated_against_impl": ev, "samples": samples,
           "evaluations": ev, "distinct_nontrivial": len(outcomes),
           "rule": "seq: every delimited event sequence of length <= L over the 19-symbol content alphabet (plus 5 extra void tags at "
                   "length <= 2), for each of 7 removable elements x contexts, and 4 further comment spellings for the sequences "
                   "of length <= 1 and those with a comment symbol up to Lc; cm: every pair of removable constructs (comment / "
                   "markup declaration / raw-text element) with contents over the 12-symbol comment alphabet around visible "
                   "text, x layouts x frames; wrap: every MIME tree (6 shapes x 4 encodings x 2 header orders x 2 line "
                   "terminators) x 5 removed constructs x line sequences over the 7-symbol line alphabet; shell: 7 removed constructs "
                   "holding every sequence over the 7-symbol document-shell alphabet (token, newline, <html>, </html>, <body>, "
                   "</body>, </head>), as html, msgbody and in every MIME tree x 3 media types of the root part; eof: every document that ends inside "
                   "an unterminated removable construct (11 openers x contents over the construct's alphabet x 2 tails x 4 "
                   "layouts); all rendered to real "
                   "markup and parsed by the real extractors; states = (format, case) executed, transitions = parser events "
                   "fed; distinct_nontrivial = distinct (visible-token order, leak count) outcomes",
           "per_format": per_fmt, "per_family": per_fam, "outcomes": outcomes, "exhaustive": True,
           "bounds": {"tier": ctx.tier, "L_html": "3 (quick) / 5 script,noscript; 4 others (thorough)", "L_wrappers": "2 (quick) / 3",
                      "Lc_comment_spellings": "2 (quick) / 3", "comment_spellings": CFORMS,
                      "cm_alphabet": KAPPA, "cm_raw_alphabet": KAPPA_RAW, "cm_declarations": DECLS, "cm_layouts": CM_LAYS,
                      "cm_frames": CM_FRAMES,
                      "cm_bounds": "all pairs of slots with content length <= 1 x 3 layouts; comment-comment pairs with each <= 2 (3) "
                                   "and total <= 3 (4), layout blk; office frame for total <= 2 (3); quick: html, msgbody, epub "
                                   "(XML-safe subset), mhtml-qp; thorough: also mhtml-7bit, mhtml-b64",
                      "eof_openers": EOF_OPEN, "eof_alphabets": {"comment/element": KAPPA, "raw_text": KAPPA_RAW, "declaration": KAPPA_DECL},
                      "eof_tails": EOF_TAILS, "eof_layouts": EOF_LAYS,
                      "eof_bounds": "contents of length <= 1 (2) for all layouts x tails, length 2 (3 for html, thorough) for layout "
                                    "blk; quick: html, msgbody, epub (no td layout), mhtml-qp; thorough: also msgfrag, mhtml-7bit, "
                                    "mhtml-b64",
                      "shell_alphabet": OMEGA, "shell_constructs": SHELL_R, "shell_root_types": ROOTS,
                      "shell_root_encodings": [list(x) for x in shell_roots()],
                      "shell_bounds": "html length <= 3 (4), msgbody <= 2 (3); mhtml-tree: length <= 1 (2) for all 240 containers "
                                      "(6 shapes x 10 (root type, encoding) pairs x 2 header orders x 2 line terminators), one "
                                      "longer for the 18 containers with CRLF, Content-Type first and (root, encoding) in "
                                      + str(SHELL_DEEP),
                      "wrap_alphabet": LAMBDA, "wrap_constructs": WRAP_R,
                      "wrap_containers": {"shapes": W.SHAPES, "enc": W.ENCS, "hdr": W.HDRS, "eol": ["CRLF", "LF"]},
                      "wrap_bounds": "sequences of length <= 1 for all 96 containers, length 2 for the 24 with CRLF and "
                                     "Content-Type first (quick); length <= 3 for all 96 (thorough)"}}
    return {"coverage": cov, "failures": fails, "harness_errors": herr,
            "assumptions": ["reference automaton: content hidden until the matching close of the same element name; raw-text "
                            "elements end at their first end tag; text after a nested same-name close inside the element is "
                            "don't-care (class Z)", "self-closed non-void removable elements only generated for XHTML (EPUB)",
                            "comment contents are restricted to those whose end is the same for the HTML standard and html.parser "
                            "(no leading '>' or '->', no '--' + blanks/'!' + '>'); `<!x>` / `<![if x]>` declarations are (bogus) "
                            "comments; a raw-text element ends at its first end tag even after an unclosed '<!--'",
                            "MHTML containers hold exactly one text/html part (the root); frames saved as further text/html "
                            "parts are not generated",
                            "shell: a root part labelled application/xhtml+xml is only generated with the identity transfer "
                            "encodings (7bit / no header): whether the library decodes base64 / quoted-printable roots of other "
                            "media types is a question of container support, independent of removed markup (with base64 it "
                            "extracts nothing at all), not of this property",
                            "eof: a comment / declaration / processing instruction / raw-text or removable element that is still "
                            "open at the end of input extends to the end of input (HTML standard: eof-in-comment etc.); its content "
                            "and its opening delimiter are not visible text; declaration contents are restricted to those without "
                            "'>' (the first '>' ends a bogus comment)"]}
