"""C04 helper: the CHARACTER-ENCODING family of the results corpus.

The other generated text documents of C04 are UTF-8 and say so.  A text format, however, lets the FILE choose the decoder:
a declared charset label (HTML meta element, MIME part header), a byte-order mark, or - for plain text - whatever a
detector concludes from the bytes.  Some decoders hand out code points that a well-formed str cannot hold (lone
surrogates).  This family enumerates, for the formats whose text is decoded from raw bytes by the extractor itself
(html, mhtml; eml, mbox; txt, md, csv, json), the document [title / subject, one paragraph] described by

    cs = {"label": L, "form": F}

L (charset; LABELS: the label as it is declared -> the codec the document's bytes are really written in)
    the standard ones in several spellings (utf-8, UTF-8, utf8, utf-8-sig, utf-16 with BOM, utf-16le / be without, utf-32,
    iso-8859-1, windows-1252, us-ascii over 8-bit bytes, shift_jis, gb18030, big5, euc-kr, koi8-r, cp437), 7-bit transfer forms
    and Python-specific codec names a label can hit (utf-7, unicode_escape, raw_unicode_escape, punycode, idna), names that are
    no text codec (hex, rot13, undefined), an unknown label, the empty label.
F (how the label reaches the reader)
    html:  "meta" (<meta charset=L>), "httpequiv" (<meta http-equiv=Content-Type content="text/html; charset=L">),
           "bom" (no declaration; the byte-order mark of L - only for the labels that have one)
    mhtml: "meta" (charset parameter of the text/html part AND the meta element; body base64), "part" (part parameter only)
    eml, mbox: "plain" (one text/plain part, charset parameter L, base64; the subject is an RFC 2047 encoded-word in L),
           "alt" (multipart/alternative: text/plain and text/html part, both labelled L)
    txt, md, csv, json (one extractor; quick: txt only): "sig" - no label exists in the format: L names the signature the
           file starts with (none, the BOMs, the UTF-7 signature "+/v8-") and the codec of the bytes
The title and the paragraph carry, between two tokens, the characters e-acute and euro (when the codec can write them) and the
PROBES: every spelling by which a lone surrogate (or another code point outside the Unicode scalar values) can be written
in some encoding - UTF-7 "+2AA-" / "+3gA-", escape notations "\\ud800" "\\ude00" "\\U0000d800", numeric character references
&#xD800; &#55296; &#xDE00; &#x110000;, and as raw bytes CESU-style ED A0 80 / ED B8 80, UTF-16 code units 00 D8 / D8 00 /
00 DE / DE 00, FF, the overlong C0 80 and the too-large F4 90 80 80 (wide codecs: aligned code units only).
Nothing here shares code with the library.
"""
from __future__ import annotations

import base64

# name -> (declared label, python codec the bytes are written in)
LABELS = {
    "utf8": ("utf-8", "utf-8"), "utf8up": ("UTF-8", "utf-8"), "utf8alias": ("utf8", "utf-8"), "utf8sig": ("utf-8-sig", "utf-8"),
    "u16": ("utf-16", "utf-16"), "u16le": ("utf-16le", "utf-16-le"), "u16be": ("utf-16be", "utf-16-be"), "u32": ("utf-32", "utf-32"),
    "latin1": ("iso-8859-1", "latin-1"), "cp1252": ("windows-1252", "cp1252"), "ascii8": ("us-ascii", "cp1252"),
    "sjis": ("shift_jis", "shift_jis"), "gb18030": ("gb18030", "gb18030"), "big5": ("big5", "big5"), "euckr": ("euc-kr", "euc-kr"),
    "koi8r": ("koi8-r", "koi8-r"), "cp437": ("cp437", "cp437"),
    "utf7": ("utf-7", "utf-7"), "uniesc": ("unicode_escape", "ascii"), "rawuniesc": ("raw_unicode_escape", "ascii"),
    "puny": ("punycode", "ascii"), "idna": ("idna", "ascii"),
    "hex": ("hex", "ascii"), "rot13": ("rot13", "ascii"), "undefined": ("undefined", "ascii"),
    "unknown": ("x-verif-none", "utf-8"), "empty": ("", "utf-8"),
}
BOMS = {"utf8": b"\xef\xbb\xbf", "u16le": b"\xff\xfe", "u16be": b"\xfe\xff", "u32": b"\xff\xfe\x00\x00"}     # u32: little endian
SIGS = {"none": (b"", "utf-8"), "bom8": (b"\xef\xbb\xbf", "utf-8"), "bom16le": (b"\xff\xfe", "utf-16-le"), "bom16be": (b"\xfe\xff", "utf-16-be"),
        "bom32le": (b"\xff\xfe\x00\x00", "utf-32-le"), "bom32be": (b"\x00\x00\xfe\xff", "utf-32-be"), "utf7sig": (b"+/v8-", "utf-7"),
        "latin1": (b"", "latin-1")}
ASCII_PROBES = ["+2AA-", "+3gA-", "\\ud800", "\\ude00", "\\U0000d800", "&#xD800;", "&#55296;", "&#xDE00;", "&#x110000;"]
RAW_PROBES = [b"\xed\xa0\x80", b"\xed\xb8\x80", b"\x00\xd8", b"\xd8\x00", b"\x00\xde", b"\xde\x00", b"\xff", b"\xc0\x80", b"\xf4\x90\x80\x80"]
RAW_PROBES_16 = [b"\x00\xd8", b"\xd8\x00", b"\x00\xde", b"\xde\x00"]
RAW_PROBES_32 = [b"\x00\xd8\x00\x00", b"\x00\x00\xd8\x00", b"\x00\x00\x11\x00", b"\x00\x11\x00\x00"]

HTML_FORMS = ("meta", "httpequiv", "bom")
MHTML_FORMS = ("meta", "part")
MAIL_FORMS = ("plain", "alt")          # one text/plain part / multipart/alternative with a text/plain and a text/html part
MAIL_FORMATS = ("eml", "mbox")
PLAIN_FORMATS = ("txt", "md", "csv", "json")
CS_FORMATS = ("html", "mhtml") + MAIL_FORMATS + PLAIN_FORMATS
CS_BODY = ["text"]


def default(fmt):
    """the ordinary document of the family: UTF-8, declared by a meta element (plain text: UTF-8 without signature)"""
    return {"label": "none", "form": "sig"} if fmt in PLAIN_FORMATS else {"label": "utf8", "form": "meta"}


def valid(fmt, cs):
    if not isinstance(cs, dict) or set(cs) != {"label", "form"}:
        return False
    lab, form = cs["label"], cs["form"]
    if fmt == "html":
        return lab in LABELS and form in HTML_FORMS and (form != "bom" or lab in BOMS)
    if fmt == "mhtml":
        return lab in LABELS and form in MHTML_FORMS
    if fmt in MAIL_FORMATS:
        return lab in LABELS and form in MAIL_FORMS
    if fmt in PLAIN_FORMATS:
        return form == "sig" and lab in SIGS
    return False


def _enc(text: str, codec: str) -> bytes:
    if codec == "utf-16":
        return text.encode("utf-16-le")        # the BOM is written once, in front of the document
    if codec == "utf-32":
        return text.encode("utf-32-le")
    if codec == "utf-7" and text.isascii():
        return text.encode("ascii")            # markup and probes stay as they are ("+" is not re-written as "+-")
    return text.encode(codec)


def _text_bytes(a: str, b: str, codec: str, raw: bool = True) -> bytes:
    """token a, the non-ASCII characters, every probe, token b - in codec"""
    out = _enc(a + " ", codec)
    for ch in ("é", "€"):
        try:
            out += _enc(ch, codec)
        except UnicodeEncodeError:
            pass
    out += _enc(" ", codec)
    for p in ASCII_PROBES:
        out += _enc(p + " ", codec)
    if raw:
        wide = 2 if codec.startswith("utf-16") else 4 if codec.startswith("utf-32") else 1
        for p in (RAW_PROBES_16 if wide == 2 else RAW_PROBES_32 if wide == 4 else RAW_PROBES):
            out += p + _enc(" ", codec)
    return out + _enc(b, codec)


def _html(label: str, codec: str, form: str, tk, bom: bytes = b"") -> bytes:
    e = lambda s: _enc(s, codec)     # noqa: E731
    if form == "meta":
        decl = '<meta charset="%s">' % label
    elif form == "httpequiv":
        decl = '<meta http-equiv="Content-Type" content="text/html; charset=%s">' % label
    else:
        decl = ""
    start = {"utf-16": b"\xff\xfe", "utf-32": b"\xff\xfe\x00\x00"}.get(codec, b"") if not bom else bom
    return (start + e('<!DOCTYPE html><html lang="en"><head>%s<title>' % decl) + _text_bytes(tk.new("Z"), tk.new("Z"), codec, raw=False) +
            e("</title></head><body><p>") + _text_bytes(tk.new("B"), tk.new("B"), codec) + e("</p></body></html>"))


def build(fmt, cs, tk):
    lab, form = cs["label"], cs["form"]
    if fmt == "html":
        label, codec = LABELS[lab]
        if form == "bom":
            codec = {"u32": "utf-32-le"}.get(lab, codec)
            data = _html(label, codec, form, tk, BOMS[lab])
        else:
            data = _html(label, codec, form, tk)
    elif fmt == "mhtml":
        label, codec = LABELS[lab]
        page = _html(label, codec, "meta" if form == "meta" else "none", tk)
        bnd = "----=_NextPart_000_0000_VERIF"
        head = ["From: <Saved by verif>", "Subject: page", "MIME-Version: 1.0",
                'Content-Type: multipart/related; type="text/html"; boundary="%s"' % bnd, "", "This is a multi-part message in MIME format.", "",
                "--" + bnd, 'Content-Type: text/html; charset="%s"' % label, "Content-Transfer-Encoding: base64",
                "Content-Location: http://h/p.html", "", base64.encodebytes(page).decode("ascii").replace("\n", "\r\n"), "--%s--" % bnd, ""]
        data = "\r\n".join(head).encode("ascii")
    elif fmt in MAIL_FORMATS:
        # the charset parameter of the body part(s) and of the subject's encoded-word (RFC 2047) carry the label; bodies base64
        label, codec = LABELS[lab]
        b64 = lambda raw: base64.encodebytes(raw).decode("ascii").replace("\n", "\r\n")     # noqa: E731
        subj = "=?%s?B?%s?=" % (label or "us-ascii", base64.b64encode(_text_bytes(tk.new("Z"), tk.new("Z"), codec, raw=False)).decode("ascii"))
        if codec.startswith(("utf-16", "utf-32")) or len(subj) > 900:
            subj = tk.new("Z")                 # wide code units are no encoded-word payload
        plain = _text_bytes(tk.new("B"), tk.new("B"), codec) + _enc("\n", codec)
        head = ["From: A <a@example.org>", "To: B <b@example.org>", "Subject: " + subj, "Date: Mon, 01 Jan 2024 10:00:00 +0000",
                "Message-ID: <verif-c04@example.org>", "MIME-Version: 1.0"]
        if form == "plain":
            lines = head + ['Content-Type: text/plain; charset="%s"' % label, "Content-Transfer-Encoding: base64", "", b64(plain)]
        else:
            bnd = "=_verif_c04_alt"
            page = _html(label, codec, "none", tk)
            lines = head + ['Content-Type: multipart/alternative; boundary="%s"' % bnd, "", "--" + bnd,
                            'Content-Type: text/plain; charset="%s"' % label, "Content-Transfer-Encoding: base64", "", b64(plain), "--" + bnd,
                            'Content-Type: text/html; charset="%s"' % label, "Content-Transfer-Encoding: base64", "", b64(page), "--%s--" % bnd, ""]
        data = "\r\n".join(lines).encode("ascii")
        if fmt == "mbox":
            data = b"From a@example.org Mon Jan  1 10:00:00 2024\n" + data.replace(b"\r\n", b"\n") + b"\n"
    else:
        sig, codec = SIGS[lab]
        data = sig + _text_bytes(tk.new("B"), tk.new("B"), codec) + _enc("\n", codec)
    return {"data": data, "props": {}, "members": [], "used": ["text"]}


def cases(tier, fmt):
    out = []
    if fmt == "html":
        for form in HTML_FORMS:
            for lab in LABELS:
                if form != "bom" or lab in BOMS:
                    out.append({"label": lab, "form": form})
    elif fmt == "mhtml":
        for form in MHTML_FORMS:
            for lab in LABELS:
                out.append({"label": lab, "form": form})
    elif fmt in MAIL_FORMATS:
        for form in (MAIL_FORMS if (fmt == "eml" or tier != "quick") else MAIL_FORMS[:1]):
            for lab in LABELS:
                out.append({"label": lab, "form": form})
    elif fmt == "txt" or (fmt in PLAIN_FORMATS and tier != "quick"):
        for lab in SIGS:
            out.append({"label": lab, "form": "sig"})
    return out
