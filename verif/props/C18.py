"""C18 - SharePoint listing: complete, exact, fault-contained.

Spaces I x F x H. Libraries = every rooted ordered folder tree with <= K folders x 0..2 files per folder x page sizes;
calls = list_all_files / list_files_in_folder / list_files_filtered over a filter lattice (baseline + all 1- and 2-
dimension deviations) / the *_since helpers; transport = fake request_func serving Graph URLs from the tree.
Fault exploration: run healthy to learn the n requests, then every (k, kind) (thorough: every pair), each followed by a
healthy retry on the same client. Reference = plain walk over the tree with the documented filter semantics.

Instant representations (a date bound / an item timestamp denotes an INSTANT, however it is spelled): every date bound of
every filter dimension and of the *_since helpers is also given as an aware datetime in each zone of ZONES (fixed UTC
offsets, minutes: quick +02:00 -05:00 +05:30; thorough also +00:00-as-non-singleton, +14:00 and -12:00 which move the
calendar date), windows (after, before) over every ordered value pair x every ordered pair of distinct zones, and one
tzinfo subclass that is not datetime.timezone; item timestamps are also served spelled with a numeric offset instead of
'Z' (extras tzspell = spelling scheme: which offset of SPELL_ZONES each item gets), with and without fractional seconds. The reference compares instants.
A date value in a case is either `ms` (offset from T0 in ms, bound given in UTC) or `[ms, zone_minutes]` / `[ms, zone_minutes,
"sub"]` (same instant, bound expressed in that zone / through the tzinfo subclass). Naive bounds are outside the space.

Item shapes (which OPTIONAL members a drive item carries - "optional fields missing" and its mirror image, optional
members present): extras shape = scheme s; child number idx of a folder (timestamp index ti) is served with profile
PROFILES[(idx + ti + s) % len(PROFILES)]: plain | listItem with custom columns (scalars) | listItem with system columns
only | listItem with structured column values (lookup dict, multi-choice list, bool, null) | listItem without fields /
empty fields | listItem null / fields not a dict | lean (no size, no webUrl, empty file facet) | rich (downloadUrl, eTag,
cTag, createdBy, parentReference, fileSystemInfo, file.hashes, size 0). Folders carry the same listItem / rich members.
Over s in range(len(PROFILES)) every file of the library gets every profile. Per (library, scheme): shape_calls = plain
listing, folder listings, every 1-dimension value of extensions / path_patterns (+ PATTERNS_EXTRA) / folder_paths, date
dimensions (quick: one value each, thorough: all), pattern x folder and pattern x extension pairs (thorough), the
*_since helpers. Quick: all schemes on libraries with <= 2 folders, schemes {0, len/2} on 3 folders; thorough: all
schemes on <= 3 folders, schemes {0, len/2} on 4. The listing reference does not depend on the profile.
Result records: for every returned record get_full_path() must equal parent_path/name (clause fullpath) - in every
evaluation of every family.

Malformed bodies (fault kind "malformed JSON" beyond one ASCII spelling): BODY_KINDS = "body:<name>" for every name of
MALFORMED_BODIES - a 200 response whose body is not a JSON text: empty | HTML error page | two JSON texts | NUL bytes | a gzip
stream | a JSON text cut inside a multi-byte character | UTF-16 BOM + odd byte count | the HEALTHY body of that very request,
sent as raw UTF-8, cut at half its length (cuthalf) / inside its first multi-byte character (cutchar). Oracle as for badjson:
an error of the client's family, every response closed, the healthy retry complete. Explored at every request index of every
FAULT_CALL (token, site lookup, first / next children page, folder path lookup): all kinds on libraries with <= 2 (thorough:
3) folders at every page size; above that one kind per (library, call, request index), rotating, at one page size. Healthy
bodies are also served as raw UTF-8 instead of ASCII escapes (extras rawutf8, plain listing, every library x page size).
Well-formed JSON that is not an object is NOT in the alphabet (the statement speaks of malformed JSON).

Folder-item timestamps: extras fdates = scheme s: folder F<j> carries lastModifiedDateTime FOLDER_TIMES[(j + s) % 6] and
createdDateTime FOLDER_TIMES[(j + s + 2) % 6] (far older | 1 s older | equal | 1 s newer | far newer than T0 | absent) and a
size, both as a child item and in the answer of the folder path lookup. Files keep their timestamps, so every combination
"folder older / newer / undated relative to the bound x file before / at / after the bound" occurs. Per (library with >= 1
folder, scheme): fdate_calls = plain listing, folder listing, every date dimension x value, (after, before) windows, date x
folder paths / extensions / patterns, the *_since helpers with and without start folders (quick 31 calls, thorough 107).
Quick: all 6 schemes on <= 2 folders, schemes {0, 3} on 3; thorough: all on <= 3, {0, 3} on 4. The reference ignores folder
timestamps: the listing is defined by the files.

Wire names ("names needing URL quoting", for the names that are ADDRESSED BY PATH on the wire): WIRE_NAMES = literal folder
names whose characters collide with URL syntax - a literal "%XX" sequence (decoding to a space / a letter / "/" / "%" / a
UTF-8 character), "%" bare and trailing, "+", "#", "&", "=", ";", ",", "'", "(", ")", "~", "@", "!", "$", non-ASCII - together
with the name each of them would decode to (so the wrongly addressed folder EXISTS as a sibling with different files). The
transport percent-decodes a request path exactly once, like Graph. Libraries: for every ordered pair (n1, n2) of distinct
names: root = file, n1/ [file "<n2>.txt", n2/ [file]], n2/ [file "<n1>.pdf"]. Per library x page size: wire_calls = listing,
list_files_in_folder n1 | n1/n2, folder_paths [n1] | [n2] | [n1/n2] | [n1, n2], folder x extension, folders x date, the *_since helpers
with start folders; and every request index x WIRE_FAULTS (quick 3 kinds, thorough all FAULT_KINDS) of the folder_paths
[n1/n2] call (the reported URL must be the requested one). Quick: WIRE_NAMES_QUICK, page size 2; thorough: all names, page sizes 1..3.
"""
from __future__ import annotations

import fnmatch
import io
import itertools
import json
import os
import random
import urllib.parse
from datetime import datetime, timedelta, timezone, tzinfo
from urllib.error import HTTPError, URLError

from verif.mc import pool as P

LEVEL = "fault_enumeration"
G = "https://graph.microsoft.com/v1.0"
T0 = datetime(2024, 1, 15, 10, 30, 0, tzinfo=timezone.utc)
TIMES = ["2024-01-15T10:29:59Z", "2024-01-15T10:30:00Z", "2024-01-15T10:30:01Z", "2024-01-15T10:30:00.500Z", None]
FILE_NAMES = ["a.pdf", "B.PDF", "x y.docx", "\u00fc&#.txt", "a.tar.gz", "n.docx"]
FOLDER_NAMES = ["A", "B", "C d", "E%"]
# zones (UTC offset in minutes) in which date bounds and item timestamps are expressed; the instant never changes
ZONES_QUICK = [120, -300, 330]
ZONES_THOROUGH = [120, -300, 330, 0, 840, -720]
# item timestamp spelling schemes: scheme s serves item number idx (timestamp index ti) in zone SPELL_ZONES[(idx + ti + s) % len]
SPELL_ZONES = [120, 0, -300, 330, 840, -720]
# item-shape profiles (optional members of a drive item), see module docstring
PROFILES = ["plain", "li-custom", "li-system", "li-structured", "li-nofields", "li-null", "lean", "rich"]
PATTERNS_EXTRA = [["?.pdf"], ["*.PDF"], ["A/*", "*.txt"], ["[ab].*"]]
FAULT_KINDS = ["http400", "http401", "http404", "http429", "http500", "http503", "urlerror", "badjson", "status302", "status500"]
# malformed response bodies (status 200, body is not a JSON text): what a broken proxy / an interrupted transfer / a wrong
# Content-Encoding delivers. Text garbage first, then bodies that are not even valid UTF-8; "cuthalf" / "cutchar" are the
# HEALTHY body of that request (served as raw UTF-8, like Graph does) cut at half its length / in the middle of its first
# multi-byte character (last byte dropped when it has none). The order is the shrink order (simplest first).
MALFORMED_BODIES = {
    "empty": b"",
    "html": b"<!DOCTYPE html><html><body><h1>502 Bad Gateway</h1></body></html>",
    "trailing": b'{"value": []}{"value": []}',
    "nul": b"\x00\x00\x00\x00",
    "gzip": b"\x1f\x8b\x08\x00\x00\x00\x00\x00\x00\x03\xabV*K\xcc)MU\xb2\x8a\x8e\x05\x00",
    "cutmb": b'{"value": [{"name": "\xc3',
    "utf16odd": b'\xff\xfe{\x00"\x00v',
    "cuthalf": None,
    "cutchar": None,
}
BODY_KINDS = ["body:" + n for n in MALFORMED_BODIES]
# folder-item timestamps (extras fdates = scheme s): folder number j (F<j>) carries lastModifiedDateTime FOLDER_TIMES[(j + s) % len]
# and createdDateTime FOLDER_TIMES[(j + s + 2) % len] (None = member absent): far older / 1 s older / equal / 1 s newer / far newer
# than T0, or missing. A folder's own timestamps say nothing about the files below it.
FOLDER_TIMES = ["2019-06-01T08:00:00Z", "2024-01-15T10:29:59Z", "2024-01-15T10:30:00Z", "2024-01-15T10:30:01Z", "2031-03-01T08:00:00Z", None]
# wire names: literal folder names colliding with URL syntax, each next to the name it would (wrongly) decode to; all are legal
# SharePoint names (" * : < > ? / \\ | are not and stay outside the alphabet)
WIRE_NAMES_QUICK = ["Q1 Plan", "Q1%20Plan", "A", "%41", "a+b", "a b", "x#y", "50%", "c%2Fd", "\u00fc", "%C3%BC", "r&d=1;v,2"]
WIRE_NAMES = WIRE_NAMES_QUICK + ["Q1%2520Plan", "%", "100%25", "50%25", "it's (1)~@!$", "%zz", "%4", "a%2Bb"]
WIRE_FAULTS_QUICK = ["http500", "urlerror", "badjson"]


# ---------------------------------------------------------------- library enumeration

def forests(n):
    """all ordered forests with n nodes: list of trees, tree = list of child trees"""
    if n == 0:
        yield []
        return
    for first in range(1, n + 1):          # size of first tree
        for sub in forests(first - 1):
            for rest in forests(n - first):
                yield [sub] + rest


def libraries(max_folders, max_files=2):
    """Yield library trees: node = ["d", name, [children]] children mix ["f", name, time_idx, variant] and folders."""
    for k in range(0, max_folders + 1):
        for forest in forests(k):
            shape = ["root", forest]
            nfold = k + 1
            for counts in itertools.product(range(max_files + 1), repeat=nfold):
                yield build_lib(forest, counts)


def build_lib(forest, counts):
    ctr = {"folder": 0, "file": 0, "slot": 0}

    def mk(children_shapes, depth):
        slot = ctr["slot"]
        ctr["slot"] += 1
        kids = []
        files = []
        for _ in range(counts[slot]):
            i = ctr["file"]
            ctr["file"] += 1
            variant = "full" if i % 5 != 3 else "nodates"
            files.append(["f", FILE_NAMES[i % len(FILE_NAMES)], i % 4, variant])
        folders = []
        for ch in children_shapes:
            j = ctr["folder"]
            ctr["folder"] += 1
            folders.append(["d", FOLDER_NAMES[j % len(FOLDER_NAMES)] + (str(j // len(FOLDER_NAMES)) if j >= len(FOLDER_NAMES) else ""), None])
            folders[-1][2] = mk(ch, depth + 1)
        # interleave: file, folder, file, folder ...
        a, b = list(files), list(folders)
        while a or b:
            if a:
                kids.append(a.pop(0))
            if b:
                kids.append(b.pop(0))
        return kids
    return mk(forest, 0)


# ---------------------------------------------------------------- fake Graph transport

class Resp:
    def __init__(self, status, body, log):
        self.status = status
        self._b = body
        self.closed = 0
        log.append(self)

    def read(self):
        return self._b

    def close(self):
        self.closed += 1


class Transport:
    def __init__(self, lib, page, faults=None, extras=None):
        self.lib = lib
        self.page = page
        self.faults = dict(faults or {})      # request index -> kind
        self.n = 0
        self.resps = []
        self.urls = []
        self.extras = extras or {}
        self.index = {}                        # folder id -> children list
        self.paths = {}
        self._index(lib, None, "")

    def _index(self, kids, fid, path):
        self.index[fid] = kids
        self._fpath = getattr(self, "_fpath", {})
        self._fpath[fid] = path
        for i, k in enumerate(kids):
            if k[0] == "d":
                cid = f"F{len(self.index)}"
                k_path = f"{path}/{k[1]}" if path else k[1]
                self.paths[k_path] = (cid, k)
                self._ids = getattr(self, "_ids", {})
                self._ids[id(k)] = cid
                self._index(k[2], cid, k_path)

    def item_json(self, k, idx, fid=None):
        it = self._item_json(k, idx)
        sh = self.extras.get("shape")
        if sh is not None:
            ti = k[2] if k[0] == "f" else 0
            apply_profile(it, PROFILES[(idx + ti + sh) % len(PROFILES)], self._fpath.get(fid, ""))
        return it

    def _item_json(self, k, idx):
        if k[0] == "d":
            # the folder facet's childCount is optional in Graph: every other folder omits it
            facet = {"childCount": len(k[2])} if (len(k[1]) + len(k[2])) % 2 == 0 else {}
            return self._folder_dates({"name": k[1], "id": self._ids[id(k)], "folder": facet, "webUrl": "u"})
        name, ti, variant = k[1], k[2], k[3]
        it = {"name": name, "id": f"f{idx}-{name}", "webUrl": "https://h/" + urllib.parse.quote(name), "file": {"mimeType": "application/x"}, "size": 10 + ti}
        if variant != "nodates":
            it["lastModifiedDateTime"] = TIMES[ti]
            it["createdDateTime"] = TIMES[(ti + 1) % 4]
            sp = self.extras.get("tzspell")
            if sp is not None:
                it["lastModifiedDateTime"] = spell(TIMES[ti], SPELL_ZONES[(idx + ti + sp) % len(SPELL_ZONES)])
                it["createdDateTime"] = spell(TIMES[(ti + 1) % 4], SPELL_ZONES[(idx + ti + sp + 1) % len(SPELL_ZONES)])
        if variant == "fields":
            it["listItem"] = {"fields": {"Dept": "X", "id": "1"}}
        return it

    def _folder_dates(self, it):
        """extras fdates: the folder item (in a children listing and in the path lookup) carries its own timestamps and size"""
        fd = self.extras.get("fdates")
        if fd is not None:
            j = int(it["id"][1:])
            for key, off in (("lastModifiedDateTime", 0), ("createdDateTime", 2)):
                t = FOLDER_TIMES[(j + fd + off) % len(FOLDER_TIMES)]
                if t is not None:
                    it[key] = t
            it["size"] = 1000 + j
        return it

    def _dump(self, ans, raw=False):
        return json.dumps(ans, ensure_ascii=not (raw or self.extras.get("rawutf8"))).encode("utf-8")

    def _malformed(self, name, url):
        body = MALFORMED_BODIES[name]
        if body is not None:
            return body
        try:
            good = self._dump(self.answer(url), raw=True)
        except KeyError:
            good = b'{"error": {"code": "itemNotFound", "message": "\xc3\xbc"}}'
        if name == "cuthalf":
            return good[:len(good) // 2]
        lead = [i for i, b in enumerate(good) if b >= 0xC0]
        return good[:lead[0] + 1] if lead else good[:-1]

    def __call__(self, req, timeout=None):
        k = self.n
        self.n += 1
        url = req.full_url
        self.urls.append(url)
        kind = self.faults.get(k)
        if kind:
            if kind.startswith("body:"):
                return Resp(200, self._malformed(kind[5:], url), self.resps)
            if kind.startswith("http"):
                raise HTTPError(url, int(kind[4:]), "err", {}, io.BytesIO(b'{"error":"x"}'))
            if kind == "urlerror":
                raise URLError("connection refused")
            if kind == "badjson":
                return Resp(200, b'{"value": [', self.resps)
            if kind.startswith("status"):
                return Resp(int(kind[6:]), b"{}", self.resps)
        try:
            ans = self.answer(url)
        except KeyError:
            raise HTTPError(url, 404, "not found", {}, io.BytesIO(b'{"error":"itemNotFound"}'))
        return Resp(200, self._dump(ans), self.resps)

    def answer(self, url):
        if "login.microsoftonline" in url:
            return {"access_token": "tok"}
        u = urllib.parse.urlparse(url)
        path = urllib.parse.unquote(u.path)
        q = urllib.parse.parse_qs(u.query)
        if path.endswith("/sites/h:/s"):
            return {"id": "SITE"}
        if path.endswith("/children"):
            if "/root/children" in path:
                fid = None
            elif "/root:/" in path:
                p = path.split("/root:/")[1].rsplit(":/children", 1)[0]
                fid = self.paths[p][0]
            else:
                fid = path.split("/items/")[1].split("/")[0]
                if fid not in self.index:
                    raise KeyError(fid)
            kids = self.index[fid]
            items = [self.item_json(k, i, fid) for i, k in enumerate(kids)]
            if self.extras.get("nondict") and fid is None:
                items.insert(1 if items else 0, "garbage")
            if self.extras.get("nofacet") and fid is None:
                items.append({"name": "note.one", "id": "pkg", "package": {"type": "oneNote"}})
            skip = int(q.get("skip", ["0"])[0])
            out = {"value": items[skip:skip + self.page]}
            if skip + self.page < len(items):
                base = u._replace(query="").geturl()
                out["@odata.nextLink"] = f"{base}?skip={skip + self.page}"
            return out
        if "/root:/" in path:
            p = path.split("/root:/")[1]
            if p in self.paths:
                cid, k = self.paths[p]
                return self._folder_dates({"name": k[1], "id": cid, "folder": {}})
            # maybe a file path
            raise KeyError(p)
        raise AssertionError("unexpected url " + url)


def apply_profile(it, profile, parent):
    """Add / remove the optional members of a drive item (file or folder) according to the profile; the item's name, id, facet
    kind and item-level timestamps - what the listing is defined by - never change."""
    name = it["name"]
    sysf = {"@odata.etag": '"e,1"', "id": "7", "FileLeafRef": name, "ContentType": "Document", "Modified": "2024-01-15T10:30:00Z",
            "Created": "2024-01-15T10:30:00Z", "AuthorLookupId": "3", "EditorLookupId": "3", "_UIVersionString": "1.0"}
    if profile == "li-custom":
        it["listItem"] = {"@odata.etag": '"e,1"', "id": "7", "fields": dict(sysf, Dept="X", Year=2019, Title0="t \u00fc")}
    elif profile == "li-system":
        it["listItem"] = {"id": "7", "fields": dict(sysf)}
    elif profile == "li-structured":
        it["listItem"] = {"id": "7", "fields": {"Owner": {"LookupId": 3, "LookupValue": "Ann"}, "Tags": ["a", "b"], "Flag": True,
                                                "Note": None, "Ratio": 0.5, "FileLeafRef": name}}
    elif profile == "li-nofields":
        it["listItem"] = {"id": "7"} if len(name) % 2 else {"id": "7", "fields": {}}
    elif profile == "li-null":
        it["listItem"] = None if len(name) % 2 else {"id": "7", "fields": ["Dept", "X"]}
    elif profile == "lean":
        it.pop("webUrl", None)
        it.pop("size", None)
        if "file" in it:
            it["file"] = {}
    elif profile == "rich":
        who = {"user": {"displayName": "Ann", "email": "a@h", "id": "u-1"}}
        it.update({"@odata.etag": '"e,2"', "eTag": '"e,2"', "cTag": '"c:e,2"', "createdBy": who, "lastModifiedBy": who,
                   "parentReference": {"driveId": "b!d", "driveType": "documentLibrary", "id": "p-1", "siteId": "SITE",
                                       "path": "/drive/root:" + ("/" + parent if parent else "")}})
        fsi = {k2: it[k] for k, k2 in (("createdDateTime", "createdDateTime"), ("lastModifiedDateTime", "lastModifiedDateTime")) if k in it}
        it["fileSystemInfo"] = fsi
        if "file" in it:
            it["@microsoft.graph.downloadUrl"] = "https://h/dl/" + urllib.parse.quote(name)
            it["file"] = dict(it["file"], hashes={"quickXorHash": "AAAA"})
            it["size"] = 0
            it["shared"] = {"scope": "users"}


# ---------------------------------------------------------------- reference walk

def ref_walk(kids, parent=""):
    for k in kids:
        if k[0] == "f":
            yield (parent, k)
    for k in kids:
        if k[0] == "d":
            yield from ref_walk(k[2], f"{parent}/{k[1]}" if parent else k[1])


def _find(lib, path):
    kids = lib
    for seg in path.strip("/").split("/"):
        nxt = None
        for k in kids:
            if k[0] == "d" and k[1] == seg:
                nxt = k[2]
        if nxt is None:
            return None
        kids = nxt
    return kids


def _dt(s):
    if s is None:
        return None
    s = s.replace("Z", "+00:00")
    if "." in s:
        base, rest = s.split(".", 1)
        frac = rest[:rest.index("+")]
        return datetime.fromisoformat(base + "+00:00") + timedelta(seconds=float("0." + frac))
    return datetime.fromisoformat(s)


def spell(z_string, zone_min):
    """Re-spell a '...Z' timestamp as the same instant with a numeric UTC offset (fraction kept verbatim)."""
    body = z_string[:-1]
    frac = ""
    if "." in body:
        body, frac = body.split(".", 1)
        frac = "." + frac
    local = datetime.fromisoformat(body) + timedelta(minutes=zone_min)
    sign = "-" if zone_min < 0 else "+"
    return f"{local.isoformat()}{frac}{sign}{abs(zone_min) // 60:02d}:{abs(zone_min) % 60:02d}"


class SubZone(tzinfo):
    """A fixed-offset tzinfo that is not a datetime.timezone instance (what pytz / dateutil / zoneinfo users pass)."""

    def __init__(self, minutes):
        self._off = timedelta(minutes=minutes)

    def utcoffset(self, dt):
        return self._off

    def dst(self, dt):
        return timedelta(0)

    def tzname(self, dt):
        return "SUB"


def ms_of(v):
    """date value of a case -> ms offset from T0 (the instant), whatever zone it is expressed in"""
    return v[0] if isinstance(v, (list, tuple)) else v


def bound(v):
    """date value of a case -> the aware datetime handed to the library"""
    if isinstance(v, (list, tuple)):
        tz = SubZone(v[1]) if len(v) > 2 and v[2] == "sub" else timezone(timedelta(minutes=v[1]))
        return (T0 + timedelta(milliseconds=v[0])).astimezone(tz)
    return T0 + timedelta(milliseconds=v)


def ref_filtered(lib, flt):
    """flt: dict of FileFilter fields (date values: ms from T0 | [ms, zone_minutes(, "sub")] | None, see ms_of / bound)"""
    out = []
    roots = flt.get("folder_paths") or [None]
    for fp in roots:
        if fp is None:
            kids, parent = lib, ""
        else:
            kids = _find(lib, fp)
            parent = fp
            if kids is None:
                continue
        for par, k in ref_walk(kids, parent):
            name, ti, variant = k[1], k[2], k[3]
            mod = _dt(TIMES[ti]) if variant != "nodates" else None
            cre = _dt(TIMES[(ti + 1) % 4]) if variant != "nodates" else None
            ok = True
            for fld, val in (("created", cre), ("modified", mod)):
                after, before = flt.get(fld + "_after"), flt.get(fld + "_before")
                after = None if after is None else ms_of(after)
                before = None if before is None else ms_of(before)
                if after is not None or before is not None:
                    if val is None:
                        ok = False
                    else:
                        # NOTE: the implementation truncates fractional seconds when parsing (documented in its docstring as
                        # "Remove microseconds"); compare on the truncated value to demand no more than that.
                        v = val.replace(microsecond=0)
                        if after is not None and v < T0 + timedelta(milliseconds=after):
                            ok = False
                        if before is not None and v >= T0 + timedelta(milliseconds=before):
                            ok = False
            exts = flt.get("extensions") or []
            if exts and not any(name.lower().endswith(e.lower()) for e in exts):
                ok = False
            pats = flt.get("path_patterns") or []
            full = f"{par}/{name}" if par else name
            if pats and not any(fnmatch.fnmatchcase(full, p) for p in pats):
                ok = False
            if ok:
                out.append((par or None, name))
    return out


# ---------------------------------------------------------------- calls

DATE_VALUES = [None, -1000, 0, 1000, 500]
FILTER_DIMS = {
    "modified_after": DATE_VALUES, "modified_before": DATE_VALUES, "created_after": DATE_VALUES, "created_before": DATE_VALUES,
    "extensions": [[], [".pdf"], [".PDF"], [".docx", ".txt"]],
    "path_patterns": [[], ["*.pdf"], ["A/*"], ["A/*/*.docx"], ["*x y*"]],
    "folder_paths": [[], ["A"], ["A/B"], ["missing"], ["A", "C d"]],
}


def filter_lattice(d):
    base = {k: v[0] for k, v in FILTER_DIMS.items()}
    yield dict(base)
    dims = list(FILTER_DIMS)
    for i, a in enumerate(dims):
        for va in FILTER_DIMS[a][1:]:
            f1 = dict(base)
            f1[a] = va
            yield f1
            if d >= 2:
                for b in dims[i + 1:]:
                    for vb in FILTER_DIMS[b][1:]:
                        f2 = dict(f1)
                        f2[b] = vb
                        yield f2


def make_filter(flt):
    from sharepoint2text.sharepoint_io import FileFilter
    kw = {}
    for k in ("modified_after", "modified_before", "created_after", "created_before"):
        if flt.get(k) is not None:
            kw[k] = bound(flt[k])
    for k in ("extensions", "path_patterns", "folder_paths"):
        kw[k] = list(flt.get(k) or [])
    return FileFilter(**kw)


def do_call(client, call, probs=None):
    """Returns list of (parent_path, name); problems with the returned records' full-path accessor are appended to probs"""
    kind = call[0]
    if kind == "all":
        res = client.list_all_files()
    elif kind == "folder":
        res = client.list_files_in_folder(call[1])
    elif kind == "filtered":
        res = list(client.list_files_filtered(make_filter(call[1])))
    elif kind == "modified_since":
        res = list(client.list_files_modified_since(bound(call[1]), folder_paths=call[2] or None, extensions=call[3] or None))
    elif kind == "created_since":
        res = list(client.list_files_created_since(bound(call[1]), folder_paths=call[2] or None, extensions=call[3] or None))
    else:
        raise ValueError(kind)
    if probs is not None:
        for r in res:
            try:
                fp = r.get_full_path()
            except Exception as e:  # noqa
                probs.append(f"get_full_path() of returned record {r.name!r} (parent {r.parent_path!r}) raised {type(e).__name__}: {e}")
                continue
            want = f"{r.parent_path}/{r.name}" if r.parent_path else r.name
            if fp != want:
                probs.append(f"get_full_path() of returned record {r.name!r} (parent {r.parent_path!r}) is {fp!r}, expected {want!r}")
    if kind == "folder":
        return [(None, r.name) for r in res]          # parent path of this non-recursive listing is not judged
    return [(r.parent_path, r.name) for r in res]


def ref_call(lib, call):
    kind = call[0]
    if kind == "all":
        return ref_filtered(lib, {})
    if kind == "folder":
        kids = lib if call[1] in ("/", "") else _find(lib, call[1])
        if kids is None:
            return None          # behaviour for a missing folder: error expected, not judged here
        return [(None, k[1]) for k in kids if k[0] == "f"]
    if kind == "filtered":
        return ref_filtered(lib, call[1])
    if kind == "modified_since":
        return ref_filtered(lib, {"modified_after": call[1], "folder_paths": call[2], "extensions": call[3]})
    if kind == "created_since":
        return ref_filtered(lib, {"created_after": call[1], "folder_paths": call[2], "extensions": call[3]})


def new_client(tr):
    from sharepoint2text.sharepoint_io import EntraIDAppCredentials, SharePointRestClient
    return SharePointRestClient("https://h/s", EntraIDAppCredentials("t", "c", "s"), request_func=tr)


def run_case(case):
    """case = {"lib": tree, "page": p, "call": call, "faults": {k: kind}, "extras": {...}} -> (fails, info)"""
    from sharepoint2text.sharepoint_io import SharePointError, SharePointRequestError
    lib, page, call = case["lib"], case["page"], case["call"]
    faults = {int(k): v for k, v in (case.get("faults") or {}).items()}
    fails = []
    exp = ref_call(lib, call)
    tr = Transport(lib, page, faults, case.get("extras"))
    c = new_client(tr)
    if not faults:
        probs = []
        try:
            got = do_call(c, call, probs)
        except SharePointError as e:
            if exp is None:
                return [], {"n": tr.n, "out": "error-missing-folder"}
            return [("listing", f"healthy call raised {type(e).__name__}: {e}")], {"n": tr.n}
        except Exception as e:  # noqa
            return [("raises", f"healthy call raised {type(e).__name__}: {e}")], {"n": tr.n}
        if exp is not None:
            if sorted(map(str, got)) != sorted(map(str, exp)):
                missing = [x for x in exp if x not in got]
                extra = [x for x in got if x not in exp]
                dup = len(got) != len(set(got)) and not (len(exp) != len(set(exp)))
                fails.append(("listing", f"call {call}: missing {missing} unexpected {extra}{' duplicates' if dup else ''}; got {got}"))
        if probs:
            fails.append(("fullpath", f"call {call}: {probs[0]}" + (f" (+{len(probs) - 1} more)" if len(probs) > 1 else "")))
        unclosed = sum(1 for r in tr.resps if r.closed < 1)
        if unclosed:
            fails.append(("unclosed", f"{unclosed} responses never closed in a healthy run"))
        return fails, {"n": tr.n, "out": len(got), "urls": tr.urls}
    # faulty run
    try:
        got = do_call(c, call)
        out = "returned"
    except SharePointError as e:
        out = "sp-error"
        err = e
    except Exception as e:  # noqa
        out = "escape"
        err = e
    hit = [k for k in faults if k < tr.n]      # faults actually reached
    if not hit:
        return [], {"n": tr.n, "out": "fault-not-reached"}
    first = min(hit)
    kind = faults[first]
    url = tr.urls[first]
    dontcare_404 = kind == "http404" and "/root:/" in urllib.parse.unquote(url) and not urllib.parse.unquote(url).endswith("/children")
    if out == "escape":
        fails.append(("fault-family", f"fault {kind} at request {first} ({url}) escaped as {type(err).__name__}: {err}"))
    elif out == "returned":
        if not dontcare_404:
            fails.append(("fault-swallowed", f"fault {kind} at request {first} ({url}) was swallowed: call returned {got}"))
    else:
        if kind.startswith("http") or kind == "urlerror" or kind.startswith("status"):
            if not isinstance(err, SharePointRequestError):
                fails.append(("fault-family", f"fault {kind} at request {first} raised {type(err).__name__}, expected SharePointRequestError"))
            else:
                want = None if kind == "urlerror" else int(kind[4:] if kind.startswith("http") else kind[6:])
                if err.status_code != want:
                    fails.append(("fault-detail", f"fault {kind} at request {first}: status_code {err.status_code}, expected {want}"))
                if getattr(err, "url", None) != url:
                    fails.append(("fault-detail", f"fault {kind} at request {first}: url {getattr(err, 'url', None)}, expected {url}"))
    unclosed = sum(1 for r in tr.resps if r.closed < 1)
    if unclosed:
        fails.append(("unclosed", f"after fault {kind} at request {first}: {unclosed} of {len(tr.resps)} responses not closed"))
    # healthy retry on the same client
    tr.faults = {}
    try:
        again = do_call(c, call)
        if exp is not None and sorted(map(str, again)) != sorted(map(str, exp)):
            fails.append(("retry", f"retry after fault {kind} at request {first} returned {again}, expected {exp}"))
    except SharePointError as e:
        if exp is not None:
            fails.append(("retry", f"retry after fault {kind} at request {first} raised {type(e).__name__}: {e}"))
    except Exception as e:  # noqa
        fails.append(("retry", f"retry after fault {kind} at request {first} raised {type(e).__name__}: {e}"))
    return fails, {"n": tr.n, "out": out}


def reexec(fmt, case):
    return run_case(case)[0]


def shrinks(case):
    from verif.mc.findings import generic_shrinks
    for lib in generic_shrinks(case["lib"]):
        c = dict(case)
        c["lib"] = lib
        yield c
    if case["page"] != 3:
        c = dict(case)
        c["page"] = 3
        yield c
    call = case["call"]
    if call[0] == "filtered":
        for k, v in call[1].items():
            if v not in (None, []):
                f2 = dict(call[1])
                f2[k] = None if (not isinstance(v, list) or k.endswith(("_after", "_before"))) else []
                c = dict(case)
                c["call"] = ["filtered", f2]
                yield c
        for k, v in call[1].items():                      # a zoned bound -> the same instant in UTC / in a plain timezone
            if isinstance(v, list) and k.endswith(("_after", "_before")):
                for simpler in [v[0]] + ([v[:2]] if len(v) > 2 else []):
                    f2 = dict(call[1])
                    f2[k] = simpler
                    c = dict(case)
                    c["call"] = ["filtered", f2]
                    yield c
    if call[0] in ("modified_since", "created_since"):
        if isinstance(call[1], list):
            c = dict(case)
            c["call"] = [call[0], call[1][0]] + list(call[2:])
            yield c
        for i in (2, 3):
            if call[i]:
                c = dict(case)
                c["call"] = list(call[:i]) + [[]] + list(call[i + 1:])
                yield c
    if case.get("extras"):
        c = dict(case)
        c["extras"] = {}
        yield c
    faults = case.get("faults") or {}
    for k, kind in faults.items():                        # a malformed body -> a simpler malformed body (order of MALFORMED_BODIES)
        if kind in BODY_KINDS:
            for simpler in BODY_KINDS[:BODY_KINDS.index(kind)]:
                c = dict(case)
                c["faults"] = dict(faults, **{k: simpler})
                yield c
    if faults and call != ["all"]:                        # the same fault under the plain listing
        c = dict(case)
        c["call"] = ["all"]
        yield c


def _zclass(v):
    """identity of a date value in a finding: the instant and the direction of the zone, not the concrete offset"""
    if isinstance(v, (list, tuple)) and len(v) >= 2 and isinstance(v[1], int) and not isinstance(v[0], (list, str)):
        return [v[0], "east" if v[1] > 0 else "west" if v[1] < 0 else "zero"] + list(v[2:])
    return v


def fingerprint_view(case):
    """the concrete UTC offset of a zoned bound and the concrete spelling scheme are not part of a finding's identity"""
    c = dict(case)
    call = list(c["call"])
    if call[0] == "filtered":
        call[1] = {k: (_zclass(v) if k.endswith(("_after", "_before")) else v) for k, v in call[1].items()}
    elif call[0] in ("modified_since", "created_since"):
        call[1] = _zclass(call[1])
    c["call"] = call
    if (c.get("extras") or {}).get("tzspell") is not None:
        c["extras"] = dict(c["extras"], tzspell="any")
    if (c.get("extras") or {}).get("shape") is not None:
        c["extras"] = dict(c["extras"], shape="any")
    if (c.get("extras") or {}).get("fdates") is not None:
        c["extras"] = dict(c["extras"], fdates="any")
    return c


def embeds(small, big):
    from verif.mc.findings import embeds as E
    small, big = fingerprint_view(small), fingerprint_view(big)
    if small.get("extras") and small["extras"] != (big.get("extras") or {}):
        return False
    if small["call"][0] in ("modified_since", "created_since") and small["call"][1] != big["call"][1]:
        return False
    if small["call"][0] != big["call"][0]:
        return False
    fs, fb = small.get("faults") or {}, big.get("faults") or {}
    if sorted(fs.values()) != sorted(fb.values()):
        return False
    if small["call"][0] == "filtered":
        for k, v in small["call"][1].items():
            if v not in (None, []) and big["call"][1].get(k) != v:
                return False
    return E(small["lib"], big["lib"])


def calls_for(tier, lib):
    quick = tier == "quick"
    yield ["all"]
    yield ["folder", "/"]
    yield ["folder", "A"]
    yield ["folder", "A/B"]
    for flt in filter_lattice(2 if not quick else 1):
        yield ["filtered", flt]
    if quick:
        # the pairs that matter most: date x date and folder x anything
        for a in ("modified_after", "created_before"):
            for va in DATE_VALUES[1:]:
                for b, vbs in (("modified_before", DATE_VALUES[1:]), ("folder_paths", FILTER_DIMS["folder_paths"][1:]), ("extensions", [[".PDF"]])):
                    for vb in vbs:
                        f = {k: v[0] for k, v in FILTER_DIMS.items()}
                        f[a] = va
                        f[b] = vb
                        yield ["filtered", f]
    for since in (-1000, 0, 1000):
        yield ["modified_since", since, [], []]
        yield ["created_since", since, ["A"], [".pdf"]]


def zone_calls(tier):
    """Date bounds expressed in non-UTC zones (same instants as DATE_VALUES): every date dimension x value x zone, the *_since
    helpers, (after, before) windows over every value pair x ordered pair of distinct zones, and a non-`timezone` tzinfo."""
    quick = tier == "quick"
    zones = ZONES_QUICK if quick else ZONES_THOROUGH
    base = {k: v[0] for k, v in FILTER_DIMS.items()}
    vals = DATE_VALUES[1:]
    for dim in ("modified_after", "modified_before", "created_after", "created_before"):
        for v in vals:
            for z in zones:
                f = dict(base)
                f[dim] = [v, z]
                yield ["filtered", f]
            f = dict(base)
            f[dim] = [v, zones[(vals.index(v)) % len(zones)], "sub"]
            yield ["filtered", f]
    for fld in ("modified", "created"):
        for va, vb in itertools.permutations(vals, 2):
            if not quick or va < vb:                     # thorough: empty / inverted windows too
                for za, zb in itertools.permutations(zones, 2):
                    f = dict(base)
                    f[fld + "_after"] = [va, za]
                    f[fld + "_before"] = [vb, zb]
                    yield ["filtered", f]
                f = dict(base)                            # one bound zoned, the other in UTC
                f[fld + "_after"] = [va, zones[0]]
                f[fld + "_before"] = vb
                yield ["filtered", f]
    for since in (-1000, 0, 1000, 500):
        for z in zones:
            yield ["modified_since", [since, z], [], []]
            yield ["created_since", [since, z], ["A"], [".pdf"]]
            yield ["created_since", [since, z], [], []]
    # zoned date bound x the non-date dimensions (the date test comes first in the predicate: interplay with the rest)
    for dim, v, z in (("modified_after", 0, zones[0]), ("created_before", 1000, zones[1])):
        for other in ("extensions", "path_patterns", "folder_paths"):
            for vo in FILTER_DIMS[other][1:]:
                f = dict(base)
                f[dim] = [v, z]
                f[other] = vo
                yield ["filtered", f]


def spell_calls(tier):
    """Calls evaluated against libraries whose item timestamps are spelled with numeric offsets (extras tzspell)."""
    quick = tier == "quick"
    zones = ZONES_QUICK if quick else ZONES_THOROUGH
    base = {k: v[0] for k, v in FILTER_DIMS.items()}
    yield ["all"]
    for dim in ("modified_after", "modified_before", "created_after", "created_before"):
        for v in DATE_VALUES[1:]:
            f = dict(base)
            f[dim] = v
            yield ["filtered", f]
            for z in (zones[:1] if quick else zones):
                f = dict(base)
                f[dim] = [v, z]
                yield ["filtered", f]
    for va, vb in ((-1000, 1000), (0, 1000), (0, 500), (-1000, 0)):
        for fld in ("modified", "created"):
            f = dict(base)
            f[fld + "_after"] = va
            f[fld + "_before"] = [vb, zones[1]]
            yield ["filtered", f]
    for since in (-1000, 0, 1000):
        yield ["modified_since", since, [], []]
        yield ["created_since", [since, zones[2]], [], []]


def shape_calls(tier):
    """Calls evaluated against libraries whose items carry / lack optional members (extras shape), see module docstring."""
    quick = tier == "quick"
    base = {k: v[0] for k, v in FILTER_DIMS.items()}
    yield ["all"]
    yield ["folder", "/"]
    yield ["folder", "A"]
    yield ["filtered", dict(base)]
    for dim, vals in (("extensions", FILTER_DIMS["extensions"][1:]), ("path_patterns", FILTER_DIMS["path_patterns"][1:] + PATTERNS_EXTRA),
                      ("folder_paths", FILTER_DIMS["folder_paths"][1:])):
        for v in vals:
            f = dict(base)
            f[dim] = v
            yield ["filtered", f]
    for dim in ("modified_after", "modified_before", "created_after", "created_before"):
        for v in ([0] if quick else DATE_VALUES[1:]):
            f = dict(base)
            f[dim] = v
            yield ["filtered", f]
    if not quick:
        for pat in FILTER_DIMS["path_patterns"][1:] + PATTERNS_EXTRA:
            for other in ("folder_paths", "extensions"):
                for vo in FILTER_DIMS[other][1:]:
                    f = dict(base)
                    f["path_patterns"] = pat
                    f[other] = vo
                    yield ["filtered", f]
    else:
        f = dict(base)                                   # one pattern x folder pair: the pattern sees the path below the start folder
        f["path_patterns"] = ["A/*"]
        f["folder_paths"] = ["A", "C d"]
        yield ["filtered", f]
    yield ["modified_since", 0, [], []]
    yield ["created_since", 0, ["A"], [".pdf"]]


def fdate_calls(tier):
    """Calls evaluated against libraries whose FOLDER items carry their own timestamps (extras fdates), see FOLDER_TIMES: the
    listing is defined by the files; a folder's own dates (of the start folder or of any folder on the way) never decide."""
    quick = tier == "quick"
    base = {k: v[0] for k, v in FILTER_DIMS.items()}
    vals = [-1000, 0, 1000] if quick else DATE_VALUES[1:]
    yield ["all"]
    yield ["folder", "A"]
    dims = ("modified_after", "modified_before", "created_after", "created_before")
    for dim in dims:
        for v in vals:
            f = dict(base)
            f[dim] = v
            yield ["filtered", f]
    for fld in ("modified", "created"):
        for va, vb in (((-1000, 1000), (0, 1000)) if quick else ((-1000, 1000), (0, 1000), (0, 500), (-1000, 0), (1000, 0))):
            f = dict(base)
            f[fld + "_after"] = va
            f[fld + "_before"] = vb
            yield ["filtered", f]
    for dim in (dims[:1] if quick else dims):
        for v in ([0] if quick else [-1000, 0, 1000]):
            for other, ovals in (("folder_paths", FILTER_DIMS["folder_paths"][1:]), ("extensions", [[".pdf"]]), ("path_patterns", [["A/*"]])):
                for vo in ovals:
                    f = dict(base)
                    f[dim] = v
                    f[other] = vo
                    yield ["filtered", f]
    for since in (-1000, 0, 1000):
        yield ["modified_since", since, [], []]
    yield ["modified_since", 0, ["A"], []]
    yield ["modified_since", [0, ZONES_QUICK[0]], ["A", "C d"], []]
    yield ["created_since", 0, [], []]
    yield ["created_since", 0, ["A/B"], [".pdf"]]


def wire_libraries(tier):
    """every ordered pair (n1, n2) of distinct wire names: n1 and n2 are siblings under the root, n2 also occurs below n1"""
    names = WIRE_NAMES_QUICK if tier == "quick" else WIRE_NAMES
    for n1, n2 in itertools.permutations(names, 2):
        yield n1, n2, [["f", "a.pdf", 0, "full"],
                       ["d", n1, [["f", n2 + ".txt", 1, "full"], ["d", n2, [["f", "B.PDF", 2, "full"]]]]],
                       ["d", n2, [["f", n1 + ".pdf", 2, "full"]]]]


def wire_calls(n1, n2):
    """Calls that address folders by path (and the plain listing) over a wire-name library"""
    base = {k: v[0] for k, v in FILTER_DIMS.items()}
    yield ["all"]
    yield ["folder", n1]
    yield ["folder", n2]
    yield ["folder", n1 + "/" + n2]
    for fps in ([n1], [n2], [n1 + "/" + n2], [n1, n2]):
        f = dict(base)
        f["folder_paths"] = fps
        yield ["filtered", f]
    f = dict(base)
    f["folder_paths"] = [n1]
    f["extensions"] = [".pdf"]
    yield ["filtered", f]
    f = dict(base)
    f["folder_paths"] = [n2, n1 + "/" + n2]
    f["modified_after"] = 1000
    yield ["filtered", f]
    yield ["modified_since", 0, [n1], []]
    yield ["created_since", 0, [n1 + "/" + n2, n2], [".pdf"]]


def fdate_schemes(tier, nfolders):
    if nfolders == 0:
        return []
    full = nfolders <= (2 if tier == "quick" else 3)
    return list(range(len(FOLDER_TIMES))) if full else [0, len(FOLDER_TIMES) // 2]


def body_kinds_for(tier, nfolders, i, call_idx, page_is_last, kk):
    """Malformed-body alphabet per (library i, call, request index kk): all of BODY_KINDS on libraries with <= 2 (thorough: 3) folders;
    above, one kind per request index (rotating with library number, call and index) at one page size."""
    if nfolders <= (2 if tier == "quick" else 3):
        return BODY_KINDS
    if not page_is_last:
        return []
    return [BODY_KINDS[(i + call_idx + kk) % len(BODY_KINDS)]]


def shape_schemes(tier, nfolders):
    full = nfolders <= (2 if tier == "quick" else 3)
    return list(range(len(PROFILES))) if full else [0, len(PROFILES) // 2]


FAULT_CALLS = [["all"], ["folder", "A"], ["filtered", {"folder_paths": ["A"], "extensions": [".pdf"], "modified_after": 0, "modified_before": None,
                                                         "created_after": None, "created_before": None, "path_patterns": []}],
               ["modified_since", 0, ["A/B"], []]]


def _folders(kids):
    for k in kids:
        if k[0] == "d":
            yield k
            yield from _folders(k[2])


def _part(arg):
    tier, k, n, seed = arg
    quick = tier == "quick"
    ev = 0
    requests = 0
    fails = []
    outs = {}
    samples = []
    maxf = 3 if quick else 4
    pages = (1, 2) if quick else (1, 2, 3)
    for i, lib in enumerate(libraries(maxf)):
        if i % n != k:
            continue
        for page in pages:
            for call in calls_for(tier, lib):
                if call[0] == "filtered" and page != pages[-1] and (call[1].get("folder_paths") == [] and i % 3):
                    continue   # pagination is independent of the filter predicate: full filter lattice at one page size, folder filters at all
                case = {"lib": lib, "page": page, "call": call}
                f, info = run_case(case)
                ev += 1
                requests += info.get("n", 0)
                outs["healthy:" + str(info.get("out"))] = outs.get("healthy:" + str(info.get("out")), 0) + 1
                for clause, msg in f:
                    fails.append((clause, "healthy", case, msg))
            # instants: date bounds expressed in other zones, item timestamps spelled with numeric offsets (the date predicate is
            # independent of pagination: one page size)
            nfolders = sum(1 for _ in _folders(lib))
            ztier = tier if (quick or nfolders <= 3) else ("quick" if i % 3 == 0 else None)   # thorough: deep alphabet on <= 3 folders
            if page == pages[-1] and ztier:
                for call in zone_calls(ztier):
                    case = {"lib": lib, "page": page, "call": call}
                    f, info = run_case(case)
                    ev += 1
                    requests += info.get("n", 0)
                    outs["zoned:" + str(info.get("out"))] = outs.get("zoned:" + str(info.get("out")), 0) + 1
                    for clause, msg in f:
                        fails.append((clause, "healthy", case, msg))
                for sp in (range(2) if ztier == "quick" else range(len(SPELL_ZONES))):
                    for call in spell_calls(ztier):
                        case = {"lib": lib, "page": page, "call": call, "extras": {"tzspell": sp}}
                        f, info = run_case(case)
                        ev += 1
                        requests += info.get("n", 0)
                        outs["spelled:" + str(info.get("out"))] = outs.get("spelled:" + str(info.get("out")), 0) + 1
                        for clause, msg in f:
                            fails.append((clause, "healthy", case, msg))
            # item shapes: optional members of the drive items present / absent (independent of pagination: one page size)
            if page == pages[-1]:
                for sh in shape_schemes(tier, nfolders):
                    for call in shape_calls(tier):
                        case = {"lib": lib, "page": page, "call": call, "extras": {"shape": sh}}
                        f, info = run_case(case)
                        ev += 1
                        requests += info.get("n", 0)
                        outs["shaped:" + str(info.get("out"))] = outs.get("shaped:" + str(info.get("out")), 0) + 1
                        for clause, msg in f:
                            fails.append((clause, "healthy", case, msg))
            # folder items with their own timestamps (independent of pagination: one page size)
            if page == pages[-1]:
                for fd in fdate_schemes(tier, nfolders):
                    for call in fdate_calls(tier):
                        case = {"lib": lib, "page": page, "call": call, "extras": {"fdates": fd}}
                        f, info = run_case(case)
                        ev += 1
                        requests += info.get("n", 0)
                        outs["fdated:" + str(info.get("out"))] = outs.get("fdated:" + str(info.get("out")), 0) + 1
                        for clause, msg in f:
                            fails.append((clause, "healthy", case, msg))
            # extras: non-dict item, item without facet, bodies sent as raw UTF-8 instead of \u escapes
            for extras in ({"nondict": 1}, {"nofacet": 1}, {"rawutf8": 1}):
                case = {"lib": lib, "page": page, "call": ["all"], "extras": extras}
                f, info = run_case(case)
                ev += 1
                requests += info.get("n", 0)
                for clause, msg in f:
                    fails.append((clause, "healthy", case, msg))
            # faults
            for ci, call in enumerate(FAULT_CALLS):
                base = {"lib": lib, "page": page, "call": call}
                f0, info0 = run_case(base)
                nreq = info0.get("n", 0)
                for kk in range(nreq):
                    for kind in FAULT_KINDS + body_kinds_for(tier, nfolders, i, ci, page == pages[-1], kk):
                        case = dict(base)
                        case["faults"] = {str(kk): kind}
                        f, info = run_case(case)
                        ev += 1
                        requests += info.get("n", 0)
                        outs["fault:" + kind + ":" + str(info.get("out"))] = outs.get("fault:" + kind + ":" + str(info.get("out")), 0) + 1
                        for clause, msg in f:
                            fails.append((clause, "fault", case, msg))
                        if len(samples) < 2 and ev % 5000 == 17:
                            samples.append({"case": case, "requests": info.get("n")})
                if not quick and nreq <= 14 and call[0] == "all":
                    for k1 in range(nreq):
                        for k2 in range(k1 + 1, nreq):
                            for kind1, kind2 in (("http503", "urlerror"), ("badjson", "http429"), ("status500", "http404")):
                                case = dict(base)
                                case["faults"] = {str(k1): kind1, str(k2): kind2}
                                f, info = run_case(case)
                                ev += 1
                                requests += info.get("n", 0)
                                for clause, msg in f:
                                    fails.append((clause, "fault", case, msg))
    # wire names: folders addressed by path whose literal names collide with URL syntax (see module docstring)
    wire_faults = WIRE_FAULTS_QUICK if quick else FAULT_KINDS
    for j, (n1, n2, lib) in enumerate(wire_libraries(tier)):
        if j % n != k:
            continue
        for page in ((2,) if quick else pages):
            for call in wire_calls(n1, n2):
                case = {"lib": lib, "page": page, "call": call}
                f, info = run_case(case)
                ev += 1
                requests += info.get("n", 0)
                outs["wire:" + str(info.get("out"))] = outs.get("wire:" + str(info.get("out")), 0) + 1
                for clause, msg in f:
                    fails.append((clause, "healthy", case, msg))
            if page == 2:
                flt = {k_: v[0] for k_, v in FILTER_DIMS.items()}
                flt["folder_paths"] = [n1 + "/" + n2]
                base = {"lib": lib, "page": page, "call": ["filtered", flt]}
                nreq = run_case(base)[1].get("n", 0)
                for kk in range(nreq):
                    for kind in wire_faults:
                        case = dict(base)
                        case["faults"] = {str(kk): kind}
                        f, info = run_case(case)
                        ev += 1
                        requests += info.get("n", 0)
                        outs["wirefault:" + kind + ":" + str(info.get("out"))] = outs.get("wirefault:" + kind + ":" + str(info.get("out")), 0) + 1
                        for clause, msg in f:
                            fails.append((clause, "fault", case, msg))
    return {"ev": ev, "requests": requests, "fails": fails[:20000], "nfails": len(fails), "outs": outs, "samples": samples}


def run(ctx):
    n = ctx.ncpu * 4
    args = [(ctx.tier, k, n, ctx.seed) for k in range(n)]
    random.Random(ctx.seed).shuffle(args)
    # the hard timeout is a wall-clock safety net only (a partition needs ~10 CPU-s quick / ~130 CPU-s thorough); generous on a shared machine
    res = P.run_all("verif.props.C18", "_part", args, n=ctx.ncpu, hard_timeout=3000 if ctx.quick else 14400)
    ev = req = 0
    fails = []
    outs = {}
    samples = []
    herr = []
    for (st, r, _), a in zip(res, args):
        if st != "done":
            herr.append(f"partition {a} failed: {st}: {str(r)[-600:]}")
            continue
        ev += r["ev"]
        req += r["requests"]
        fails += [tuple(x) for x in r["fails"]]
        for k_, v in r["outs"].items():
            outs[k_] = outs.get(k_, 0) + v
        samples += r["samples"]
    if not samples:
        samples = [{"case": {"lib": build_lib([[[]]], (1, 1, 1)), "page": 1, "call": ["all"], "faults": {"3": "http503"}}}]
    cov = {"evaluations": ev, "distinct_nontrivial": len(outs),
           "rule": "every rooted ordered folder tree with <= K folders (K=3 quick, 4 thorough) x 0..2 files per folder x page sizes; calls: "
                   "list_all_files, list_files_in_folder, list_files_filtered over the filter lattice (baseline + all 1- (quick: selected 2-) / "
                   "2-dimension deviations), *_since helpers; for 4 representative calls every request index x 10 fault kinds (thorough: pairs) "
                   "followed by a healthy retry; instants: every date dimension x value x zone (fixed UTC offsets, minutes: "
                   + str(ZONES_QUICK if ctx.quick else ZONES_THOROUGH) + ") incl. a non-timezone tzinfo, *_since helpers x zone, (after, before) windows x "
                   "ordered pairs of distinct zones, zoned bound x non-date dimensions; item timestamps spelled with numeric offsets ("
                   + str(2 if ctx.quick else len(SPELL_ZONES)) + " spelling schemes over offsets " + str(SPELL_ZONES) + ") x date filters; "
                   "item shapes: optional drive-item members by profile " + str(PROFILES) + " assigned by scheme (all " + str(len(PROFILES))
                   + " schemes on <= " + str(2 if ctx.quick else 3) + " folders, 2 schemes above: every file gets every profile) x "
                   + str(len(list(shape_calls(ctx.tier)))) + " calls (listing, folder listings, extensions / path patterns incl. " + str(PATTERNS_EXTRA)
                   + " / folder paths, dates, pairs, *_since); every returned record's get_full_path() == parent_path/name in all families; "
                   "malformed bodies: " + str(len(BODY_KINDS)) + " kinds " + str(list(MALFORMED_BODIES)) + " (text garbage, non-UTF-8 garbage, the healthy "
                   "body cut at half length / inside a multi-byte character) at every request index of the 4 fault calls: all kinds on <= "
                   + str(2 if ctx.quick else 3) + " folders, one rotating kind per (library, call, index) above; healthy bodies also as raw UTF-8; "
                   "folder-item timestamps: " + str(len(FOLDER_TIMES)) + " values " + str(FOLDER_TIMES) + " assigned by scheme (all schemes on <= "
                   + str(2 if ctx.quick else 3) + " folders, schemes {0, 3} above) x " + str(len(list(fdate_calls(ctx.tier)))) + " calls (dates, windows, "
                   "date x folder paths / extensions / patterns, *_since); "
                   "wire names: every ordered pair of " + str(len(WIRE_NAMES_QUICK if ctx.quick else WIRE_NAMES)) + " literal folder names colliding with URL "
                   "syntax " + str(WIRE_NAMES_QUICK if ctx.quick else WIRE_NAMES) + " (each next to the name it would decode to) x page sizes "
                   + str([2] if ctx.quick else [1, 2, 3]) + " x " + str(len(list(wire_calls("a", "b")))) + " path-addressed calls, and every request index "
                   "x fault kinds " + str(WIRE_FAULTS_QUICK if ctx.quick else FAULT_KINDS) + " of the nested folder_paths call; "
                   "distinct_nontrivial = distinct (phase, fault kind, outcome) classes",
           "transport_requests": req, "outcomes": outs, "samples": samples[:5], "exhaustive": True,
           "bounds": {"folders": 3 if ctx.quick else 4, "files_per_folder": 2, "page_sizes": "1..2" if ctx.quick else "1..3", "fault_depth": 1 if ctx.quick else 2,
                      "bound_zones_min": ZONES_QUICK if ctx.quick else ZONES_THOROUGH, "item_offset_spellings": 2 if ctx.quick else len(SPELL_ZONES),
                      "zoned_calls_per_library": len(list(zone_calls(ctx.tier))), "spelled_calls_per_library_and_scheme": len(list(spell_calls(ctx.tier))),
                      "item_profiles": PROFILES, "shape_schemes": {"full_up_to_folders": 2 if ctx.quick else 3, "above": [0, len(PROFILES) // 2]},
                      "shaped_calls_per_library_and_scheme": len(list(shape_calls(ctx.tier))),
                      "malformed_body_kinds": BODY_KINDS, "malformed_bodies_full_up_to_folders": 2 if ctx.quick else 3,
                      "folder_times": FOLDER_TIMES, "folder_time_schemes": {"full_up_to_folders": 2 if ctx.quick else 3, "above": [0, len(FOLDER_TIMES) // 2]},
                      "folder_dated_calls_per_library_and_scheme": len(list(fdate_calls(ctx.tier))),
                      "wire_names": WIRE_NAMES_QUICK if ctx.quick else WIRE_NAMES, "wire_libraries": len(list(wire_libraries(ctx.tier))),
                      "wire_page_sizes": [2] if ctx.quick else [1, 2, 3], "wire_calls_per_library_and_page": len(list(wire_calls("a", "b"))),
                      "wire_fault_kinds": WIRE_FAULTS_QUICK if ctx.quick else FAULT_KINDS}}
    return {"coverage": cov, "failures": fails, "harness_errors": herr,
            "assumptions": ["fake transport models Graph children / root:/path / token / site-id URLs with skip-style nextLink",
                            "the server percent-decodes a request path exactly once; folder names are literal strings (a literal '%20' in a name "
                            "is three characters, not a space)",
                            "HTTP 404 at the folder-lookup request is documented 'folder not found' behaviour and is not judged",
                            "fractional seconds are truncated by the client's ISO parser (its docstring says so); the reference compares truncated values",
                            "pattern semantics = fnmatchcase on the full path (statement: patterns apply to the full path)",
                            "which optional members (listItem / custom columns, size, webUrl, mimeType, downloadUrl, eTag, parentReference, "
                            "fileSystemInfo ...) a drive item carries does not change the listing; item name, id, facet and item-level timestamps "
                            "define it. The full path of a returned record is read through its get_full_path() accessor",
                            "a 200 response whose body is not a JSON text (whatever its bytes: text, binary, a cut-off healthy body) is the fault kind "
                            "'malformed JSON'; a well-formed JSON value that is not an object is not explored",
                            "a folder item's own timestamps / size do not define the listing (a folder's lastModifiedDateTime is no bound for the "
                            "files below it); only the files' timestamps are compared with the date bounds",
                            "an aware datetime bound and an ISO-8601 timestamp with a numeric offset denote instants; the filters are judged on instants. "
                            "Naive (tz-less) bounds have no defined instant and are not explored"]}
