"""C17 helper: reference writer for MHTML *container layouts* (MIME trees around one text/html root document).

`mhtml_tree(html, shape, enc, hdr, eol)` writes a web archive whose single text/html part is `html`:

  shape   single    the message itself is text/html (no multipart)
          rel       multipart/related [html, image]                         (browser "save as", the library fixture)
          rel-last  multipart/related; start=<cid> [image, html]            (root named by the start parameter, RFC 2387)
          rel-alt   multipart/related [multipart/alternative [plain, html], image]   (page/mail with a text rendition)
          alt-rel   multipart/alternative [plain, multipart/related [html, image]]   (the usual HTML mail tree)
          mix-rel   multipart/mixed [multipart/related [html, image], text attachment]
  enc     7bit | quoted-printable | base64 | none (no Content-Transfer-Encoding header = 7bit by default)
  hdr     ct-first  Content-Type, Content-Transfer-Encoding, Content-Location   (Chrome order)
          ct-last   Content-Location, Content-Transfer-Encoding, Content-Type   (IE / Word order)
  eol     "\r\n" | "\n"  line terminator of the whole file (the html's own "\n" become eol for 7bit/none)
  root    media type the root document is labelled with (default text/html; RFC 2557 allows any type for the root of a
          multipart/related, e.g. application/xhtml+xml; the `type=` parameter of the multipart/related follows it)

Every multipart level has its own boundary; no line of any generated payload starts with a boundary delimiter
(callers must not put "--" + BOUNDARY_STEM into the html). `validate()` parses the result with the stdlib e-mail
package and checks that there is exactly one text/html leaf, that it decodes to `html` and that no part has defects:
the writer is checked against an independent reader, not against the library under test.

selftest: PYTHONPATH=/verif /venv/bin/python -m verif.props.c17_wrap
"""
from __future__ import annotations

import base64
import quopri

SHAPES = ["rel", "single", "rel-last", "rel-alt", "alt-rel", "mix-rel"]
ENCS = ["7bit", "quoted-printable", "base64", "none"]
HDRS = ["ct-first", "ct-last"]
EOLS = ["\r\n", "\n"]
DEFAULT = {"shape": "rel", "enc": "7bit", "hdr": "ct-first", "eol": "\r\n"}
NESTED = {"rel-alt", "alt-rel", "mix-rel"}
BOUNDARY_STEM = "----=_Part_"
GIF = base64.b64decode("R0lGODlhAQABAIAAAAAAAP///yH5BAEAAAAALAAAAAABAAEAAAIBRAA7")


def _bnd(level: int) -> str:
    return f"{BOUNDARY_STEM}{level}_VERIF.{level}"


def _html_leaf(html: str, enc: str, hdr: str, cid: bool, root: str = "text/html") -> list:
    """header lines + '' + payload lines of the text/html leaf (lines without terminator)."""
    raw = html.encode("utf-8")
    if enc == "base64":
        payload = base64.encodebytes(raw).decode("ascii")
    elif enc == "quoted-printable":
        payload = quopri.encodestring(raw, quotetabs=False).decode("ascii")
    elif enc in ("7bit", "none"):
        payload = html
    else:
        raise ValueError(enc)
    ct = f'Content-Type: {root}; charset="utf-8"'
    cte = [] if enc == "none" else [f"Content-Transfer-Encoding: {enc}"]
    loc = "Content-Location: http://h/p.html"
    idl = ["Content-ID: <root@verif>"] if cid else []
    if hdr == "ct-first":
        head = [ct] + idl + cte + [loc]
    elif hdr == "ct-last":
        head = [loc] + idl + cte + [ct]
    else:
        raise ValueError(hdr)
    lines = payload.split("\n")
    if lines and lines[-1] == "":
        lines.pop()
    return head + [""] + lines


def _img_leaf() -> list:
    return ["Content-Type: image/gif", "Content-Transfer-Encoding: base64", "Content-Location: http://h/i.gif", "",
            base64.b64encode(GIF).decode("ascii")]


def _plain_leaf(text: str, attachment: bool = False) -> list:
    head = ['Content-Type: text/plain; charset="utf-8"', "Content-Transfer-Encoding: 7bit"]
    if attachment:
        head.append('Content-Disposition: attachment; filename="note.txt"')
    return head + [""] + text.split("\n")


def _multi(subtype: str, level: int, parts: list, params: str = "") -> list:
    b = _bnd(level)
    out = [f'Content-Type: multipart/{subtype}; boundary="{b}"{params}', ""]
    for p in parts:
        out += [f"--{b}"] + p
    out += [f"--{b}--"]
    return out


def mhtml_tree(html: str, shape: str = "rel", enc: str = "7bit", hdr: str = "ct-first", eol: str = "\r\n",
               root: str = "text/html") -> bytes:
    top = ["From: <Saved by verif>", "Subject: page", "Date: Thu, 1 Jan 2026 00:00:00 +0000", "MIME-Version: 1.0"]
    h = _html_leaf(html, enc, hdr, cid=(shape == "rel-last"), root=root)
    tp = f'; type="{root}"'
    if shape == "single":
        body = h
    elif shape == "rel":
        body = _multi("related", 0, [h, _img_leaf()], tp)
    elif shape == "rel-last":
        body = _multi("related", 0, [_img_leaf(), h], tp + '; start="<root@verif>"')
    elif shape == "rel-alt":
        alt = _multi("alternative", 1, [_plain_leaf("plain rendition"), h])
        body = _multi("related", 0, [alt, _img_leaf()], '; type="multipart/alternative"')
    elif shape == "alt-rel":
        rel = _multi("related", 1, [h, _img_leaf()], tp)
        body = _multi("alternative", 0, [_plain_leaf("plain rendition"), rel])
    elif shape == "mix-rel":
        rel = _multi("related", 1, [h, _img_leaf()], tp)
        body = _multi("mixed", 0, [rel, _plain_leaf("attached note", attachment=True)])
    else:
        raise ValueError(shape)
    # a multipart body gets the customary preamble line; the header block of `body` merges into the message header
    i = body.index("")
    head, rest = body[:i], body[i + 1:]
    if shape != "single":
        rest = ["This is a multi-part message in MIME format.", ""] + rest
    lines = top + head + [""] + rest + [""]
    return eol.join(lines).encode("utf-8")


def validate(data: bytes, html: str, root: str = "text/html") -> list:
    """Independent reading with the stdlib e-mail package; returns a list of problems (empty = the file says what we meant)."""
    import email
    import email.policy
    msg = email.message_from_bytes(data, policy=email.policy.default)
    probs = []
    leaves = [p for p in msg.walk() if not p.is_multipart()]
    for p in msg.walk():
        if p.defects:
            probs.append(f"defects in {p.get_content_type()}: {[type(d).__name__ for d in p.defects]}")
    hl = [p for p in leaves if p.get_content_type() == root.lower()]
    if len(hl) != 1:
        return probs + [f"{len(hl)} {root} leaves"]
    got = hl[0].get_content()
    if isinstance(got, bytes):      # non-text media type (application/xhtml+xml): the stdlib hands back the decoded bytes
        got = got.decode("utf-8")
    got = got.replace("\r\n", "\n")
    want = html.replace("\r\n", "\n")
    if got.rstrip("\n") != want.rstrip("\n"):
        probs.append(f"text/html leaf decodes to {got!r}, expected {want!r}")
    return probs


def containers():
    for shape in SHAPES:
        for enc in ENCS:
            for hdr in HDRS:
                for eol in EOLS:
                    yield {"shape": shape, "enc": enc, "hdr": hdr, "eol": eol}


if __name__ == "__main__":
    page = ("<!DOCTYPE html>\n<html>\n<head>\n<meta charset=\"utf-8\">\n</head>\n<body>\n<p>a = b</p>\n<!--\n--\n--=_b\n"
            "Content-Type: text/html\n\n" + "a" * 90 + "\n-->\n<p>z</p>\n</body>\n</html>\n")
    n = 0
    for c in containers():
        data = mhtml_tree(page, **c)
        probs = validate(data, page)
        assert not probs, (c, probs)
        n += 1
    print(f"c17_wrap selftest: {n} container layouts written and read back by the stdlib e-mail parser: OK")
