"""C06 - extraction is a deterministic, side-effect free function of (bytes, path); observing a result is idempotent.

Document universe D (verif.props.c06_docs; plain-JSON specs, bytes depend on the spec only):
  * every file below /repo/sharepoint2text/tests/resources (81 today; .doc / .msg have no writer: fixtures only);
  * for each of 25 generated formats (docx odt rtf pptx odp odg odf ppt pdf html mhtml epub txt md json csv xlsx ods xls eml
    mbox zip tar tgz 7z): the empty document, the rich document (every feature of the format, 2 instances each; thorough also
    3 each), every single feature with 5 (thorough also 6 and 8) DISTINCT instances - style names, hyperlinks, bookmarks,
    images, images WITH alternative text (altimgs: descr attribute / svg:title + svg:desc - what the caption options of the
    accessors print), tables, list items, notes, comments, revisions, text boxes, formulas, units, sheets, rows, recipients,
    attachments, messages, archive members, keywords of the metadata (kwords: ODF one meta:keyword element each, EPUB one
    dc:subject each), and for the formula document (.odf) what a typical file has exactly ONE of: further <semantics> blocks with
    their own StarMath annotation (formulas), further blocks whose annotation is a fraction `frac {a} {b}` (fracs), further
    annotations of one block in other encodings (encodings) - every annotation text distinct; every on/off feature and every variant of a choice feature as a document of its own: optional
    information absent at every level (OOXML without core-properties part - a generated OOXML document without "meta" has an
    EMPTY <cp:coreProperties/> -, ODF without meta.xml / with an empty <office:meta/>, e-mail without Date and Message-ID,
    attachments without file name, embedded message/rfc822), and the 8 forms of the PDF standard security handler (RC4-40,
    RC4-128, crypt filters /V2 /AESV2 /AESV3, each under the conventional filter name /StdCF and under another name) with empty
    and with non-empty user password - and (thorough) every pair of features with 5 instances each / every variant.
    PLACEMENT family (docx odt rtf html mhtml epub; flag "incell"): the hyperlink paragraphs / pictures / pictures with
    alternative text / lists of the document sit inside the cells of ONE table instead of directly in the body (nothing is
    anchored at body level - content a reader finds only by descending into containers, and collects by other code paths than
    body-level content): each of these features alone with 5 (thorough also 6, 8) instances + all of them together, 2 each
    (thorough also 3 each; thorough pairs every other feature with the flag).  ROLE family (odp; flag "clsnames": paragraph
    styles named TitleText / BodyText as presentation software names them - with the anonymous automatic names P1.. of the
    other odp documents every paragraph is "other" text and the title / body fields of a slide stay empty): a slide with every
    non-empty subset of {title, body, other} paragraphs, 2 each (thorough also 3 and 5 each) - 7 (21) documents.  A
    set-ordered collection of 5 distinct members has 120 orders, so an order dependence survives all seeds only by coincidence
    (stated, not exhaustive).

Space `configurations` (clauses hashseed / repeat / reuse-buffer / path-history / fresh-process / input-mutated).  Every configuration is a NEW interpreter
(subprocess, PYTHONHASHSEED in its start environment - os.environ changes after start have no effect on str hashing; the
worker reports hash("verif-c06") and the run fails as harness error unless the probes of different seeds differ; it also reports
where it would import the library from, and the run fails as harness error unless that is the tree the harness interpreter
judges - PYTHONPATH is handed on, so `PYTHONPATH=<tree> ./check C06` judges <tree> in EVERY process):
  hashseed       one process per PYTHONHASHSEED in {0..3} (quick) / {0..15} (thorough) extracts all of D (quick: 4 processes per
                 seed, each a quarter of D): sha256(json.dumps(to_json(), sort_keys=True)) must be the same for every seed
  repeat         the same document extracted a second time in the same process (new BytesIO over the same bytes) gives the same
                 to_json()
  reuse-buffer   ... and so does a third extraction that is handed the SAME BytesIO object again, exactly as the first
                 extraction left it (same bytes, same path: "repeating it in the same process" as a caller would)
  fresh-process  the result does not depend on what the process has extracted before.  Four process histories per document
                 must give the same to_json(): (a) the FIRST extraction of a new process (one process per document; quick: every
                 generated document whose counts are all <= 2, i.e. the empty and the rich document, every flag and every
                 variant document, the all-nested placement documents and the role documents - 112 today; thorough: every
                 document of D incl. the fixtures), (b) the seed-0 sweep process
                 (history: a part of D), (c) the WARM process - one new interpreter that extracts all of D once in canonical
                 order - at its first pass (history: the canonical prefix of D) and (d) at its second pass (history: all of D,
                 every format, every encryption form, every failing input).  reexec compares a new process with a warm process
                 that has extracted the quick universe.
  path-history   (seed-0 process of the sweep, every document that extracts) four more extractions of the same bytes in the same
                 process: with the path, with path=None, with ANOTHER path (other folder, other file name, same extension) and
                 with path=None again.  Every one of the four results, dumped again at the end, gives the to_json() it gave
                 right after its own extraction (no later extraction rewrites an earlier result - e.g. through a metadata
                 object shared between results), and the two path=None results agree (the paths seen before are not an input)
  input-mutated  the caller's BytesIO holds the same bytes afterwards (a closed buffer counts as lost content); the stream
                 position the library leaves behind is recorded, not judged
Space `histories` (clause history; explicit-state exploration).  Base observers: full_text, units (iterate_units + every
unit accessor: get_text, get_images + image accessors, get_tables, get_metadata, to_json), units_first (first unit only, iterator
abandoned), images (iterate_images + get_bytes().read() + accessors), tables, metadata, to_json, serialize
(serialize_extraction(result)), parts (every library object the result is made of - slides, sheets, images, metadata ...,
reached through dataclass fields / lists / dicts -: every public method that can be called without arguments, found by
reflection), attachments (iterate_supported_attachments; e-mail results only).
Accessor OPTIONS: the optional parameters of every interface method, of every accessor of a unit / image / table / metadata
object, of serialize_extraction and of every method of a part are discovered by reflection (inspect.signature) on the objects
of the document at hand; every parameter with an enumerable domain (bool default -> the other truth value; Optional[bool] -> True,
False) is an axis, and every combination of non-default values (<= 16 combinations, else one deviation at a time) is an observer
of its own, spelled base(param=value) - today full_text / units / units_first (include_image_captions=True) for PPTX results,
serialize(include_binary=False) for all, parts(options=True) = every part method with each of its non-default option sets
(PptxSlide.get_text(include_image_captions=True)).  The alphabet of a document is therefore 10 (11 for e-mail) base observers
+ its option variants (PPTX: 15); optional parameters without enumerable domain would be listed in the coverage and left at
their default (none today).  State =
canonical deep snapshot of the result list (dataclass fields, instance __dict__ extras, BytesIO content and position).  ALL
observer sequences of length <= 2 are executed explicitly from a fresh extraction (no state merging); length 3 (thorough):
every triple explicitly for the fixtures and the rich documents, for the other documents from every state first reached at
length 2 that is not the state of a shorter history (state merging).  Generated documents are re-extracted for every history;
fixtures (up to 100x slower to extract) start every history from a deep copy of one extraction whose snapshot equals the
original's - a failure found that way is re-judged by reexec() from real extractions before it is reported.  Oracle:
the value returned by the LAST observer of a history equals the value the same observer returns on a fresh result (this
includes to_json() unchanged, and idempotence o;o).  State changes that no observer can see (stream positions) are counted,
not judged.  Closure: when no new state appears at the last explored length, the reachable set is closed and the oracle
holds for histories of any length (as far as the snapshot captures the result's state).

A case is {"cfg": "seeds"|"repeat"|"reuse"|"paths"|"fresh"|"input"|"hist", "doc": spec, ["hist": [observer...]], ["where": abstract JSON
path at which the two values differ]}.  One failure is reported per (document, differing location), so that every shape
shrinks to the smallest document showing that one difference.
"""
from __future__ import annotations

import atexit
import hashlib
import json
import os
import random
import select
import shutil
import subprocess
import tempfile
import threading
from concurrent.futures import ThreadPoolExecutor

from verif.mc import pool as P
from verif.props import c06_docs as D
from verif.props import c06_obs as O

LEVEL = "model_checking"
ROOT = os.path.dirname(os.path.dirname(os.path.dirname(os.path.abspath(__file__))))
PY = "/venv/bin/python"
SEEDS = {"quick": [0, 1, 2, 3], "thorough": list(range(16))}
ALL_SEEDS = list(range(16))          # reexec (replay / shrinking) always uses the full seed set: fingerprints do not depend on the tier
DEPTH = {"quick": 2, "thorough": 3}
CLAUSE_OF = {"seeds": "hashseed", "repeat": "repeat", "reuse": "reuse-buffer", "paths": "path-history", "fresh": "fresh-process", "input": "input-mutated", "hist": "history"}


# ------------------------------------------------------------------------------------------- configuration processes

class Proc:
    """one interpreter with its own PYTHONHASHSEED, private cwd and TMPDIR"""

    def __init__(self, seed: int, base: str):
        self.seed = seed
        # every process compared with another one gets the SAME TMPDIR / cwd / HOME strings: only the hash seed (and the
        # process) differ between configurations
        for d in ("tmp", "cwd"):
            os.makedirs(os.path.join(base, d), exist_ok=True)
        # the configuration processes import the library from the SAME place as the harness interpreter (PYTHONPATH is inherited:
        # `PYTHONPATH=<tree> ./check C06` judges that tree in every process; the worker reports where it found the library)
        inherited = [p for p in os.environ.get("PYTHONPATH", "").split(os.pathsep) if p and p != ROOT]
        env = {"PYTHONHASHSEED": str(seed), "PYTHONPATH": os.pathsep.join([ROOT] + inherited), "TZ": "UTC", "LC_ALL": "C.UTF-8", "LANG": "C.UTF-8",
               "PYTHONDONTWRITEBYTECODE": "1", "SP2T_VERIF": "1", "TMPDIR": os.path.join(base, "tmp"),
               "PATH": os.environ.get("PATH", "/usr/bin:/bin"), "HOME": os.path.join(base, "cwd"), "PIP_NO_INDEX": "1"}
        self.p = subprocess.Popen([PY, "-B", "-m", "verif.props.c06_worker"], stdin=subprocess.PIPE, stdout=subprocess.PIPE,
                                  stderr=subprocess.DEVNULL, env=env, cwd=os.path.join(base, "cwd"))
        self.buf = b""
        self.lock = threading.Lock()

    def request(self, obj, timeout=900.0):
        with self.lock:
            self.p.stdin.write((json.dumps(obj) + "\n").encode())
            self.p.stdin.flush()
            fd = self.p.stdout.fileno()
            while b"\n" not in self.buf:
                r, _, _ = select.select([fd], [], [], timeout)
                if not r:
                    self.kill()
                    raise TimeoutError("configuration process seed=%d did not answer within %ss" % (self.seed, timeout))
                chunk = os.read(fd, 1 << 20)
                if not chunk:
                    raise RuntimeError("configuration process seed=%d died (exit %s)" % (self.seed, self.p.poll()))
                self.buf += chunk
            line, self.buf = self.buf.split(b"\n", 1)
            return json.loads(line)

    def kill(self):
        try:
            self.p.kill()
            self.p.wait(5)
        except Exception:
            pass

    def close(self):
        try:
            self.p.stdin.close()
            self.p.wait(5)
        except Exception:
            self.kill()


def _file_of(stage, spec):
    return os.path.join(stage, hashlib.sha1(D.spec_key(spec).encode()).hexdigest()[:20] + ".bin")


def _build_task(arg):
    """pool task: write the bytes of every spec of the chunk into the staging directory"""
    stage, specs = arg
    out = []
    for s in specs:
        try:
            data, name = D.build(s)
            with open(_file_of(stage, s), "wb") as f:
                f.write(data)
            out.append([D.spec_key(s), O._sha(data), None])
        except Exception as e:  # noqa
            out.append([D.spec_key(s), None, "%s: %s" % (type(e).__name__, e)])
    return out


def _sweep_one(seed, items, base, once=False, passes=1, paths=False):
    """one new interpreter: `passes` sweeps over `items` (once: every document extracted exactly once per pass).
    -> (seed, hello, results of the last pass, error, results of the earlier passes)"""
    p = Proc(seed, base)
    try:
        hello = p.request({"op": "hello"}, 120)
        earlier = []
        for _ in range(passes):
            ans = p.request({"op": "sweep", "items": items, "once": int(once), "paths": int(paths)}, 3000)
            earlier.append(ans["results"])
        return seed, hello, earlier.pop(), None, earlier
    except Exception as e:  # noqa
        return seed, None, [], "%s: %s" % (type(e).__name__, e), []
    finally:
        p.close()


# persistent processes for reexec / diff location (one per seed), started lazily
_RX = {"base": None, "procs": {}, "lock": threading.Lock()}


def _rx_base():
    if _RX["base"] is None:
        _RX["base"] = tempfile.mkdtemp(prefix="verif-c06-rx-")
        atexit.register(_rx_close)
    return _RX["base"]


def _rx_close():
    for p in list(_RX["procs"].values()):
        p.close()
    _RX["procs"].clear()
    if _RX["base"]:
        shutil.rmtree(_RX["base"], ignore_errors=True)
        _RX["base"] = None


def _rx_proc(seed):
    with _RX["lock"]:
        base = _rx_base()
        p = _RX["procs"].get(seed)
        if p is None or p.p.poll() is not None:
            p = Proc(seed, base)
            _RX["procs"][seed] = p
        return p


def _rx_warm():
    """the persistent WARM process of reexec (PYTHONHASHSEED=0): a new interpreter that has extracted every document of the
    quick universe once, in canonical order, before it is asked anything (the same warm-up whatever the tier: fingerprints and
    replays do not depend on the tier)"""
    with _RX["lock"]:
        base = _rx_base()
        p = _RX["procs"].get("warm")
        if p is not None and p.p.poll() is None:
            return p
        items = []
        for spec in D.universe("quick"):
            path, name, _ = _stage_spec(spec)
            items.append([D.spec_key(spec), path, name])
        p = Proc(0, base)
        p.request({"op": "sweep", "items": items, "once": 1}, 3000)
        _RX["procs"]["warm"] = p
        return p


def _rx_json(seeds, path, name):
    """{seed: answer of op json} from the persistent processes, in parallel"""
    procs = [_rx_proc(s) for s in seeds]
    out = {}

    def one(p):
        try:
            out[p.seed] = p.request({"op": "json", "file": path, "name": name}, 300)
        except Exception as e:  # noqa
            out[p.seed] = {"exc": "harness:" + type(e).__name__}
            p.kill()
    with ThreadPoolExecutor(max_workers=len(procs)) as ex:
        list(ex.map(one, procs))
    return out


def _value(ans):
    return ans["json"] if "json" in ans else {"$raises": ans.get("exc")}


def _stage_spec(spec):
    base = _rx_base()
    data, name = D.build(spec)
    path = os.path.join(base, "doc-%s.bin" % hashlib.sha1(D.spec_key(spec).encode()).hexdigest()[:20])
    if not os.path.exists(path):
        with open(path + ".tmp", "wb") as f:
            f.write(data)
        os.replace(path + ".tmp", path)
    return path, name, data


# ----------------------------------------------------------------------------------------------------------- oracles

def check_seeds(spec, seeds=ALL_SEEDS):
    """-> {where: message}: locations at which to_json() differs between hash seeds"""
    path, name, _ = _stage_spec(spec)
    ans = _rx_json(seeds, path, name)
    ref_seed = seeds[0]
    ref = _value(ans[ref_seed])
    out = {}
    for s in seeds[1:]:
        v = _value(ans[s])
        if v == ref:
            continue
        for w in O.where_set(ref, v):
            if w not in out:
                a, b = O.first_diff(ref, v, w)
                out[w] = (f"to_json() of {D.spec_key(spec)} differs at {w} between PYTHONHASHSEED={ref_seed} and PYTHONHASHSEED={s}: "
                          f"{a} vs {b}")
    return out


def check_repeat(spec, seed=0):
    """-> {where: message}: first vs second extraction in one process"""
    path, name, _ = _stage_spec(spec)
    p = _rx_proc(seed)
    a = _value(p.request({"op": "json", "file": path, "name": name}, 300))
    b = _value(p.request({"op": "json", "file": path, "name": name}, 300))
    out = {}
    for w in O.where_set(a, b):
        x, y = O.first_diff(a, b, w)
        out[w] = f"two extractions of {D.spec_key(spec)} in the same process (PYTHONHASHSEED={seed}) differ at {w}: {x} vs {y}"
    return out


def check_reuse(spec, seed=0):
    """-> {where: message}: extraction vs extraction that gets the same buffer object again (as the library left it)"""
    path, name, _ = _stage_spec(spec)
    p = _rx_proc(seed)
    a = _value(p.request({"op": "json", "file": path, "name": name}, 300))
    b = _value(p.request({"op": "json", "file": path, "name": name, "reuse": 1}, 300))
    out = {}
    for w in O.where_set(a, b):
        x, y = O.first_diff(a, b, w)
        out[w] = (f"{D.spec_key(spec)}: extracting again from the SAME BytesIO object (same bytes, left as the first extraction left it) "
                  f"differs at {w}: first {x}, again {y}")
    return out


def check_paths(spec, seed=0):
    """-> {where: message}: path histories in one process (worker op `paths`): extraction with the path, with path=None, with another
    path and with path=None again; every earlier result must still dump what it dumped, the two path=None results must agree"""
    path, name, _ = _stage_spec(spec)
    ans = _rx_proc(seed).request({"op": "paths", "file": path, "name": name}, 600)
    out = {}
    for lab, a, b in ans.get("bad", []):
        for w in O.where_set(a, b):
            x, y = O.first_diff(a, b, w)
            what = ("the result of an EARLIER extraction (%s) changed after later extractions of the same bytes with other paths" % lab.split(":")[1]
                    if lab.startswith("earlier") else "extraction with path=None before and after an extraction with another path")
            out.setdefault(w, f"{D.spec_key(spec)}: {what} differs at {w}: {x} vs {y}")
    return out


def check_fresh(spec, seed=0):
    """-> {where: message}: first extraction of a new process vs extraction in a process of the same seed that has extracted
    every document of the quick universe before (the warm process)"""
    path, name, _ = _stage_spec(spec)
    old = _value(_rx_warm().request({"op": "json", "file": path, "name": name}, 300))
    p = Proc(seed, _rx_base())
    try:
        new = _value(p.request({"op": "json", "file": path, "name": name}, 300))
    finally:
        p.close()
    out = {}
    for w in O.where_set(old, new):
        x, y = O.first_diff(old, new, w)
        out[w] = (f"the first extraction of a new process differs at {w} from the extraction of the same bytes in a process that has "
                  f"extracted all documents of the universe before ({D.spec_key(spec)}): new process {y}, warm process {x}")
    return out


def check_input(spec):
    """in-process (the harness interpreter): the caller's buffer after extraction"""
    import io
    data, name = D.build(spec)
    buf = io.BytesIO(data)
    try:
        O.extract(data, name, buf)
    except Exception:  # noqa
        pass
    try:
        after = buf.getvalue()
    except ValueError:
        return "the caller's BytesIO was closed by the extraction: its content is gone"
    if after != data:
        return f"the caller's BytesIO content changed: {len(data)} bytes before, {len(after)} bytes after (equal prefix {os.path.commonprefix([data, after]).__len__()})"
    return None


def run_history(data, name, hist):
    """fresh extraction, then the observers of `hist` in order -> (value of the last observer, state key afterwards)"""
    res = O.extract(data, name)
    v = None
    for o in hist:
        v = O.observe(o, res)
    return v, O.state_key(res)


def check_history(spec, hist):
    """-> {where: message}"""
    data, name = D.build(spec)
    try:
        fresh, _ = run_history(data, name, hist[-1:])
        after, _ = run_history(data, name, hist)
    except Exception as e:  # noqa
        return {}
    out = {}
    for w in O.where_set(fresh, after):
        x, y = O.first_diff(fresh, after, w)
        out[w] = (f"{D.spec_key(spec)}: after {hist[:-1]} the observer {hist[-1]} returns a different value at {w} than on a fresh "
                  f"result: fresh {x}, after the history {y}")
    return out


def reexec(fmt, case):
    cfg = case.get("cfg")
    clause = CLAUSE_OF.get(cfg)
    spec = case["doc"]
    if cfg == "input":
        m = check_input(spec)
        return [(clause, m)] if m else []
    if cfg == "seeds":
        found = check_seeds(spec)
    elif cfg == "repeat":
        found = check_repeat(spec)
    elif cfg == "fresh":
        found = check_fresh(spec)
    elif cfg == "reuse":
        found = check_reuse(spec)
    elif cfg == "paths":
        found = check_paths(spec)
    elif cfg == "hist":
        found = check_history(spec, case["hist"])
    else:
        return []
    w = case.get("where")
    if w is None:
        return [(clause, m) for _, m in sorted(found.items())][:1]
    return [(clause, found[w])] if w in found else []


def shrinks(case):
    if case.get("cfg") == "hist":
        h = case["hist"]
        for i in range(len(h) - 1):
            c = dict(case)
            c["hist"] = h[:i] + h[i + 1:]
            if len(c["hist"]) >= 2:
                yield c
    for s in D.shrink_spec(case["doc"]):
        c = dict(case)
        c["doc"] = s
        yield c


def _subseq(small, big):
    it = iter(big)
    return all(any(x == y for y in it) for x in small)


def embeds(small, big):
    if small.get("cfg") != big.get("cfg"):
        return False
    if small.get("cfg") == "hist":
        # the finding is "this observer prefix changes what later observers return on this kind of document"
        return _subseq(small["hist"][:-1], big["hist"][:-1]) and D.spec_embeds(small["doc"], big["doc"])
    if small.get("where") != big.get("where"):
        return False
    return D.spec_embeds(small["doc"], big["doc"])


def fingerprint_view(case):
    if case.get("cfg") == "hist":
        return {"cfg": "hist", "doc": case["doc"], "mutator": case["hist"][:-1]}
    return {"cfg": case.get("cfg"), "doc": case["doc"], "where": case.get("where")}


# --------------------------------------------------------------------------------------------------------- histories

def explore(data, name, depth, replay="extract", explicit3=False):
    """explicit-state exploration of one document -> dict(states, trans, closed, fails=[(hist, where, msg)], ...).
    replay = "extract": every history starts from a new extraction of the bytes (generated documents);
    replay = "copy": every history starts from a deep copy of ONE extraction (fixtures, whose extraction is up to 100x slower);
    the copy is accepted only if its state snapshot equals the original's, and every failure found this way is re-judged
    from real extractions by reexec() before it is reported."""
    import copy
    try:
        res0 = O.extract(data, name)
    except Exception as e:  # noqa
        return {"states": 0, "trans": 0, "closed": True, "fails": [], "outcome": "refused:" + type(e).__name__, "hidden": 0, "alpha": []}
    alpha = O.alphabet_for(res0)
    s0 = O.state_key(res0)
    if O.state_key(O.extract(data, name)) != s0:
        # two extractions in one process differ: clause `repeat` reports it; histories have no reference
        return {"states": 1, "trans": 0, "closed": False, "fails": [], "outcome": "unstable-extraction", "hidden": 0, "alpha": alpha}
    if replay == "copy":
        try:
            if O.state_key(copy.deepcopy(res0)) != s0:
                replay = "extract"
        except Exception:  # noqa
            replay = "extract"

    def fresh():
        return copy.deepcopy(res0) if replay == "copy" else O.extract(data, name)
    seen = {s0: []}
    ret0 = {}
    fails = []
    trans = 0
    hidden = 0            # transitions that change the state (stream positions, caches ...) - judged through return values only
    new_at = {1: [], 2: [], 3: []}

    def step(hist):
        """execute hist from a fresh result; judge the last observer; -> state key afterwards"""
        nonlocal trans, hidden
        res = fresh()
        v = None
        for o in hist:
            v = O.observe(o, res)
        s = O.state_key(res)
        trans += 1
        last = hist[-1]
        if len(hist) == 1:
            ret0[last] = v
            if s != s0:
                hidden += 1
        elif v != ret0[last]:
            for w in O.where_set(ret0[last], v):
                x, y = O.first_diff(ret0[last], v, w)
                fails.append((hist, w, f"after {hist[:-1]} the observer {last} returns a different value at {w} than on a fresh "
                                       f"result: fresh {x}, after the history {y}"))
        if s not in seen:
            seen[s] = hist
            new_at[len(hist)].append(hist)
        return s
    for o in alpha:
        step([o])
    for o1 in alpha:            # length 2: every pair, no state merging
        for o2 in alpha:
            step([o1, o2])
    last_new = new_at[2]
    if depth >= 3:
        # length 3: from every state first reached at length 2 (state merging); explicit3: every triple, no state merging
        for p in ([[a, b] for a in alpha for b in alpha] if explicit3 else list(new_at[2])):
            for o3 in alpha:
                step(p + [o3])
        last_new = new_at[3]
    return {"states": len(seen), "trans": trans, "closed": not last_new, "fails": fails, "hidden": hidden, "replay": replay,
            "alpha": alpha, "unenumerated": sorted(O.UNENUMERATED),
            "outcome": "states=%d new=%d/%d/%d" % (len(seen), len(new_at[1]), len(new_at[2]), len(new_at[3]))}


class _CpuBudget(BaseException):
    pass


def _cpu_alarm(signum, frame):
    raise _CpuBudget()


def _hist_task(arg):
    import signal
    specs, depth = arg
    out = []
    signal.signal(signal.SIGPROF, _cpu_alarm)
    for spec in specs:
        P.note(D.spec_key(spec))
        try:
            data, name = D.build(spec)
            signal.setitimer(signal.ITIMER_PROF, 400)       # CPU seconds of this worker (the machine is shared: wall time is not a measure)
            try:
                r = explore(data, name, depth, "copy" if "fix" in spec else "extract",
                            explicit3="fix" in spec or spec == D.rich_spec(spec["gen"], 2))
            finally:
                signal.setitimer(signal.ITIMER_PROF, 0)
        except _CpuBudget:
            r = {"error": "history exploration exceeded 400 CPU seconds"}
        except Exception as e:  # noqa
            r = {"error": "%s: %s" % (type(e).__name__, e)}
        r["key"] = D.spec_key(spec)
        out.append(r)
    return out


# --------------------------------------------------------------------------------------------------------------- run

def _chunks(xs, n):
    return [xs[i::n] for i in range(n)]


def run(ctx):
    tier = ctx.tier
    seeds = SEEDS[tier]
    specs = D.universe(tier)
    by_key = {D.spec_key(s): s for s in specs}
    herr, fails = [], []
    stage = tempfile.mkdtemp(prefix="verif-c06-stage-")
    try:
        return _run(ctx, tier, seeds, specs, by_key, herr, fails, stage)
    finally:
        shutil.rmtree(stage, ignore_errors=True)
        _rx_close()


def _t(label, t0=[None]):
    import sys
    import time
    if os.environ.get("VERIF_C06_TIMING"):
        now = time.time()
        print("[c06 %6.1fs] %s" % (now - (t0[0] or now), label), file=sys.stderr)
        if t0[0] is None:
            t0[0] = now


def _run(ctx, tier, seeds, specs, by_key, herr, fails, stage):
    ncpu = ctx.ncpu
    _t("start")
    # 1. stage the bytes of every document once (in the harness configuration), so that every configuration sees the same input
    res = P.run_all("verif.props.C06", "_build_task", [(stage, c) for c in _chunks(specs, ncpu * 2)], n=ncpu, hard_timeout=600)
    insha = {}
    for st, r, _ in res:
        if st != "done":
            herr.append(f"staging failed: {st}: {str(r)[-400:]}")
            continue
        for key, sha, err in r:
            if err:
                herr.append(f"document {key} cannot be built: {err}")
            insha[key] = sha
    if herr:
        return {"coverage": {}, "failures": [], "harness_errors": herr, "assumptions": []}
    items = [[D.spec_key(s), _file_of(stage, s), D.name_of(s)] for s in specs]
    _t("staged")

    # 2. history exploration (pool, driven from a thread) runs while the configuration processes are driven from this thread
    depth = DEPTH[tier]
    hargs = [(c, depth) for c in _chunks(specs, ncpu * 6) if c]
    random.Random(ctx.seed).shuffle(hargs)
    hist_out = {}

    def hist_job():
        try:
            hist_out["res"] = P.run_all("verif.props.C06", "_hist_task", hargs, n=ncpu, hard_timeout=3000)
        except Exception as e:  # noqa
            hist_out["err"] = "%s: %s" % (type(e).__name__, e)
    ht = threading.Thread(target=hist_job)
    ht.start()

    # 3. configuration processes
    base = tempfile.mkdtemp(prefix="verif-c06-cfg-")
    nchunk = max(1, ncpu // len(seeds))
    jobs = [(s, c) for s in seeds for c in _chunks(items, nchunk) if c]
    fresh_specs = [s for s in specs if tier != "quick" or ("gen" in s and all(v <= 2 or k in D.CHOICES for k, v in (s.get("n") or {}).items()))]
    fresh_jobs = [(0, [[D.spec_key(s), _file_of(stage, s), D.name_of(s)]]) for s in fresh_specs]
    with ThreadPoolExecutor(max_workers=ncpu) as ex:
        # the warm process: ONE new interpreter (seed 0) extracts all of D once in canonical order, then all of D once more
        warm_f = ex.submit(_sweep_one, 0, items, base, True, 2)
        sweep = list(ex.map(lambda j: _sweep_one(j[0], j[1], base, paths=(j[0] == seeds[0])), jobs))
        _t("sweep done")
        fresh = list(ex.map(lambda j: _sweep_one(j[0], j[1], base, True), fresh_jobs))
        warm = warm_f.result()
    shutil.rmtree(base, ignore_errors=True)
    _t("fresh done")
    ht.join()
    if "err" in hist_out:
        herr.append("history exploration: " + hist_out["err"])
    _t("histories done")

    # ---- judge the configurations
    probes = {}
    recs = {}           # key -> seed -> rec
    library = O.library_location()
    for seed, hello, results, err, _ in list(fresh) + [warm]:
        if not err and hello.get("library") != library:
            herr.append(f"a configuration process would import the library from {hello.get('library')}, the harness from {library}")
            break
    for seed, hello, results, err, _ in sweep:
        if err:
            herr.append(f"configuration process PYTHONHASHSEED={seed}: {err}")
            continue
        if str(hello.get("hashseed")) != str(seed):
            herr.append(f"configuration process reports PYTHONHASHSEED={hello.get('hashseed')} instead of {seed}")
        if hello.get("library") != library:
            herr.append(f"configuration process PYTHONHASHSEED={seed} would import the library from {hello.get('library')}, the harness "
                        f"judges {library}")
        probes.setdefault(seed, set()).add(hello["probe"])
        for r in results:
            recs.setdefault(r["id"], {})[seed] = r
    if len({tuple(sorted(v)) for v in probes.values()}) != len(probes) or any(len(v) != 1 for v in probes.values()):
        herr.append(f"hash seeds are not in effect: probes {probes}")
    evaluations = 0
    positions = {"start": 0, "end": 0, "other": 0, "closed": 0}
    seed_classes = {}
    outcomes = set()
    for key in sorted(by_key):
        spec = by_key[key]
        fmt = D.fmt_of(spec)
        rs = recs.get(key, {})
        if len(rs) != len(seeds):
            herr.append(f"document {key} was extracted under {sorted(rs)} only")
            continue
        if any(r["in"] != insha[key] for r in rs.values()):
            herr.append(f"document {key}: configurations did not read the same input bytes")
            continue
        evaluations += 3 * len(rs) + (4 if str(rs.get(seeds[0], {}).get("d1", "")).startswith("ok:") else 0)      # + the path history
        ds = {s: r["d1"] for s, r in rs.items()}
        if any(d == "timeout" for d in ds.values()):
            herr.append(f"document {key}: extraction exceeded 120 s")
            continue
        for r in rs.values():
            if r["pos"] is None:
                positions["closed"] += 1
            else:
                positions["start" if r["pos"] == 0 else ("end" if r["pos"] == int(insha[key].split(":")[0]) else "other")] += 1
        seed_classes[key] = len(set(ds.values()))
        outcomes.add((fmt, "cfg", ds[seeds[0]].split(":")[0], min(rs[seeds[0]]["n"], 3), len(set(ds.values())) > 1))
        if len(set(ds.values())) > 1:
            found = check_seeds(spec, seeds)
            if not found:
                fails.append(("hashseed", fmt, {"cfg": "seeds", "doc": spec, "where": None},
                              f"{key}: digests differ between seeds in the sweep ({ds}) but not when the document is extracted again"))
            for w, m in sorted(found.items()):
                fails.append(("hashseed", fmt, {"cfg": "seeds", "doc": spec, "where": w}, m))
        if any(r["d1"] != r["d2"] for r in rs.values()):
            found = check_repeat(spec, min(s for s, r in rs.items() if r["d1"] != r["d2"]))
            for w, m in sorted(found.items()):
                fails.append(("repeat", fmt, {"cfg": "repeat", "doc": spec, "where": w}, m))
            if not found:
                fails.append(("repeat", fmt, {"cfg": "repeat", "doc": spec, "where": None},
                              f"{key}: first and second extraction differed in the sweep but not when repeated"))
        if any(r["d3"] != r["d1"] for r in rs.values()):
            found = check_reuse(spec, min(s for s, r in rs.items() if r["d3"] != r["d1"]))
            for w, m in sorted(found.items()):
                fails.append(("reuse-buffer", fmt, {"cfg": "reuse", "doc": spec, "where": w}, m))
            if not found:
                fails.append(("reuse-buffer", fmt, {"cfg": "reuse", "doc": spec, "where": None},
                              f"{key}: extraction from the re-used buffer differed in the sweep but not when repeated"))
        if any(r.get("dp") for r in rs.values()):
            found = check_paths(spec, min(s for s, r in rs.items() if r.get("dp")))
            for w, m in sorted(found.items()):
                fails.append(("path-history", fmt, {"cfg": "paths", "doc": spec, "where": w}, m))
            if not found:
                fails.append(("path-history", fmt, {"cfg": "paths", "doc": spec, "where": None},
                              f"{key}: a path history differed in the sweep ({[r.get('dp') for r in rs.values()]}) but not when repeated"))
        if any(r["mut"] for r in rs.values()):
            m = check_input(spec) or f"{key}: the caller's buffer was changed in a configuration process ({[r['mut'] for r in rs.values()]})"
            fails.append(("input-mutated", fmt, {"cfg": "input", "doc": spec}, m))
    # fresh-process: the digests of one document in {its own new process, the seed-0 sweep process (history: a part of D),
    # the warm process at its first pass (history: the canonical prefix of D) and at its second pass (history: all of D)}
    nfresh = nwarm = 0
    hist_digests = {}          # key -> {label: digest}
    for seed, hello, results, err, _ in fresh:
        if err:
            herr.append(f"fresh process: {err}")
            continue
        for r in results:
            nfresh += 1
            evaluations += 1
            hist_digests.setdefault(r["id"], {})["new process"] = r["d1"]
    if warm[3]:
        herr.append(f"warm process: {warm[3]}")
    else:
        for label, results in (("warm process, first pass", warm[4][0]), ("warm process, second pass", warm[2])):
            if len(results) != len(specs):
                herr.append(f"{label}: {len(results)} of {len(specs)} documents extracted")
            for r in results:
                nwarm += 1
                evaluations += 1
                if r["d1"] == "timeout":
                    herr.append(f"document {r['id']}: extraction exceeded 120 s in the warm process")
                    continue
                hist_digests.setdefault(r["id"], {})[label] = r["d1"]
    for key in sorted(hist_digests):
        spec = by_key[key]
        base_d = recs.get(key, {}).get(0, {}).get("d1")
        ds = hist_digests[key]
        if base_d is not None and any(d != base_d for d in ds.values()):
            outcomes.add((D.fmt_of(spec), "process-history", tuple(sorted(k for k, d in ds.items() if d != base_d))))
            found = check_fresh(spec)
            for w, m in sorted(found.items()):
                fails.append(("fresh-process", D.fmt_of(spec), {"cfg": "fresh", "doc": spec, "where": w}, m))
            if not found:
                fails.append(("fresh-process", D.fmt_of(spec), {"cfg": "fresh", "doc": spec, "where": None},
                              f"{key}: the seed-0 sweep process gave {base_d}, but {ds}; not reproduced by a new process against "
                              "the warm process of reexec"))

    _t("configurations judged")
    # ---- judge the histories
    states = trans = closed = closed_clean = hidden_t = explored = refused = 0
    samples = []
    observers, unenumerated = [], set()
    sample_keys = {"gen:pptx:altimgs=5", D.spec_key(D.rich_spec("docx", 2)), "gen:odt:images=5", "gen:eml:atts=5", "fix:pdf/sample.pdf", "gen:7z:members=5",
                   "gen:xlsx:rows=5"}
    for (st, r, note), a in zip(hist_out.get("res", []), hargs):
        if st != "done":
            herr.append(f"history partition failed ({st}) at {note}: {str(r)[-400:]}")
            continue
        for d in r:
            if "error" in d:
                herr.append(f"history exploration of {d['key']}: {d['error']}")
                continue
            spec = by_key[d["key"]]
            fmt = D.fmt_of(spec)
            states += d["states"]
            trans += d["trans"]
            hidden_t += d["hidden"]
            if d["outcome"].startswith("refused"):
                refused += 1
            else:
                explored += 1
            closed += 1 if d["closed"] else 0
            observers.extend(o for o in d.get("alpha", []) if o not in observers)
            unenumerated.update(d.get("unenumerated", []))
            outcomes.add((fmt, "hist", d["outcome"], bool(d["fails"])))
            for hist, w, m in d["fails"]:
                fails.append(("history", fmt, {"cfg": "hist", "doc": spec, "hist": hist, "where": w}, f"{d['key']}: {m}"))
            if d["key"] in sample_keys:
                samples.append({"doc": d["key"], "history_outcome": d["outcome"], "transitions": d["trans"], "closed": d["closed"],
                                "failing_histories": sorted({" ; ".join(h) for h, _, _ in d["fails"]})[:4],
                                "digest_per_seed": {str(s): r_["d1"] for s, r_ in sorted(recs.get(d["key"], {}).items())}})
            if d["closed"] and not d["fails"]:
                closed_clean += 1
    evaluations += trans
    cov = {"evaluations": evaluations, "distinct_nontrivial": len(outcomes), "exhaustive": True,
           "states": states, "transitions": trans, "traces_validated_against_impl": trans,
           "documents": len(specs), "fixtures": sum(1 for s in specs if "fix" in s), "generated": sum(1 for s in specs if "gen" in s),
           "placement_documents_content_inside_table_cells": sum(1 for s in specs if (s.get("n") or {}).get("incell")),
           "role_documents_odp_title_body_other_subsets": sum(1 for s in specs if (s.get("n") or {}).get("clsnames")),
           "hash_seeds": seeds, "hash_probe_values_distinct": len({tuple(v) for v in probes.values()}),
           "configuration_processes": len(jobs) + len(fresh_jobs) + 1, "fresh_process_documents": nfresh,
           "warm_process_extractions": nwarm, "library_judged_in_every_process": library,
           "documents_with_seed_dependent_json": sum(1 for v in seed_classes.values() if v > 1),
           "input_position_after_extraction": positions,
           "history_depth": depth, "observers": sorted(observers, key=lambda o: (O.ALPHABET.index(O.parse_obs(o)[0]), o)),
           "base_observers": O.ALPHABET, "observer_options_discovered_by_reflection": sorted(o for o in observers if "(" in o),
           "optional_parameters_not_enumerable_left_at_default": sorted(unenumerated), "documents_explored": explored, "documents_refused_by_library": refused,
           "documents_closed": closed, "state_changing_transitions_not_visible_to_observers_or_judged_by_value": hidden_t,
           "documents_closed_without_history_failure": closed_clean,
           "closure": (f"{closed} of {explored + refused} documents: no new state appears at history length {depth}, i.e. every state "
                       f"reachable by any observer sequence was reached by a history of length < {depth} and all its observer "
                       f"successors were executed; for the {closed_clean} of them without a failing history every observer returns its "
                       "fresh-result value from every reachable state, so the history oracle holds for histories of ANY length (modulo "
                       "state outside the result objects)"),
           "samples": sorted(samples, key=lambda s: s["doc"]),
           "rule": "D = all fixtures + per generated format {empty, rich x2[, x3], each feature x5[,6,8], [pairs x5]} + placement family (docx odt rtf html mhtml epub: links / images / altimgs / lists INSIDE table cells, each x5[,6,8] + all x2[,3]) + role family (odp with role-named styles: every non-empty subset of {title, body, other} paragraphs x2[,3,5]); configurations = one "
                   "new interpreter per PYTHONHASHSEED over all of D (+ second extraction in the same process, + third extraction from the re-used buffer, + caller buffer compared) "
                   "; fresh-process: one new interpreter per document with counts <= 2 (thorough: per document) + one warm interpreter extracting all of D twice, once each; histories = observers: base observers + one per non-default value combination of the optional (bool) parameters found by reflection on the interface methods, serialize_extraction and the methods of the result's parts; all observer sequences of length <= 2 executed from a "
                   "fresh result (generated: new extraction, fixtures: verified deep copy), length 3 (thorough): all triples for fixtures and rich documents, else from states first reached at length 2; states = distinct canonical snapshots reached "
                   "(summed over documents), transitions = observer applications judged; distinct_nontrivial = distinct (format, "
                   "result kind, seed-dependence, state-graph shape, failing) classes"}
    assumptions = [
        "values json cannot carry (dates, durations, decimals in spreadsheet cells) are compared through repr(): JSON-serialisability is C05's business",
        "dict key order inside to_json() is not judged (sort_keys=True; dict equality ignores it); list order is",
        "the path argument never names an existing file; metadata derived from the file system is outside (bytes, path)",
        "the stream position of the caller's buffer after extraction is recorded, not judged (the statement speaks of its content); a closed buffer is reported as lost content",
        "reuse-buffer reads 'pure function of (bytes, path)' as: the result does not depend on where an earlier extraction left the stream position of the same buffer",
        "every configuration process gets the same TMPDIR / cwd / HOME strings, so that only hash seed and process identity differ between the compared runs",
        "every configuration process imports the library from the tree the harness interpreter imports it from (PYTHONPATH handed on; the worker's report is verified)",
        "process histories are 4 per document (new process, part of D, prefix of D, all of D), not all orderings of D: ordered pairs of extractions are C15's history space",
        "encrypted PDFs are written by verif.gen.pdfw with the independent AES of verif.ref.aes; IVs / salts are derived from the content, so the bytes are a function of the spec",
        "fixture histories start from a deep copy of one extraction (snapshot-checked); reported failures are re-judged from real extractions",
        "state changes no observer can see (BytesIO positions inside the result) are counted, not judged",
        "documents the library refuses (encrypted / unsupported fixtures) only take part in the configuration clauses (same exception type everywhere)",
        "when two extractions in one process already differ (clause repeat) the histories of that document have no reference and are skipped",
        "16 hash seeds are a finite configuration set, not all 2^32: collections are built with >= 5 distinct members so that an order dependence shows up under some seed",
        "module-level caches of the library are outside the state snapshot; all histories of length <= 2 are therefore executed without state merging",
    ]
    return {"coverage": cov, "failures": fails, "harness_errors": herr, "assumptions": assumptions}
