"""C11 - ZIP-container bomb guard decides exactly and runs before any member is read.

(a) predicate: validate_zipfile on synthetic ZipInfo vectors x limit lattice vs an exact-rational reference;
    validate_zip_bytesio keeps the caller's stream position.
(b) real containers: minimal documents of the 9 ZIP-container formats with one forged central-directory entry placed
    at each default threshold -1/0/+1 (single size, entry ratio, total ratio, zero compressed size, entry count) and
    honest high-ratio members; outcome ZipBomb error <=> reference predicate on the real infolist.
(c) ordering: harness-side monitor around zipfile.ZipFile / validate_zipfile: every ZipFile whose members are read
    was preceded, in the same extraction call, by a successful validation of a ZipFile over the same bytes.
"""
from __future__ import annotations

import hashlib
import io
import itertools
import os
import random
import zipfile
from fractions import Fraction

from verif.mc import pool as P

LEVEL = "exploration"
FORMATS = ["docx", "pptx", "xlsx", "odt", "odp", "ods", "odg", "odf", "epub"]


# ------------------------------------------------------------------ reference predicate

def ref_is_bomb(entries, lim):
    """entries: list of (file_size, compress_size, is_dir); lim: dict of the five limits. Exact rationals."""
    if len(entries) > lim["max_entries"]:
        return True
    tu = tc = 0
    for fs, cs, isdir in entries:
        if isdir:
            continue
        if fs > lim["max_single_uncompressed_bytes"]:
            return True
        if fs > 0:
            if cs <= 0:
                return True
            if Fraction(fs, cs) > Fraction(lim["max_entry_compression_ratio"]):
                return True
        tu += fs
        tc += cs
    if tu > lim["max_total_uncompressed_bytes"]:
        return True
    if tu > 0:
        if tc <= 0:
            return True
        if Fraction(tu, tc) > Fraction(lim["max_total_compression_ratio"]):
            return True
    return False


class _Info:
    __slots__ = ("file_size", "compress_size", "filename", "_d", "external_attr")

    def __init__(self, fs, cs, isdir, i):
        self.file_size = fs
        self.compress_size = cs
        self._d = isdir
        # a directory is what zipfile says it is (name ends in "/"); the MS-DOS directory attribute alone does not make a
        # member a directory - zipfile would still inflate it. Odd positions carry the bit on *files* to show it is ignored.
        self.external_attr = 0x10 if (isdir or i % 2 == 1) else 0
        self.filename = f"m{i}/" if isdir else f"m{i}.xml"

    def is_dir(self):
        return self._d


class _ZF:
    def __init__(self, infos):
        self._i = infos

    def infolist(self):
        return self._i


LIMIT_LATTICE = {"max_entries": (2, 3), "max_total_uncompressed_bytes": (10, 11), "max_single_uncompressed_bytes": (6, 7),
                 "max_total_compression_ratio": (2.0, 3.0), "max_entry_compression_ratio": (3.0, 4.0)}
FILE_SIZES = [0, 1, 3, 5, 6, 7, 8, 10, 11, 12]
COMP_SIZES = [0, 1, 2, 3]
ENTRY_ALPHA = [(fs, cs, False) for fs in FILE_SIZES for cs in COMP_SIZES] + [(0, 0, True), (12, 0, True), (99, 1, True)]


def predicate_part(arg):
    k, n, tier = arg
    from sharepoint2text.parsing.exceptions import ExtractionZipBombError
    from sharepoint2text.parsing.extractors.util.zip_bomb import ZipBombLimits, validate_zipfile
    ev = 0
    fails = []
    outs = {"accept": 0, "reject": 0}
    maxlen = 3
    idx = 0
    lims = [dict(zip(LIMIT_LATTICE, vals)) for vals in itertools.product(*LIMIT_LATTICE.values())]
    for L in range(0, maxlen + 1):
        for vec in itertools.product(ENTRY_ALPHA, repeat=L):
            idx += 1
            if idx % n != k:
                continue
            infos = [_Info(fs, cs, d, i) for i, (fs, cs, d) in enumerate(vec)]
            for lim in lims:
                ev += 1
                exp = ref_is_bomb(vec, lim)
                try:
                    validate_zipfile(_ZF(infos), limits=ZipBombLimits(**lim))
                    got = False
                except ExtractionZipBombError:
                    got = True
                except Exception as e:  # noqa
                    fails.append(("raises", "predicate", {"entries": [list(v) for v in vec], "limits": lim}, f"{type(e).__name__}: {e}"))
                    continue
                outs["reject" if got else "accept"] += 1
                if got != exp:
                    fails.append(("predicate", "predicate", {"entries": [list(v) for v in vec], "limits": lim},
                                  f"entries {vec} limits {lim}: rejected={got}, reference says bomb={exp}"))
    # entry-count boundary without directories (whether directories count is not settled by the statement)
    if k == 0:
        for lim in lims:
            for cnt in (lim["max_entries"] - 1, lim["max_entries"], lim["max_entries"] + 1, lim["max_entries"] + 2):
                vec = [(1, 1, False)] * cnt
                ev += 1
                exp = ref_is_bomb(vec, lim)
                try:
                    validate_zipfile(_ZF([_Info(1, 1, False, i) for i in range(cnt)]), limits=ZipBombLimits(**lim))
                    got = False
                except ExtractionZipBombError:
                    got = True
                if got != exp:
                    fails.append(("predicate", "predicate", {"entries": [list(v) for v in vec], "limits": lim}, f"{cnt} entries, limits {lim}: rejected={got}, reference {exp}"))
    return {"ev": ev, "fails": fails[:5000], "outs": outs}


# ------------------------------------------------------------------ real containers

def minimal(fmt):
    from verif.gen import htmlfam, odf, ooxml
    doc = ["doc", {"title": "Tt"}, [["unit", [["p", [["t", "Bbcdfg"]]]], {}]]]
    sh = ["doc", {}, [["sheet", "Nbcdfg", [[["s", "Cbcdfg"], ["i", 5]]]]]]
    if fmt == "docx":
        return ooxml.docx(doc)
    if fmt == "pptx":
        return ooxml.pptx(doc)
    if fmt == "xlsx":
        return ooxml.xlsx(sh)
    if fmt == "epub":
        return htmlfam.epub([htmlfam.xhtml_page("<p>Bbcdfg</p>", "t")], {"title": "t"})
    if fmt == "ods":
        return odf.ods(sh)
    return getattr(odf, fmt)(doc)


def _members(data):
    out = []
    with zipfile.ZipFile(io.BytesIO(data)) as z:
        for i in z.infolist():
            out.append({"name": i.filename, "data": z.read(i), "method": i.compress_type})
    return out


DEFAULTS = {"max_entries": 50_000, "max_total_uncompressed_bytes": 4 * 1024 ** 3, "max_single_uncompressed_bytes": 1024 ** 3,
            "max_total_compression_ratio": 200.0, "max_entry_compression_ratio": 500.0}


def forged_variants(fmt, tier, only=None):
    """Yield (label, bytes). One extra member 'extra/pad.bin' with forged sizes in the central directory + local header."""
    from verif.gen import zipforge
    base = _members(minimal(fmt))
    with zipfile.ZipFile(io.BytesIO(minimal(fmt))) as z:
        u0 = sum(i.file_size for i in z.infolist())
        c0 = sum(i.compress_size for i in z.infolist())
    G1 = 1024 ** 3

    def build(fs, cs, name="extra/pad.bin"):
        m = list(base) + [{"name": name, "data": b"x" * 8, "method": 0, "file_size": fs, "compress_size": cs}]
        return zipforge.zipforge(m)
    # single size boundary (ratio kept legal: compress size large enough)
    for d in (-1, 0, 1):
        fs = G1 + d
        yield f"single{d:+d}", build(fs, fs // 400 + 1)
    # per-entry ratio boundary 500
    for d in (-1, 0, 1):
        cs = 1000
        yield f"entryratio{d:+d}", build(500 * cs + d, cs)
    # zero compressed size with non-zero size; zero/zero
    yield "zerocomp", build(1000, 0)
    yield "zerozero", build(0, 0)
    # total ratio boundary 200: choose c so that (u0 + f) / (c0 + c) == 200 exactly with f/c <= 500
    c = 100000
    f = 200 * (c0 + c) - u0
    for d in (-1, 0, 1):
        yield f"totalratio{d:+d}", build(f + d, c)
    # total size boundary 4 GiB: five entries of < 1 GiB each
    tot = 4 * G1
    for d in (-1, 0, 1):
        m = list(base)
        each = (tot - u0) // 5
        sizes = [each] * 4 + [tot - u0 - 4 * each + d]
        for j, s in enumerate(sizes):
            m.append({"name": f"extra/p{j}.bin", "data": b"x", "method": 0, "file_size": s, "compress_size": s // 100 + 1})
        yield f"total{d:+d}", zipforge.zipforge(m)
    # a directory entry with absurd sizes must be ignored
    m = list(base) + [{"name": "extra/dir/", "data": b"", "method": 0, "file_size": 5 * G1, "compress_size": 0, "is_dir": True}]
    yield "dir-ignored", zipforge.zipforge(m)
    # a FILE entry (no trailing slash: zipfile inflates it) that carries the MS-DOS directory attribute, with bomb sizes
    m = list(base) + [{"name": "extra/notadir.bin", "data": b"\0" * (1 << 20), "method": 8, "external_attr": 0x10}]
    yield "dosattr-file-bomb", zipforge.zipforge(m)
    m = list(base) + [{"name": "extra/notadir2.bin", "data": b"x", "method": 0, "file_size": 2 * G1, "compress_size": 10, "external_attr": 0x10}]
    yield "dosattr-file-size", zipforge.zipforge(m)
    # honest high-ratio member (1 MiB of zeros deflated: ratio ~1000 > 500)
    m = list(base) + [{"name": "extra/zeros.bin", "data": b"\0" * (1 << 20), "method": 8}]
    yield "honest-zeros", zipforge.zipforge(m)
    m = list(base) + [{"name": "extra/text.bin", "data": (b"abcdefghij" * 200), "method": 8}]
    yield "honest-mild", zipforge.zipforge(m)
    if (tier != "quick" or fmt in ("docx", "ods", "epub")) and (only is None or only.startswith("count")):
        for cnt in (DEFAULTS["max_entries"] - 1, DEFAULTS["max_entries"], DEFAULTS["max_entries"] + 1):
            n_extra = cnt - len(base)
            m = list(base) + [{"name": f"e/{j}", "data": b"", "method": 0} for j in range(n_extra)]
            yield f"count{cnt - DEFAULTS['max_entries']:+d}", zipforge.zipforge(m)


def _extract(fmt, data):
    import sharepoint2text
    from sharepoint2text.parsing.exceptions import ExtractionError, ExtractionZipBombError
    try:
        res = list(sharepoint2text.get_extractor("a." + fmt)(io.BytesIO(data), "a." + fmt))
        return "ok"
    except ExtractionZipBombError:
        return "bomb"
    except ExtractionError as e:
        return "error:" + type(e).__name__
    except Exception as e:  # noqa
        return "escape:" + type(e).__name__


def container_part(arg):
    fmt, tier = arg[0], arg[1]
    only = arg[2] if len(arg) > 2 else None
    from sharepoint2text.parsing.extractors.util.zip_bomb import validate_zip_bytesio
    from sharepoint2text.parsing.exceptions import ExtractionZipBombError
    ev = 0
    fails = []
    outs = {}
    samples = []
    for label, data in forged_variants(fmt, tier, only):
        if only is not None and label != only:
            continue
        with zipfile.ZipFile(io.BytesIO(data)) as z:
            ents = [(i.file_size, i.compress_size, i.is_dir()) for i in z.infolist()]
        exp = ref_is_bomb(ents, DEFAULTS)
        got = _extract(fmt, data)
        ev += 1
        outs[f"{label}:{got}"] = outs.get(f"{label}:{got}", 0) + 1
        if (got == "bomb") != exp:
            fails.append(("container", fmt, {"variant": label}, f"{fmt} {label}: extractor outcome {got}, reference bomb={exp}"))
        if got.startswith("escape"):
            fails.append(("raises", fmt, {"variant": label}, f"{fmt} {label}: {got}"))
        # helper keeps the stream position
        for pos in (0, 1, len(data)):
            bio = io.BytesIO(data)
            bio.seek(pos)
            try:
                validate_zip_bytesio(bio)
            except ExtractionZipBombError:
                pass
            ev += 1
            if bio.tell() != pos:
                fails.append(("position", fmt, {"variant": label, "pos": pos}, f"validate_zip_bytesio moved the stream from {pos} to {bio.tell()}"))
        if len(samples) < 1:
            samples.append({"fmt": fmt, "variant": label, "entries": len(ents), "outcome": got, "reference_bomb": exp})
    return {"ev": ev, "fails": fails, "outs": outs, "samples": samples}


# ------------------------------------------------------------------ ordering monitor

def ordering_part(arg):
    fmt, tier = arg
    from sharepoint2text.parsing.extractors.util import zip_bomb
    log = []
    validated = set()
    zf_hash = {}
    orig_init = zipfile.ZipFile.__init__
    orig_open = zipfile.ZipFile.open
    orig_validate = zip_bomb.validate_zipfile

    def h_of(file):
        try:
            if hasattr(file, "getvalue"):
                return hashlib.sha1(file.getvalue()).hexdigest()
            if isinstance(file, (str, bytes, os.PathLike)):
                return hashlib.sha1(open(file, "rb").read()).hexdigest()
            pos = file.tell()
            file.seek(0)
            d = file.read()
            file.seek(pos)
            return hashlib.sha1(d).hexdigest()
        except Exception:
            return None

    def init(self, file, *a, **kw):
        zf_hash[id(self)] = h_of(file)
        return orig_init(self, file, *a, **kw)

    def open_(self, name, *a, **kw):
        log.append(("read", zf_hash.get(id(self)), getattr(name, "filename", name)))
        return orig_open(self, name, *a, **kw)

    def validate(zf, *a, **kw):
        r = orig_validate(zf, *a, **kw)
        log.append(("validated", zf_hash.get(id(zf)), None))
        return r
    ev = 0
    fails = []
    outs = {}
    docs = [("minimal", minimal(fmt))]
    # a richer document per format so that more parts are touched
    from verif.gen import odf, ooxml
    rich = ["doc", {"title": "T", "author": "A"}, [["unit", [["h", 1, [["t", "Hbcdfg"]]], ["p", [["t", "Bbcdfg"]]],
                                                         ["tbl", [[[["p", [["t", "Cbcdfg"]]]]]]]], {}],
                                                ["unit", [["p", [["t", "Bcdfgh"]]]], {}]]]
    try:
        if fmt in ("docx", "pptx"):
            docs.append(("rich", getattr(ooxml, fmt)(rich)))
        elif fmt in ("odt", "odp", "odg"):
            docs.append(("rich", getattr(odf, fmt)(rich)))
    except NotImplementedError:
        pass
    zipfile.ZipFile.__init__ = init
    zipfile.ZipFile.open = open_
    zip_bomb.validate_zipfile = validate
    try:
        for label, data in docs:
            del log[:]
            validated.clear()
            out = _extract(fmt, data)
            ev += 1
            seen_valid = set()
            reads = 0
            for kind, hsh, name in log:
                if kind == "validated":
                    seen_valid.add(hsh)
                else:
                    reads += 1
                    if hsh not in seen_valid:
                        fails.append(("order", fmt, {"variant": label}, f"{fmt}: member {name!r} read from a ZIP that was not validated before (outcome {out})"))
                        break
            outs[f"{label}:{out}:reads>0={reads > 0}"] = 1
            if reads == 0:
                fails.append(("vacuous", fmt, {"variant": label}, f"{fmt}: monitor saw no member read at all (monitor broken?)"))
    finally:
        zipfile.ZipFile.__init__ = orig_init
        zipfile.ZipFile.open = orig_open
        zip_bomb.validate_zipfile = orig_validate
    return {"ev": ev, "fails": fails, "outs": outs, "samples": [{"fmt": fmt, "events": len(log)}]}


def reexec(fmt, case):
    if fmt == "predicate":
        from sharepoint2text.parsing.exceptions import ExtractionZipBombError
        from sharepoint2text.parsing.extractors.util.zip_bomb import ZipBombLimits, validate_zipfile
        vec = [tuple(v) for v in case["entries"]]
        exp = ref_is_bomb(vec, case["limits"])
        try:
            validate_zipfile(_ZF([_Info(fs, cs, d, i) for i, (fs, cs, d) in enumerate(vec)]), limits=ZipBombLimits(**case["limits"]))
            got = False
        except ExtractionZipBombError:
            got = True
        except Exception as e:  # noqa
            return [("raises", str(e))]
        return [("predicate", f"rejected={got}, reference {exp}")] if got != exp else []
    if case.get("variant") in ("minimal", "rich"):
        r = ordering_part((fmt, "thorough"))
    else:
        r = container_part((fmt, "thorough", case.get("variant")))
    return [(c, m) for c, f, cs, m in r["fails"] if cs.get("variant") == case.get("variant") and cs.get("pos") == case.get("pos")]


def shrinks(case):
    if "entries" in case:
        e = case["entries"]
        for i in range(len(e)):
            yield {"entries": e[:i] + e[i + 1:], "limits": case["limits"]}


def embeds(small, big):
    if "entries" in small:
        if "entries" not in big or small["limits"] != big["limits"]:
            return False
        it = iter(big["entries"])
        return all(any(a == b for b in it) for a in small["entries"])
    return small == big


def fingerprint_view(case):
    if "entries" in case:
        return {"entries": case["entries"]}
    return case


def run(ctx):
    n = ctx.ncpu * 2
    r1 = P.run_all("verif.props.C11", "predicate_part", [(k, n, ctx.tier) for k in range(n)], n=ctx.ncpu, hard_timeout=1800)
    r2 = P.run_all("verif.props.C11", "container_part", [(f, ctx.tier) for f in FORMATS], n=ctx.ncpu, hard_timeout=1800)
    r3 = P.run_all("verif.props.C11", "ordering_part", [(f, ctx.tier) for f in FORMATS], n=ctx.ncpu, hard_timeout=1800)
    ev = 0
    fails = []
    outs = {}
    samples = []
    herr = []
    parts = {"predicate": 0, "container": 0, "ordering": 0}
    for name, res in (("predicate", r1), ("container", r2), ("ordering", r3)):
        for st, r, _ in res:
            if st != "done":
                herr.append(f"{name} task failed: {st}: {str(r)[-600:]}")
                continue
            ev += r["ev"]
            parts[name] += r["ev"]
            fails += [tuple(x) for x in r["fails"]]
            for k_, v in r["outs"].items():
                outs[f"{name}:{k_}"] = outs.get(f"{name}:{k_}", 0) + v
            samples += r.get("samples", [])
    cov = {"evaluations": ev, "distinct_nontrivial": len(outs),
           "rule": "(a) validate_zipfile on every vector of 0..3 entries over 43 (file_size, compress_size, is_dir) symbols x 32 limit settings "
                   "(each of the five limits at v / v+1) against an exact-rational reference; (b) 9 ZIP-container extractors x forged "
                   "central-directory variants at each default threshold -1/0/+1 (+ honest high-ratio members, directory entry ignored, entry "
                   "count 49999/50000/50001); (c) ordering monitor on zipfile.ZipFile reads vs validate_zipfile per extraction; "
                   "distinct_nontrivial = distinct (part, variant, outcome) classes",
           "per_part": parts, "outcomes": dict(sorted(outs.items())[:120]), "samples": samples[:6], "exhaustive": True}
    return {"coverage": cov, "failures": fails, "harness_errors": herr,
            "assumptions": ["whether directory entries count towards the entry-count limit is not settled by the statement: count-boundary "
                            "vectors contain no directories", "the 10th 'ZIP-container extractor' of the statement is read as the macro-enabled "
                            "variants routed to the same three OOXML readers; 9 distinct readers are exercised"]}
