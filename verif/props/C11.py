"""C11 - ZIP-container bomb guard decides exactly and runs before any member is read.

(a) predicate: validate_zipfile on synthetic ZipInfo vectors x limit lattice vs an exact-rational reference;
    validate_zip_bytesio keeps the caller's stream position.
(b) real containers: minimal documents of the 9 ZIP-container formats with one forged central-directory entry placed
    at each default threshold -1/0/+1 (single size, entry ratio, total ratio, zero compressed size, entry count) and
    honest high-ratio members; outcome ZipBomb error <=> reference predicate on the real infolist.
(c) ordering: harness-side monitor around zipfile.ZipFile / validate_zipfile: every ZipFile whose members are read
    was preceded, in the same extraction call, by a successful validation of a ZipFile over the same bytes.
(d) histories: the decision is a function of (container bytes, limits) ONLY - not of what the same process, the same
    stream object or the same bytes went through before. Every history of calls over a step alphabet is run under four
    stream carriers: "rewrite" (ONE BytesIO, seek(0)/truncate/write per document), "reinit" (ONE BytesIO, re-initialised
    with BytesIO.__init__(data)), "fresh-keep" (a new BytesIO per call, the old ones stay alive) and "fresh-drop" (a new
    BytesIO per call, the previous one released first, so object ids are recycled).
    (d1) extractor level: step = (format, variant) with variant in HIST_VARIANTS (3 accepted and 4 rejected containers,
         boundary ones included), default limits. quick: all ordered pairs within a format (9 x 7^2) + all ordered pairs
         across formats over {minimal, honest-zeros} (18^2); thorough: all ordered pairs over the full 63-symbol alphabet +
         all triples within a format (9 x 7^3). Oracle per step: zip-bomb error <=> reference predicate on the real infolist
         (clause "history"); no member is read from bytes that no successful validation (in this call or earlier in the
         history, i.e. a content-keyed memo would be legal) has covered (clause "history-order").
    (d2) helper level: step = (document, entry point, limits): 5 small documents (accepted everywhere / only under loose
         limits / rejected everywhere) x {open_zipfile, validate_zip_bytesio} x {strict, default, loose limits} +
         {ZipContext, is_odf_encrypted} x default limits = 40 symbols; quick: all ordered pairs, thorough: all triples. Oracle per
         step: rejected <=> reference (clause "history"), validate_zip_bytesio leaves the position alone (clause "position").
(e) limit VALUES: the limits are quantified over as values of their declared types (three ints, two floats), not only as
    whole numbers near a convenient threshold - the decision must be "size / ratio exceeds THE GIVEN limit", exactly.
    (e1) in-memory ZipInfo vectors x four limit lattices, judged by the exact-rational reference (clause "predicate"):
         "ratio": both ratio limits over RATIO_LIMITS (multiples of 1/4 incl. 0, values below 1, +inf = "switched off"),
                  all pairs combined, byte/count limits far away; entries over file_size 0..15 x compress_size {0,1,2,4}
                  (thorough: + 3) + a directory, every vector of <= 2 entries (thorough: 17 quarter steps 0..4, 1/8, 1e12, inf;
                  + every vector of 3 entries over a reduced alphabet);
         "mixed": the integer lattice of (a) combined with half-step ratio limits (1.5 / 2.5 total, 2.5 / 3.5 per entry)
                  over the 43-symbol alphabet of (a), vectors of <= 2 (thorough 3) entries;
         "degenerate": every limit at 0 / 1 (ratios 0.0 / 0.5), same vectors;
         "huge": single / total size limits just above 2**53 (where float arithmetic stops being exact) with entry
                 sizes 2**53-1 .. 2**53+2, vectors of <= 2 entries.
    (e2) real ZIPs (the 9 minimal documents + a bare one-member ZIP) through open_zipfile and validate_zip_bytesio with
         caller-supplied limits: one forged member whose per-entry ratio / the container's total ratio sits at L-1/0/+1
         byte for fractional L (0.5 .. 500.5), the document's OWN largest entry ratio and total ratio bracketed by the two
         neighbouring quarter steps (nothing forged), and a ZIP64 member at a single-size limit of 2**53+1 -1/0/+1.
         Oracle: rejected <=> reference on the real infolist under those limits (clause "limits"); validate_zip_bytesio
         keeps the position (clause "position").
(f) member NAME spellings: "directory entries are ignored" - and ONLY those. What the ZIP reader will hand out as a directory
    is decided by the member's EFFECTIVE name (zipfile: stored bytes decoded as CP437 / UTF-8 by flag bit 11, replaced by a
    matching Info-ZIP unicode-path extra field 0x7075, cut at the first NUL; directory <=> that name ends in "/"), not by the
    name as stored, the MS-DOS directory bit or the unix mode. NAME_SPELLINGS (23 symbols) spans those axes: plain file / dir,
    backslash, NUL followed by "/" / nothing / a tail, "dir/" followed by NUL + file name, "/" alone, empty name, CP437 and
    UTF-8 names, unicode-path extra turning a file name into a dir name and back (valid and stale CRC), directory attribute
    bits on a file name and file attributes on a dir name. Every spelling carries its expected kind in the table; the check
    aborts (harness error) if the running zipfile disagrees with the table.
    (f1) in-memory: REAL zipfile.ZipInfo objects (zipfile parses a reference-written ZIP with one member per spelling; sizes
         are then set on copies) - every vector of <= 2 entries over spellings x NAME_SIZES (7 (file_size, compress_size)
         symbols around the lattice thresholds) x the 32 limit settings of (a); thorough: 10 size symbols, + every vector of
         3 entries over 8 spellings x 4 sizes. Exact-rational reference, clause "predicate".
    (f2) real containers through the 9 extractors under the default limits: one extra member per spelling x profile
         {benign, honest 1 MiB of zeros (ratio ~1000), forged zero compressed size, forged single size 1 GiB + 1; thorough:
         + forged entry ratio 500 -1/0/+1 byte}; and the document's OWN members all re-stored under an alias spelling of the
         same effective name (suffix NUL+"/", NUL, NUL+"x/") with and without an honest high-ratio member. Oracle as in (b)
         (clause "container"), stream position (clause "position").
    (f3) helper level: the aliased documents through open_zipfile / validate_zip_bytesio with the limit on the quarter steps
         around the document's own largest entry ratio / total ratio (nothing forged; clause "limits").
"""
from __future__ import annotations

import hashlib
import io
import itertools
import math
import os
import random
import struct
import zipfile
import zlib
from fractions import Fraction

from verif.mc import pool as P

LEVEL = "exploration"
FORMATS = ["docx", "pptx", "xlsx", "odt", "odp", "ods", "odg", "odf", "epub"]


# ------------------------------------------------------------------ reference predicate

def _exceeds(num, den, limit):
    """num / den > limit, decided exactly (den > 0; limit an int or a float, +-inf included)."""
    if isinstance(limit, float) and math.isinf(limit):
        return limit < 0
    return Fraction(num, den) > Fraction(limit)


def ref_is_bomb(entries, lim):
    """entries: list of (file_size, compress_size, is_dir); lim: dict of the five limits. Exact rationals."""
    if len(entries) > lim["max_entries"]:
        return True
    tu = tc = 0
    for fs, cs, isdir in entries:
        if isdir:
            continue
        if fs > lim["max_single_uncompressed_bytes"]:
            return True
        if fs > 0:
            if cs <= 0:
                return True
            if _exceeds(fs, cs, lim["max_entry_compression_ratio"]):
                return True
        tu += fs
        tc += cs
    if tu > lim["max_total_uncompressed_bytes"]:
        return True
    if tu > 0:
        if tc <= 0:
            return True
        if _exceeds(tu, tc, lim["max_total_compression_ratio"]):
            return True
    return False


class _Info:
    __slots__ = ("file_size", "compress_size", "filename", "_d", "external_attr")

    def __init__(self, fs, cs, isdir, i):
        self.file_size = fs
        self.compress_size = cs
        self._d = isdir
        # a directory is what zipfile says it is (name ends in "/"); the MS-DOS directory attribute alone does not make a
        # member a directory - zipfile would still inflate it. Odd positions carry the bit on *files* to show it is ignored.
        self.external_attr = 0x10 if (isdir or i % 2 == 1) else 0
        self.filename = f"m{i}/" if isdir else f"m{i}.xml"

    def is_dir(self):
        return self._d


class _ZF:
    def __init__(self, infos):
        self._i = infos

    def infolist(self):
        return self._i


LIMIT_LATTICE = {"max_entries": (2, 3), "max_total_uncompressed_bytes": (10, 11), "max_single_uncompressed_bytes": (6, 7),
                 "max_total_compression_ratio": (2.0, 3.0), "max_entry_compression_ratio": (3.0, 4.0)}
FILE_SIZES = [0, 1, 3, 5, 6, 7, 8, 10, 11, 12]
COMP_SIZES = [0, 1, 2, 3]
ENTRY_ALPHA = [(fs, cs, False) for fs in FILE_SIZES for cs in COMP_SIZES] + [(0, 0, True), (12, 0, True), (99, 1, True)]


def predicate_part(arg):
    k, n, tier = arg
    from sharepoint2text.parsing.exceptions import ExtractionZipBombError
    from sharepoint2text.parsing.extractors.util.zip_bomb import ZipBombLimits, validate_zipfile
    ev = 0
    fails = []
    outs = {"accept": 0, "reject": 0}
    maxlen = 3
    idx = 0
    lims = [dict(zip(LIMIT_LATTICE, vals)) for vals in itertools.product(*LIMIT_LATTICE.values())]
    for L in range(0, maxlen + 1):
        for vec in itertools.product(ENTRY_ALPHA, repeat=L):
            idx += 1
            if idx % n != k:
                continue
            infos = [_Info(fs, cs, d, i) for i, (fs, cs, d) in enumerate(vec)]
            for lim in lims:
                ev += 1
                exp = ref_is_bomb(vec, lim)
                try:
                    validate_zipfile(_ZF(infos), limits=ZipBombLimits(**lim))
                    got = False
                except ExtractionZipBombError:
                    got = True
                except Exception as e:  # noqa
                    fails.append(("raises", "predicate", {"entries": [list(v) for v in vec], "limits": lim}, f"{type(e).__name__}: {e}"))
                    continue
                outs["reject" if got else "accept"] += 1
                if got != exp:
                    fails.append(("predicate", "predicate", {"entries": [list(v) for v in vec], "limits": lim},
                                  f"entries {vec} limits {lim}: rejected={got}, reference says bomb={exp}"))
    # entry-count boundary without directories (whether directories count is not settled by the statement)
    if k == 0:
        for lim in lims:
            for cnt in (lim["max_entries"] - 1, lim["max_entries"], lim["max_entries"] + 1, lim["max_entries"] + 2):
                vec = [(1, 1, False)] * cnt
                ev += 1
                exp = ref_is_bomb(vec, lim)
                try:
                    validate_zipfile(_ZF([_Info(1, 1, False, i) for i in range(cnt)]), limits=ZipBombLimits(**lim))
                    got = False
                except ExtractionZipBombError:
                    got = True
                if got != exp:
                    fails.append(("predicate", "predicate", {"entries": [list(v) for v in vec], "limits": lim}, f"{cnt} entries, limits {lim}: rejected={got}, reference {exp}"))
    return {"ev": ev, "fails": fails[:5000], "outs": outs}


# ------------------------------------------------------------------ real containers

def minimal(fmt):
    from verif.gen import htmlfam, odf, ooxml
    doc = ["doc", {"title": "Tt"}, [["unit", [["p", [["t", "Bbcdfg"]]]], {}]]]
    sh = ["doc", {}, [["sheet", "Nbcdfg", [[["s", "Cbcdfg"], ["i", 5]]]]]]
    if fmt == "docx":
        return ooxml.docx(doc)
    if fmt == "pptx":
        return ooxml.pptx(doc)
    if fmt == "xlsx":
        return ooxml.xlsx(sh)
    if fmt == "epub":
        return htmlfam.epub([htmlfam.xhtml_page("<p>Bbcdfg</p>", "t")], {"title": "t"})
    if fmt == "ods":
        return odf.ods(sh)
    return getattr(odf, fmt)(doc)


def _members(data):
    out = []
    with zipfile.ZipFile(io.BytesIO(data)) as z:
        for i in z.infolist():
            out.append({"name": i.filename, "data": z.read(i), "method": i.compress_type})
    return out


DEFAULTS = {"max_entries": 50_000, "max_total_uncompressed_bytes": 4 * 1024 ** 3, "max_single_uncompressed_bytes": 1024 ** 3,
            "max_total_compression_ratio": 200.0, "max_entry_compression_ratio": 500.0}


def forged_variants(fmt, tier, only=None):
    """Yield (label, bytes). One extra member 'extra/pad.bin' with forged sizes in the central directory + local header."""
    from verif.gen import zipforge
    base = _members(minimal(fmt))
    with zipfile.ZipFile(io.BytesIO(minimal(fmt))) as z:
        u0 = sum(i.file_size for i in z.infolist())
        c0 = sum(i.compress_size for i in z.infolist())
    G1 = 1024 ** 3

    def build(fs, cs, name="extra/pad.bin"):
        m = list(base) + [{"name": name, "data": b"x" * 8, "method": 0, "file_size": fs, "compress_size": cs}]
        return zipforge.zipforge(m)
    # single size boundary (ratio kept legal: compress size large enough)
    for d in (-1, 0, 1):
        fs = G1 + d
        yield f"single{d:+d}", build(fs, fs // 400 + 1)
    # per-entry ratio boundary 500
    for d in (-1, 0, 1):
        cs = 1000
        yield f"entryratio{d:+d}", build(500 * cs + d, cs)
    # zero compressed size with non-zero size; zero/zero
    yield "zerocomp", build(1000, 0)
    yield "zerozero", build(0, 0)
    # total ratio boundary 200: choose c so that (u0 + f) / (c0 + c) == 200 exactly with f/c <= 500
    c = 100000
    f = 200 * (c0 + c) - u0
    for d in (-1, 0, 1):
        yield f"totalratio{d:+d}", build(f + d, c)
    # total size boundary 4 GiB: five entries of < 1 GiB each
    tot = 4 * G1
    for d in (-1, 0, 1):
        m = list(base)
        each = (tot - u0) // 5
        sizes = [each] * 4 + [tot - u0 - 4 * each + d]
        for j, s in enumerate(sizes):
            m.append({"name": f"extra/p{j}.bin", "data": b"x", "method": 0, "file_size": s, "compress_size": s // 100 + 1})
        yield f"total{d:+d}", zipforge.zipforge(m)
    # a directory entry with absurd sizes must be ignored
    m = list(base) + [{"name": "extra/dir/", "data": b"", "method": 0, "file_size": 5 * G1, "compress_size": 0, "is_dir": True}]
    yield "dir-ignored", zipforge.zipforge(m)
    # a FILE entry (no trailing slash: zipfile inflates it) that carries the MS-DOS directory attribute, with bomb sizes
    m = list(base) + [{"name": "extra/notadir.bin", "data": b"\0" * (1 << 20), "method": 8, "external_attr": 0x10}]
    yield "dosattr-file-bomb", zipforge.zipforge(m)
    m = list(base) + [{"name": "extra/notadir2.bin", "data": b"x", "method": 0, "file_size": 2 * G1, "compress_size": 10, "external_attr": 0x10}]
    yield "dosattr-file-size", zipforge.zipforge(m)
    # honest high-ratio member (1 MiB of zeros deflated: ratio ~1000 > 500)
    m = list(base) + [{"name": "extra/zeros.bin", "data": b"\0" * (1 << 20), "method": 8}]
    yield "honest-zeros", zipforge.zipforge(m)
    m = list(base) + [{"name": "extra/text.bin", "data": (b"abcdefghij" * 200), "method": 8}]
    yield "honest-mild", zipforge.zipforge(m)
    if (tier != "quick" or fmt in ("docx", "ods", "epub")) and (only is None or only.startswith("count")):
        for cnt in (DEFAULTS["max_entries"] - 1, DEFAULTS["max_entries"], DEFAULTS["max_entries"] + 1):
            n_extra = cnt - len(base)
            m = list(base) + [{"name": f"e/{j}", "data": b"", "method": 0} for j in range(n_extra)]
            yield f"count{cnt - DEFAULTS['max_entries']:+d}", zipforge.zipforge(m)


def _extract(fmt, data):
    import sharepoint2text
    from sharepoint2text.parsing.exceptions import ExtractionError, ExtractionZipBombError
    try:
        res = list(sharepoint2text.get_extractor("a." + fmt)(io.BytesIO(data), "a." + fmt))
        return "ok"
    except ExtractionZipBombError:
        return "bomb"
    except ExtractionError as e:
        return "error:" + type(e).__name__
    except Exception as e:  # noqa
        return "escape:" + type(e).__name__


def container_part(arg):
    fmt, tier = arg[0], arg[1]
    only = arg[2] if len(arg) > 2 else None
    from sharepoint2text.parsing.extractors.util.zip_bomb import validate_zip_bytesio
    from sharepoint2text.parsing.exceptions import ExtractionZipBombError
    ev = 0
    fails = []
    outs = {}
    samples = []
    if only is not None and only.split(":")[0] in ("name", "alias"):
        variants = name_variants(fmt, tier, only)
    elif only is not None:
        variants = forged_variants(fmt, tier, only)
    else:
        variants = itertools.chain(forged_variants(fmt, tier, only), name_variants(fmt, tier))
    for label, data in variants:
        if only is not None and label != only:
            continue
        with zipfile.ZipFile(io.BytesIO(data)) as z:
            ents = [(i.file_size, i.compress_size, i.is_dir()) for i in z.infolist()]
        exp = ref_is_bomb(ents, DEFAULTS)
        got = _extract(fmt, data)
        ev += 1
        okey = f"{label}:{got}"
        if label.startswith("name:"):
            okey = f"name:{NAME_KIND[label.split(':')[1]]}:{label.split(':')[2]}:{got}"
        outs[okey] = outs.get(okey, 0) + 1
        if (got == "bomb") != exp:
            fails.append(("container", fmt, {"variant": label}, f"{fmt} {label}: extractor outcome {got}, reference bomb={exp}"))
        if got.startswith("escape"):
            fails.append(("raises", fmt, {"variant": label}, f"{fmt} {label}: {got}"))
        # helper keeps the stream position
        for pos in (0, 1, len(data)):
            bio = io.BytesIO(data)
            bio.seek(pos)
            try:
                validate_zip_bytesio(bio)
            except ExtractionZipBombError:
                pass
            ev += 1
            if bio.tell() != pos:
                fails.append(("position", fmt, {"variant": label, "pos": pos}, f"validate_zip_bytesio moved the stream from {pos} to {bio.tell()}"))
        if len(samples) < 1:
            samples.append({"fmt": fmt, "variant": label, "entries": len(ents), "outcome": got, "reference_bomb": exp})
    return {"ev": ev, "fails": fails, "outs": outs, "samples": samples}


# ------------------------------------------------------------------ ordering monitor

def ordering_part(arg):
    fmt, tier = arg
    from sharepoint2text.parsing.extractors.util import zip_bomb
    log = []
    validated = set()
    zf_hash = {}
    orig_init = zipfile.ZipFile.__init__
    orig_open = zipfile.ZipFile.open
    orig_validate = zip_bomb.validate_zipfile

    def h_of(file):
        try:
            if hasattr(file, "getvalue"):
                return hashlib.sha1(file.getvalue()).hexdigest()
            if isinstance(file, (str, bytes, os.PathLike)):
                return hashlib.sha1(open(file, "rb").read()).hexdigest()
            pos = file.tell()
            file.seek(0)
            d = file.read()
            file.seek(pos)
            return hashlib.sha1(d).hexdigest()
        except Exception:
            return None

    def init(self, file, *a, **kw):
        zf_hash[id(self)] = h_of(file)
        return orig_init(self, file, *a, **kw)

    def open_(self, name, *a, **kw):
        log.append(("read", zf_hash.get(id(self)), getattr(name, "filename", name)))
        return orig_open(self, name, *a, **kw)

    def validate(zf, *a, **kw):
        r = orig_validate(zf, *a, **kw)
        log.append(("validated", zf_hash.get(id(zf)), None))
        return r
    ev = 0
    fails = []
    outs = {}
    docs = [("minimal", minimal(fmt))]
    # a richer document per format so that more parts are touched
    from verif.gen import odf, ooxml
    rich = ["doc", {"title": "T", "author": "A"}, [["unit", [["h", 1, [["t", "Hbcdfg"]]], ["p", [["t", "Bbcdfg"]]],
                                                         ["tbl", [[[["p", [["t", "Cbcdfg"]]]]]]]], {}],
                                                ["unit", [["p", [["t", "Bcdfgh"]]]], {}]]]
    try:
        if fmt in ("docx", "pptx"):
            docs.append(("rich", getattr(ooxml, fmt)(rich)))
        elif fmt in ("odt", "odp", "odg"):
            docs.append(("rich", getattr(odf, fmt)(rich)))
    except NotImplementedError:
        pass
    zipfile.ZipFile.__init__ = init
    zipfile.ZipFile.open = open_
    zip_bomb.validate_zipfile = validate
    try:
        for label, data in docs:
            del log[:]
            validated.clear()
            out = _extract(fmt, data)
            ev += 1
            seen_valid = set()
            reads = 0
            for kind, hsh, name in log:
                if kind == "validated":
                    seen_valid.add(hsh)
                else:
                    reads += 1
                    if hsh not in seen_valid:
                        fails.append(("order", fmt, {"variant": label}, f"{fmt}: member {name!r} read from a ZIP that was not validated before (outcome {out})"))
                        break
            outs[f"{label}:{out}:reads>0={reads > 0}"] = 1
            if reads == 0:
                fails.append(("vacuous", fmt, {"variant": label}, f"{fmt}: monitor saw no member read at all (monitor broken?)"))
    finally:
        zipfile.ZipFile.__init__ = orig_init
        zipfile.ZipFile.open = orig_open
        zip_bomb.validate_zipfile = orig_validate
    return {"ev": ev, "fails": fails, "outs": outs, "samples": [{"fmt": fmt, "events": len(log)}]}



# ------------------------------------------------------------------ (d) histories: the verdict depends on bytes + limits only

CARRIERS = ["rewrite", "reinit", "fresh-keep", "fresh-drop"]
HIST_VARIANTS = ["minimal", "honest-mild", "entryratio+0", "honest-zeros", "entryratio+1", "zerocomp", "dosattr-file-bomb"]
HIST_CROSS_QUICK = ["minimal", "honest-zeros"]
_DOCS = {}


def hist_docs(fmt):
    """variant -> (bytes, reference verdict under the default limits) for one format."""
    if fmt not in _DOCS:
        d = {"minimal": minimal(fmt)}
        for label, data in forged_variants(fmt, "quick", "-"):
            if label in HIST_VARIANTS:
                d[label] = data
        out = {}
        for label in HIST_VARIANTS:
            with zipfile.ZipFile(io.BytesIO(d[label])) as z:
                ents = [(i.file_size, i.compress_size, i.is_dir()) for i in z.infolist()]
            out[label] = (d[label], ref_is_bomb(ents, DEFAULTS))
        _DOCS[fmt] = out
    return _DOCS[fmt]


class _Carrier:
    """Hands out the stream for the next document of a history."""

    def __init__(self, kind):
        self.kind = kind
        self.shared = io.BytesIO()
        self.alive = []
        self.cur = None

    def stream(self, data):
        k = self.kind
        if k == "rewrite":
            s = self.shared
            s.seek(0)
            s.truncate(0)
            s.write(data)
            s.seek(0)
        elif k == "reinit":
            s = self.shared
            s.__init__(data)
        elif k == "fresh-keep":
            s = io.BytesIO(data)
            self.alive.append(s)
        elif k == "fresh-drop":
            self.cur = None          # release the previous stream first: its id / memory may be handed out again
            s = io.BytesIO(data)
            self.cur = s
        else:
            raise ValueError(k)
        return s


class _Monitor:
    """Records which bytes were validated and which bytes had members read (content hash of the ZipFile's file object)."""

    def __init__(self):
        self.log = []
        self.zf_hash = {}

    @staticmethod
    def h_of(file):
        try:
            if hasattr(file, "getvalue"):
                return hashlib.sha1(file.getvalue()).hexdigest()
            if isinstance(file, (str, bytes, os.PathLike)):
                with open(file, "rb") as fh:
                    return hashlib.sha1(fh.read()).hexdigest()
            pos = file.tell()
            file.seek(0)
            d = file.read()
            file.seek(pos)
            return hashlib.sha1(d).hexdigest()
        except Exception:
            return None

    def __enter__(self):
        from sharepoint2text.parsing.extractors.util import zip_bomb
        self.zb = zip_bomb
        self.o_init, self.o_open, self.o_val = zipfile.ZipFile.__init__, zipfile.ZipFile.open, zip_bomb.validate_zipfile
        mon = self

        def init(zf, file, *a, **kw):
            mon.zf_hash[id(zf)] = mon.h_of(file)
            return mon.o_init(zf, file, *a, **kw)

        def open_(zf, name, *a, **kw):
            mon.log.append(("read", mon.zf_hash.get(id(zf)), getattr(name, "filename", name)))
            return mon.o_open(zf, name, *a, **kw)

        def validate(zf, *a, **kw):
            r = mon.o_val(zf, *a, **kw)
            mon.log.append(("validated", mon.zf_hash.get(id(zf)), None))
            return r
        zipfile.ZipFile.__init__ = init
        zipfile.ZipFile.open = open_
        zip_bomb.validate_zipfile = validate
        return self

    def __exit__(self, *a):
        zipfile.ZipFile.__init__ = self.o_init
        zipfile.ZipFile.open = self.o_open
        self.zb.validate_zipfile = self.o_val
        return False


def _extract_stream(fmt, stream):
    import sharepoint2text
    from sharepoint2text.parsing.exceptions import ExtractionError, ExtractionZipBombError
    try:
        list(sharepoint2text.get_extractor("a." + fmt)(stream, "a." + fmt))
        return "ok"
    except ExtractionZipBombError:
        return "bomb"
    except ExtractionError as e:
        return "error:" + type(e).__name__
    except Exception as e:  # noqa
        return "escape:" + type(e).__name__


def _verdicts(exp):
    return ["bomb" if e else "ok" for e in exp]


def run_history(steps, carrier, mon):
    """steps: [(fmt, variant)]. Returns (failures [(clause, msg)], outcome strings, evaluations)."""
    car = _Carrier(carrier)
    fails = []
    outs = []
    covered = set()                      # content hashes a successful validation has covered so far in this history
    exps = [hist_docs(f)[v][1] for f, v in steps]
    for i, (fmt, var) in enumerate(steps):
        data, exp = hist_docs(fmt)[var]
        del mon.log[:]
        mon.zf_hash.clear()
        got = _extract_stream(fmt, car.stream(data))
        outs.append(got)
        where = f"step {i + 1}/{len(steps)} of {[list(s) for s in steps]} on carrier {carrier!r}"
        if (got == "bomb") != exp:
            fails.append(("history", f"{where}: {fmt} {var} outcome {got}, reference bomb={exp} (same document in a stream of its own: "
                                     f"{_extract(fmt, data)})"))
        if got.startswith("escape"):
            fails.append(("raises", f"{where}: {fmt} {var}: {got}"))
        for kind, hsh, name in mon.log:
            if kind == "validated":
                covered.add(hsh)
            elif hsh not in covered:
                fails.append(("history-order", f"{where}: {fmt} {var}: member {name!r} read from bytes that no validation has covered (outcome {got})"))
                break
    return fails, outs, len(steps), exps


def _hist_case(steps, carrier, exps):
    return {"history": [list(s) for s in steps], "carrier": carrier, "expect": _verdicts(exps)}


def history_part(arg):
    """arg = (mode, fmt, tier): mode 'same' = histories within fmt; 'cross' = histories whose FIRST step is of fmt."""
    mode, fmt, tier = arg
    ev = 0
    fails = []
    outs = {}
    if mode == "same":
        alpha = [(fmt, v) for v in HIST_VARIANTS]
        lengths = (2,) if tier == "quick" else (2, 3)
        hists = [h for L in lengths for h in itertools.product(alpha, repeat=L)]
    else:
        vs = HIST_CROSS_QUICK if tier == "quick" else HIST_VARIANTS
        hists = [((fmt, v), (f2, v2)) for v in vs for f2 in FORMATS if f2 != fmt for v2 in vs]
    n_h = 0
    with _Monitor() as mon:
        for steps in hists:
            for carrier in CARRIERS:
                fl, got, n, exps = run_history(steps, carrier, mon)
                ev += n
                n_h += 1
                key = f"{mode}:{carrier}:{'>'.join(_verdicts(exps))}:{'>'.join(g.split(':')[0] for g in got)}"
                outs[key] = outs.get(key, 0) + 1
                if len(fails) < 400:
                    fails += [(c, "history", _hist_case(steps, carrier, exps), m) for c, m in fl]
    return {"ev": ev, "fails": fails, "outs": outs, "samples": [{"history_mode": mode, "first_fmt": fmt, "histories": n_h}]}


# ---- (d2) helper level

ULIMITS = {
    "strict": {"max_entries": 3, "max_total_uncompressed_bytes": 5000, "max_single_uncompressed_bytes": 3000,
               "max_total_compression_ratio": 20.0, "max_entry_compression_ratio": 50.0},
    "default": DEFAULTS,
    "loose": {"max_entries": 10 ** 9, "max_total_uncompressed_bytes": 1 << 50, "max_single_uncompressed_bytes": 1 << 50,
              "max_total_compression_ratio": 1e12, "max_entry_compression_ratio": 1e12},
}
UENTRIES = [("open_zipfile", "strict"), ("open_zipfile", "default"), ("open_zipfile", "loose"),
            ("validate_zip_bytesio", "strict"), ("validate_zip_bytesio", "default"), ("validate_zip_bytesio", "loose"),
            ("ZipContext", "default"), ("is_odf_encrypted", "default")]
UDOCS = ["ok", "mid", "count4", "zeros", "zerocomp"]
_UDOCS = {}


def util_docs():
    if not _UDOCS:
        from verif.gen import zipforge
        man = {"name": "META-INF/manifest.xml", "method": 0,
               "data": b'<manifest:manifest xmlns:manifest="urn:oasis:names:tc:opendocument:xmlns:manifest:1.0"/>'}
        members = {
            "ok": [man, {"name": "a.txt", "data": b"hello", "method": 0}],
            "mid": [man, {"name": "a.txt", "data": b"\0" * 2000, "method": 8}],
            "count4": [man] + [{"name": f"p{j}.txt", "data": b"hello", "method": 0} for j in range(3)],
            "zeros": [man, {"name": "a.txt", "data": b"\0" * (1 << 20), "method": 8}],
            "zerocomp": [man, {"name": "a.txt", "data": b"x" * 8, "method": 0, "file_size": 1000, "compress_size": 0}],
        }
        for k, m in members.items():
            data = zipforge.zipforge(m)
            with zipfile.ZipFile(io.BytesIO(data)) as z:
                ents = [(i.file_size, i.compress_size, i.is_dir()) for i in z.infolist()]
            _UDOCS[k] = (data, {ln: ref_is_bomb(ents, lim) for ln, lim in ULIMITS.items()})
    return _UDOCS


def _ucall(entry, lname, stream):
    """-> ('ok' | 'bomb' | 'escape:..', position note or None)"""
    from sharepoint2text.parsing.exceptions import ExtractionZipBombError
    from sharepoint2text.parsing.extractors.util import encryption, zip_bomb, zip_context
    lim = zip_bomb.ZipBombLimits(**ULIMITS[lname])
    note = None
    try:
        if entry == "open_zipfile":
            zip_bomb.open_zipfile(stream, limits=lim).close()
        elif entry == "validate_zip_bytesio":
            stream.seek(3)
            try:
                zip_bomb.validate_zip_bytesio(stream, limits=lim)
            finally:
                if stream.tell() != 3:
                    note = f"validate_zip_bytesio moved the stream from 3 to {stream.tell()}"
        elif entry == "ZipContext":
            ctx = zip_context.ZipContext(stream)
            try:
                ctx.read_bytes("a.txt" if ctx.exists("a.txt") else "p0.txt")
            finally:
                ctx.close()
        elif entry == "is_odf_encrypted":
            encryption.is_odf_encrypted(stream)
        else:
            raise ValueError(entry)
        return "ok", note
    except ExtractionZipBombError:
        return "bomb", note
    except Exception as e:  # noqa
        return "escape:" + type(e).__name__, note


def run_uhistory(steps, carrier):
    """steps: [(doc, entry, limits-name)]"""
    car = _Carrier(carrier)
    docs = util_docs()
    fails = []
    outs = []
    exps = [docs[d][1][ln] for d, e, ln in steps]
    for i, (d, entry, ln) in enumerate(steps):
        data, exp = docs[d][0], docs[d][1][ln]
        got, note = _ucall(entry, ln, car.stream(data))
        outs.append(got)
        where = f"step {i + 1}/{len(steps)} of {[list(s) for s in steps]} on carrier {carrier!r}"
        if got.startswith("escape"):
            fails.append(("raises", f"{where}: {got}"))
        elif (got == "bomb") != exp:
            fails.append(("history", f"{where}: {entry}({d!r}, {ln} limits) rejected={got == 'bomb'}, reference bomb={exp}"))
        if note:
            fails.append(("position", f"{where}: {note}"))
    return fails, outs, len(steps), exps


def _uhist_case(steps, carrier, exps):
    return {"uhistory": [list(s) for s in steps], "carrier": carrier, "expect": _verdicts(exps)}


def uhistory_part(arg):
    carrier, k, n, tier = arg
    alpha = [(d, e, ln) for d in UDOCS for e, ln in UENTRIES]
    L = 2 if tier == "quick" else 3
    ev = 0
    fails = []
    outs = {}
    n_h = 0
    for idx, first in enumerate(alpha):
        if idx % n != k:
            continue
        for rest in itertools.product(alpha, repeat=L - 1):
            steps = (first,) + rest
            fl, got, m, exps = run_uhistory(steps, carrier)
            ev += m
            n_h += 1
            key = f"util:{carrier}:{'>'.join(_verdicts(exps))}:{'>'.join(got)}"
            outs[key] = outs.get(key, 0) + 1
            if len(fails) < 400:
                fails += [(c, "history-util", _uhist_case(steps, carrier, exps), msg) for c, msg in fl]
    return {"ev": ev, "fails": fails, "outs": outs, "samples": [{"history_mode": "util", "carrier": carrier, "histories": n_h}]}


# ------------------------------------------------------------------ (e) limit values: ints AND floats, fractional / 0 / inf / > 2**53

INF = float("inf")
FAR = {"max_entries": 10 ** 9, "max_total_uncompressed_bytes": 1 << 62, "max_single_uncompressed_bytes": 1 << 62,
       "max_total_compression_ratio": 1e12, "max_entry_compression_ratio": 1e12}
# all ratio limits are dyadic rationals (exact as floats), so "ratio > limit" in float arithmetic and in exact
# arithmetic agree for the small integer sizes used here: the oracle demands nothing beyond the statement.
RATIO_LIMITS = {"quick": (0.0, 0.25, 0.5, 0.75, 1.0, 1.5, 2.25, 2.5, 2.75, 3.5, INF),
                "thorough": tuple(k / 4 for k in range(17)) + (0.125, 1e12, INF)}
B53 = 2 ** 53


def _ratio_alpha(tier):
    cs_all = (0, 1, 2, 4) if tier == "quick" else (0, 1, 2, 3, 4)
    return [(fs, cs, False) for fs in range(16) for cs in cs_all] + [(15, 0, True)]


RATIO_ALPHA_3 = [(fs, cs, False) for fs in (0, 1, 2, 3, 5, 7, 10) for cs in (0, 1, 2, 4)] + [(15, 0, True)]
HUGE_ALPHA = [(B53 + d, B53, False) for d in (-1, 0, 1, 2)] + [(0, 0, False)]


def limit_lattices(tier):
    """name -> (list of limit dicts, list of (alphabet, max vector length))"""
    def grid(d):
        return [dict(zip(d, vals)) for vals in itertools.product(*d.values())]
    rl = RATIO_LIMITS[tier]
    out = {}
    ratio = [dict(FAR, max_total_compression_ratio=t, max_entry_compression_ratio=e) for t in rl for e in rl]
    out["ratio"] = [(ratio, _ratio_alpha(tier), 2)]
    if tier != "quick":
        rq = RATIO_LIMITS["quick"]
        out["ratio"].append(([dict(FAR, max_total_compression_ratio=t, max_entry_compression_ratio=e) for t in rq for e in rq],
                             RATIO_ALPHA_3, 3))
    mixed = dict(LIMIT_LATTICE, max_total_compression_ratio=(1.5, 2.5), max_entry_compression_ratio=(2.5, 3.5))
    out["mixed"] = [(grid(mixed), ENTRY_ALPHA, 2 if tier == "quick" else 3)]
    degenerate = {"max_entries": (0, 1), "max_total_uncompressed_bytes": (0, 1), "max_single_uncompressed_bytes": (0, 1),
                  "max_total_compression_ratio": (0.0, 0.5), "max_entry_compression_ratio": (0.0, 0.5)}
    out["degenerate"] = [(grid(degenerate), ENTRY_ALPHA, 2)]
    huge = [dict(FAR, max_single_uncompressed_bytes=s, max_total_uncompressed_bytes=t)
            for s in (B53, B53 + 1) for t in (2 * B53 + 1, 2 * B53 + 2)]
    out["huge"] = [(huge, HUGE_ALPHA, 2)]
    return out


def _decide(infos, lim):
    """-> (True | False | None, error text): does validate_zipfile reject these infos under ZipBombLimits(**lim)?"""
    from sharepoint2text.parsing.exceptions import ExtractionZipBombError
    from sharepoint2text.parsing.extractors.util.zip_bomb import ZipBombLimits, validate_zipfile
    try:
        validate_zipfile(_ZF(infos), limits=ZipBombLimits(**lim))
        return False, None
    except ExtractionZipBombError:
        return True, None
    except Exception as e:  # noqa
        return None, f"{type(e).__name__}: {e}"


def limits_mem_part(arg):
    k, n, tier = arg
    ev = 0
    fails = []
    outs = {}
    idx = 0
    n_raise = 0
    for name, blocks in limit_lattices(tier).items():
        for lims, alpha, maxlen in blocks:
            for L in range(0, maxlen + 1):
                for vec in itertools.product(alpha, repeat=L):
                    idx += 1
                    if idx % n != k:
                        continue
                    infos = [_Info(fs, cs, d, i) for i, (fs, cs, d) in enumerate(vec)]
                    for lim in lims:
                        ev += 1
                        exp = ref_is_bomb(vec, lim)
                        got, err = _decide(infos, lim)
                        case = {"entries": [list(v) for v in vec], "limits": lim}
                        if got is None:
                            n_raise += 1
                            if n_raise <= 40:
                                fails.append(("raises", "predicate", case, f"limits {lim}: {err}"))
                            continue
                        key = f"{name}:{'reject' if got else 'accept'}"
                        outs[key] = outs.get(key, 0) + 1
                        if got != exp and len(fails) < 340:
                            fails.append(("predicate", "predicate", case,
                                          f"[{name} lattice] entries {vec} limits {lim}: rejected={got}, reference says bomb={exp}"))
    return {"ev": ev, "fails": fails, "outs": outs, "samples": []}


# ---- (e2) real ZIPs under caller-supplied limits

LIMIT_ZIP_BASES = FORMATS + ["bare"]
ZIP_RATIO_LIMITS = (0.5, 0.75, 1.5, 2.5, 2.75, 7.75, 199.5, 500.5)
ZIP_ENTRY_POINTS = ("open_zipfile", "validate_zip_bytesio")
_LZ = {}


def _quarter_bracket(num, den):
    """The two multiples of 1/4 around num/den: (largest one < ratio or None, smallest one >= ratio)."""
    hi = -((-4 * num) // den)          # ceil(4 * ratio)
    lo = hi - 1
    return (lo / 4 if lo >= 0 else None), hi / 4


def limit_zip_variants(base):
    """(label, bytes, limits dict) for one base container; deterministic, memoised per process."""
    if base in _LZ:
        return _LZ[base]
    from verif.gen import zipforge
    members = [] if base == "bare" else _members(minimal(base))
    ents = []
    if members:
        # sizes as the reference writer lays the members out again (its deflate output may differ from the original's)
        with zipfile.ZipFile(io.BytesIO(zipforge.zipforge(list(members)))) as z:
            ents = [(i.file_size, i.compress_size) for i in z.infolist() if not i.is_dir()]
    u0 = sum(f for f, c in ents)
    c0 = sum(c for f, c in ents)
    lim0 = dict(DEFAULTS, max_total_compression_ratio=1e12, max_entry_compression_ratio=1e12)
    out = []

    def forged(fs, cs):
        return zipforge.zipforge(list(members) + [{"name": "extra/pad.bin", "data": b"x" * 8, "method": 0, "file_size": fs, "compress_size": cs}])
    rmax = max([Fraction(f, c) for f, c in ents if f > 0 and c > 0] or [Fraction(0)])
    for L in ZIP_RATIO_LIMITS:
        # per-entry ratio: meaningful only where the document's own members stay below L
        if rmax < Fraction(L):
            for d in (-1, 0, 1):
                out.append((f"entry:{L}:{d:+d}", forged(int(L * 1000) + d, 1000), dict(lim0, max_entry_compression_ratio=L)))
        # total ratio: (u0 + f) / (c0 + c) == L exactly, with c0 + c a multiple of 8
        c = 100000 + (-(c0 + 100000)) % 8
        f = int(L * (c0 + c)) - u0
        if f > 1:
            for d in (-1, 0, 1):
                out.append((f"total:{L}:{d:+d}", forged(f + d, c), dict(lim0, max_total_compression_ratio=L)))
    if ents:
        # nothing forged: the document as written, limits on the quarter steps around its own ratios
        data = zipforge.zipforge(list(members))
        num, den = max(((f, c) for f, c in ents if f > 0 and c > 0), key=lambda p: Fraction(*p))
        for tag, L in zip(("below", "above"), _quarter_bracket(num, den)):
            if L is not None:
                out.append((f"own-entry:{tag}", data, dict(lim0, max_entry_compression_ratio=L)))
        for tag, L in zip(("below", "above"), _quarter_bracket(u0, c0)):
            if L is not None:
                out.append((f"own-total:{tag}", data, dict(lim0, max_total_compression_ratio=L)))
        # (f3) the same document, every member stored under an alias spelling of its name
        for stag, sfx in ALIAS_SUFFIXES.items():
            adata = zipforge.zipforge(_aliased(list(members), sfx))
            for tag, L in zip(("below", "above"), _quarter_bracket(num, den)):
                if L is not None:
                    out.append((f"alias-entry:{stag}:{tag}", adata, dict(lim0, max_entry_compression_ratio=L)))
            for tag, L in zip(("below", "above"), _quarter_bracket(u0, c0)):
                if L is not None:
                    out.append((f"alias-total:{stag}:{tag}", adata, dict(lim0, max_total_compression_ratio=L)))
    if base in ("bare", "docx", "ods", "epub"):
        for d in (-1, 0, 1):
            fs = B53 + 1 + d
            out.append((f"huge{d:+d}", forged(fs, fs // 100), dict(lim0, max_single_uncompressed_bytes=B53 + 1, max_total_uncompressed_bytes=1 << 62)))
    _LZ[base] = out
    return out


def run_limit_zip(base, label, entry):
    """-> (failures [(clause, msg)], outcome, reference)"""
    from sharepoint2text.parsing.exceptions import ExtractionZipBombError
    from sharepoint2text.parsing.extractors.util import zip_bomb
    for lb, data, lim in limit_zip_variants(base):
        if lb == label:
            break
    else:
        raise KeyError(label)
    with zipfile.ZipFile(io.BytesIO(data)) as z:
        ents = [(i.file_size, i.compress_size, i.is_dir()) for i in z.infolist()]
    exp = ref_is_bomb(ents, lim)
    fails = []
    positions = (0,) if entry == "open_zipfile" else (0, 3, len(data))
    got = None
    for pos in positions:
        bio = io.BytesIO(data)
        bio.seek(pos)
        try:
            limits = zip_bomb.ZipBombLimits(**lim)
            if entry == "open_zipfile":
                zip_bomb.open_zipfile(bio, limits=limits).close()
            else:
                zip_bomb.validate_zip_bytesio(bio, limits=limits)
            got = "ok"
        except ExtractionZipBombError:
            got = "bomb"
        except Exception as e:  # noqa
            got = "escape:" + type(e).__name__
            fails.append(("raises", f"{base} {label} via {entry} (limits {lim}): {type(e).__name__}: {e}"))
            break
        if (got == "bomb") != exp:
            fails.append(("limits", f"{base} {label} via {entry} at position {pos}: rejected={got == 'bomb'}, reference bomb={exp} "
                                    f"(limits {lim}; non-directory entries (file_size, compress_size): "
                                    f"{[(f, c) for f, c, d in ents if not d][-4:]})"))
            break
        if entry == "validate_zip_bytesio" and bio.tell() != pos:
            fails.append(("position", f"{base} {label}: validate_zip_bytesio moved the stream from {pos} to {bio.tell()}"))
            break
    return fails, got, exp


def limits_zip_part(arg):
    base, tier = arg
    ev = 0
    fails = []
    outs = {}
    n_var = 0
    for label, data, lim in limit_zip_variants(base):
        n_var += 1
        for entry in ZIP_ENTRY_POINTS:
            fl, got, exp = run_limit_zip(base, label, entry)
            ev += 1 if entry == "open_zipfile" else 3
            key = f"{label.split(':')[0]}:{'bomb' if exp else 'ok'}:{got}"
            outs[key] = outs.get(key, 0) + 1
            fails += [(c, base, {"limits_zip": label, "entry": entry}, m) for c, m in fl]
    return {"ev": ev, "fails": fails, "outs": outs, "samples": [{"limits_zip_base": base, "variants": n_var}]}


# ------------------------------------------------------------------ (f) member NAME spellings: which entries are directories

def _upath(stored, uname, valid=True):
    """Info-ZIP unicode path extra field (0x7075): version 1, CRC-32 of the stored name, UTF-8 name."""
    u = uname.encode("utf-8")
    crc = (zlib.crc32(stored) ^ (0 if valid else 1)) & 0xFFFFFFFF
    return struct.pack("<HHBL", 0x7075, 5 + len(u), 1, crc) + u


_UNIX_DIR = (0o40755 << 16) | 0x10
_UNIX_FILE = 0o100644 << 16
# (tag, expected kind of the entry the ZIP reader hands out, zipforge member fields)
NAME_SPELLINGS = [
    ("file", "file", {"name_bytes": b"extra/pad.bin"}),
    ("dir", "dir", {"name_bytes": b"extra/d/", "external_attr": _UNIX_DIR}),
    ("backslash", "file", {"name_bytes": b"extra\\d\\"}),
    ("nul-slash", "file", {"name_bytes": b"extra/pad.bin\0/"}),
    ("nul", "file", {"name_bytes": b"extra/pad.bin\0"}),
    ("nul-tail-slash", "file", {"name_bytes": b"extra/pad.bin\0tail/"}),
    ("dir-nul-file", "dir", {"name_bytes": b"extra/d/\0pad.bin"}),
    ("dir-nul", "dir", {"name_bytes": b"extra/d/\0"}),
    ("slash-only", "dir", {"name_bytes": b"/"}),
    ("empty", "file", {"name_bytes": b""}),
    ("nul-first", "file", {"name_bytes": b"\0/"}),
    ("cp437-file", "file", {"name_bytes": b"extra/p\x84d.bin"}),
    ("cp437-dir", "dir", {"name_bytes": b"extra/d\x84/"}),
    ("utf8-file", "file", {"name_bytes": "extra/päd.bin".encode("utf-8"), "flag_bits": 0x800}),
    ("utf8-dir", "dir", {"name_bytes": "extra/dä/".encode("utf-8"), "flag_bits": 0x800}),
    ("utf8-nul-slash", "file", {"name_bytes": "extra/päd.bin\0/".encode("utf-8"), "flag_bits": 0x800}),
    ("upath-dir-on-file", "dir", {"name_bytes": b"extra/pad.bin", "extra": _upath(b"extra/pad.bin", "extra/d/")}),
    ("upath-file-on-dir", "file", {"name_bytes": b"extra/d/", "extra": _upath(b"extra/d/", "extra/pad.bin")}),
    ("upath-stale", "file", {"name_bytes": b"extra/pad.bin", "extra": _upath(b"extra/pad.bin", "extra/d/", valid=False)}),
    ("upath-nul-slash", "file", {"name_bytes": b"extra/q.bin", "extra": _upath(b"extra/q.bin", "extra/pad.bin\0/")}),
    ("dosdir-attr-file", "file", {"name_bytes": b"extra/pad.bin", "external_attr": 0x10}),
    ("unixdir-attr-file", "file", {"name_bytes": b"extra/pad.bin", "external_attr": _UNIX_DIR}),
    ("fileattr-dir", "dir", {"name_bytes": b"extra/d/", "external_attr": _UNIX_FILE}),
]
NAME_TAGS = [t for t, k, m in NAME_SPELLINGS]
NAME_KIND = {t: k for t, k, m in NAME_SPELLINGS}
NAME_FIELDS = {t: m for t, k, m in NAME_SPELLINGS}
# (file_size, compress_size) around the thresholds of LIMIT_LATTICE: single 6/7, total 10/11, entry ratio 3/4, total ratio 2/3
NAME_SIZES = {"quick": [(0, 0), (1, 1), (5, 2), (6, 3), (7, 3), (8, 2), (5, 0)],
              "thorough": [(0, 0), (1, 1), (5, 2), (6, 3), (7, 3), (8, 2), (5, 0), (3, 1), (10, 5), (12, 6)]}
NAME_TAGS_3 = ["file", "dir", "nul-slash", "dir-nul-file", "upath-dir-on-file", "upath-file-on-dir", "empty", "unixdir-attr-file"]
NAME_SIZES_3 = [(1, 1), (6, 3), (8, 2), (5, 0)]
_NAME_INFOS = {}


def name_infos():
    """tag -> the real zipfile.ZipInfo the ZIP reader produces for that spelling (memoised; sizes are set on copies)."""
    if not _NAME_INFOS:
        from verif.gen import zipforge
        data = zipforge.zipforge([dict(m, data=b"x" * 8, method=0) for t, k, m in NAME_SPELLINGS])
        with zipfile.ZipFile(io.BytesIO(data)) as z:
            infos = z.infolist()
        if len(infos) != len(NAME_SPELLINGS):
            raise RuntimeError("zipfile did not list one entry per name spelling")
        for (t, k, m), i in zip(NAME_SPELLINGS, infos):
            if i.is_dir() != (k == "dir"):
                raise RuntimeError(f"name spelling {t!r}: table says {k}, zipfile says is_dir={i.is_dir()} "
                                   f"(stored {i.orig_filename!r}, effective {i.filename!r})")
            _NAME_INFOS[t] = i
    return _NAME_INFOS


def _named_infos(vec):
    import copy
    src = name_infos()
    out = []
    for t, fs, cs in vec:
        i = copy.copy(src[t])
        i.file_size, i.compress_size = fs, cs
        out.append(i)
    return out


def run_named(vec, lim, infos=None):
    """vec: [(spelling tag, file_size, compress_size)] -> failures [(clause, msg)], verdict"""
    infos = infos or _named_infos(vec)
    ents = [(i.file_size, i.compress_size, i.is_dir()) for i in infos]
    exp = ref_is_bomb(ents, lim)
    got, err = _decide(infos, lim)
    if got is None:
        return [("raises", f"named entries {vec} limits {lim}: {err}")], None
    if got != exp:
        shown = [(i.orig_filename, i.filename, "dir" if i.is_dir() else "file", i.file_size, i.compress_size) for i in infos]
        return [("predicate", f"[name spellings] entries (stored name, effective name, kind, file_size, compress_size) {shown} "
                              f"limits {lim}: rejected={got}, reference says bomb={exp}")], got
    return [], got


def names_mem_part(arg):
    k, n, tier = arg
    lims = [dict(zip(LIMIT_LATTICE, vals)) for vals in itertools.product(*LIMIT_LATTICE.values())]
    blocks = [([(t, fs, cs) for t in NAME_TAGS for fs, cs in NAME_SIZES[tier]], 2)]
    if tier != "quick":
        blocks.append(([(t, fs, cs) for t in NAME_TAGS_3 for fs, cs in NAME_SIZES_3], 3))
    ev = 0
    fails = []
    outs = {}
    idx = 0
    for alpha, maxlen in blocks:
        for L in range(1 if maxlen == 2 else 3, maxlen + 1):
            for vec in itertools.product(alpha, repeat=L):
                idx += 1
                if idx % n != k:
                    continue
                infos = _named_infos(vec)
                kinds = "+".join(sorted({NAME_KIND[t] for t, _, _ in vec}))
                for lim in lims:
                    ev += 1
                    fl, got = run_named(vec, lim, infos)
                    key = f"{kinds}:{'raise' if got is None else 'reject' if got else 'accept'}"
                    outs[key] = outs.get(key, 0) + 1
                    if fl and len(fails) < 300:
                        fails += [(c, "predicate", {"named_entries": [list(v) for v in vec], "limits": lim}, m) for c, m in fl]
    return {"ev": ev, "fails": fails, "outs": outs, "samples": []}


NAME_PROFILES = {"quick": ("benign", "honest-zeros", "zerocomp", "single+1"),
                 "thorough": ("benign", "honest-zeros", "zerocomp", "single+1", "entryratio-1", "entryratio+0", "entryratio+1")}
ALIAS_SUFFIXES = {"nul-slash": b"\0/", "nul": b"\0", "nul-tail-slash": b"\0x/"}


def _profile_fields(profile):
    G1 = 1024 ** 3
    if profile == "benign":
        return {"data": b"x" * 8, "method": 0}
    if profile == "honest-zeros":
        return {"data": b"\0" * (1 << 20), "method": 8}
    if profile == "zerocomp":
        return {"data": b"x" * 8, "method": 0, "file_size": 1000, "compress_size": 0}
    if profile == "single+1":
        return {"data": b"x" * 8, "method": 0, "file_size": G1 + 1, "compress_size": (G1 + 1) // 400 + 1}
    if profile.startswith("entryratio"):
        return {"data": b"x" * 8, "method": 0, "file_size": 500 * 1000 + int(profile[len("entryratio"):]), "compress_size": 1000}
    raise ValueError(profile)


def _aliased(members, suffix):
    """the same members, every name stored as name + suffix (the suffix starts with NUL: the effective name is unchanged)"""
    return [dict({k: v for k, v in m.items() if k != "name"}, name_bytes=m["name"].encode("utf-8") + suffix,
                 flag_bits=0 if m["name"].isascii() else 0x800) for m in members]


def name_variants(fmt, tier, only=None):
    """Yield (label, bytes): 'name:<spelling>:<profile>' = minimal document + one extra member; 'alias:<suffix>[:zeros]' = the
    document's own members re-stored under alias spellings [+ an honest high-ratio member under the same alias]."""
    from verif.gen import zipforge
    base = _members(minimal(fmt))
    for tag in NAME_TAGS:
        for prof in NAME_PROFILES["thorough" if only else tier]:
            label = f"name:{tag}:{prof}"
            if only is None or only == label:
                yield label, zipforge.zipforge(list(base) + [dict(NAME_FIELDS[tag], **_profile_fields(prof))])
    for stag, sfx in ALIAS_SUFFIXES.items():
        label = f"alias:{stag}"
        if only is None or only == label:
            yield label, zipforge.zipforge(_aliased(base, sfx))
        label = f"alias:{stag}:zeros"
        if only is None or only == label:
            yield label, zipforge.zipforge(_aliased(base + [{"name": "extra/zeros.bin", "data": b"\0" * (1 << 20), "method": 8}], sfx))


def reexec(fmt, case):
    if "history" in case:
        with _Monitor() as mon:
            fl = run_history([tuple(x) for x in case["history"]], case["carrier"], mon)[0]
        return fl
    if "uhistory" in case:
        return run_uhistory([tuple(x) for x in case["uhistory"]], case["carrier"])[0]
    if "limits_zip" in case:
        return run_limit_zip(fmt, case["limits_zip"], case["entry"])[0]
    if "named_entries" in case:
        return run_named([tuple(v) for v in case["named_entries"]], case["limits"])[0]
    if fmt == "predicate":
        from sharepoint2text.parsing.exceptions import ExtractionZipBombError
        from sharepoint2text.parsing.extractors.util.zip_bomb import ZipBombLimits, validate_zipfile
        vec = [tuple(v) for v in case["entries"]]
        exp = ref_is_bomb(vec, case["limits"])
        got, err = _decide([_Info(fs, cs, d, i) for i, (fs, cs, d) in enumerate(vec)], case["limits"])
        if got is None:
            return [("raises", err)]
        return [("predicate", f"rejected={got}, reference {exp}")] if got != exp else []
    if case.get("variant") in ("minimal", "rich"):
        r = ordering_part((fmt, "thorough"))
    else:
        r = container_part((fmt, "thorough", case.get("variant")))
    return [(c, m) for c, f, cs, m in r["fails"] if cs.get("variant") == case.get("variant") and cs.get("pos") == case.get("pos")]


def _mk_hist(steps, carrier):
    steps = [tuple(x) for x in steps]
    return _hist_case(steps, carrier, [hist_docs(f)[v][1] for f, v in steps])


def _mk_uhist(steps, carrier):
    steps = [tuple(x) for x in steps]
    return _uhist_case(steps, carrier, [util_docs()[d][1][ln] for d, e, ln in steps])


def shrinks(case):
    """histories: drop a step; then move one step towards the canonical symbol of the same verdict class (strictly smaller rank)."""
    if "history" in case:
        h, car = case["history"], case["carrier"]
        if len(h) > 1:
            for i in range(len(h)):
                yield _mk_hist(h[:i] + h[i + 1:], car)
        for i, (f, v) in enumerate(h):
            bomb = hist_docs(f)[v][1]
            canon = "honest-zeros" if bomb else "minimal"
            if v != canon:
                yield _mk_hist(h[:i] + [[f, canon]] + h[i + 1:], car)
            if f != FORMATS[0]:
                yield _mk_hist(h[:i] + [[FORMATS[0], v]] + h[i + 1:], car)
        return
    if "uhistory" in case:
        h, car = case["uhistory"], case["carrier"]
        if len(h) > 1:
            for i in range(len(h)):
                yield _mk_uhist(h[:i] + h[i + 1:], car)
        for i, (d, e, ln) in enumerate(h):
            for d2 in UDOCS[:UDOCS.index(d)]:
                if util_docs()[d2][1][ln] == util_docs()[d][1][ln]:
                    yield _mk_uhist(h[:i] + [[d2, e, ln]] + h[i + 1:], car)
            if e != "open_zipfile":
                yield _mk_uhist(h[:i] + [[d, "open_zipfile", ln]] + h[i + 1:], car)
        return
    if "entries" in case:
        e = case["entries"]
        for i in range(len(e)):
            yield {"entries": e[:i] + e[i + 1:], "limits": case["limits"]}
    if "named_entries" in case:
        e = case["named_entries"]
        if len(e) > 1:
            for i in range(len(e)):
                yield {"named_entries": e[:i] + e[i + 1:], "limits": case["limits"]}


def embeds(small, big):
    for k in ("history", "uhistory"):
        if k in small:
            # same carrier, and the steps of the minimal history occur in order in the bigger one
            if k not in big or small["carrier"] != big["carrier"]:
                return False
            it = iter(big[k])
            return all(any(list(a) == list(b) for b in it) for a in small[k])
    if "entries" in small:
        if "entries" not in big or small["limits"] != big["limits"]:
            return False
        it = iter(big["entries"])
        return all(any(a == b for b in it) for a in small["entries"])
    if "named_entries" in small:
        if "named_entries" not in big or small["limits"] != big["limits"]:
            return False
        it = iter(big["named_entries"])
        return all(any(list(a) == list(b) for b in it) for a in small["named_entries"])
    return small == big


def fingerprint_view(case):
    if "entries" in case:
        return {"entries": case["entries"]}
    if "named_entries" in case:
        # one shape per vector of (spelling, sizes): the limit setting is not part of the shape
        return {"named_entries": case["named_entries"]}
    v = case.get("variant") if isinstance(case, dict) else None
    if isinstance(v, str) and "pos" not in case and v.split(":")[0] in ("name", "alias"):
        # one shape per name spelling: the size profile of the extra member is not part of the shape
        return {"name_spelling": v.split(":")[1], "family": v.split(":")[0]}
    if "limits_zip" in case:
        # one shape per (base container, clause family): the limit value and the -1/0/+1 offset are not part of the shape
        return {"limits_zip": case["limits_zip"].split(":")[0].rstrip("+-01")}
    return case


def run(ctx):
    n = ctx.ncpu * 2
    r1 = P.run_all("verif.props.C11", "predicate_part", [(k, n, ctx.tier) for k in range(n)], n=ctx.ncpu, hard_timeout=1800)
    r2 = P.run_all("verif.props.C11", "container_part", [(f, ctx.tier) for f in FORMATS], n=ctx.ncpu, hard_timeout=1800)
    r3 = P.run_all("verif.props.C11", "ordering_part", [(f, ctx.tier) for f in FORMATS], n=ctx.ncpu, hard_timeout=1800)
    r4 = P.run_all("verif.props.C11", "history_part", [(m, f, ctx.tier) for m in ("same", "cross") for f in FORMATS], n=ctx.ncpu,
                   hard_timeout=1800)
    nu = 4 if ctx.tier == "quick" else 10
    r5 = P.run_all("verif.props.C11", "uhistory_part", [(c, k, nu, ctx.tier) for c in CARRIERS for k in range(nu)], n=ctx.ncpu,
                   hard_timeout=1800)
    r6 = P.run_all("verif.props.C11", "limits_mem_part", [(k, n, ctx.tier) for k in range(n)], n=ctx.ncpu, hard_timeout=1800)
    r7 = P.run_all("verif.props.C11", "limits_zip_part", [(b, ctx.tier) for b in LIMIT_ZIP_BASES], n=ctx.ncpu, hard_timeout=1800)
    name_infos()                          # aborts if the running zipfile disagrees with the NAME_SPELLINGS table
    r8 = P.run_all("verif.props.C11", "names_mem_part", [(k, ctx.ncpu, ctx.tier) for k in range(ctx.ncpu)], n=ctx.ncpu,
                   hard_timeout=1800)
    ev = 0
    fails = []
    outs = {}
    samples = []
    herr = []
    parts = {"predicate": 0, "container": 0, "ordering": 0, "history": 0, "history-util": 0, "limits-mem": 0, "limits-zip": 0,
             "names-mem": 0}
    for name, res in (("predicate", r1), ("container", r2), ("ordering", r3), ("history", r4), ("history-util", r5),
                      ("limits-mem", r6), ("limits-zip", r7), ("names-mem", r8)):
        for st, r, _ in res:
            if st != "done":
                herr.append(f"{name} task failed: {st}: {str(r)[-600:]}")
                continue
            ev += r["ev"]
            parts[name] += r["ev"]
            fails += [tuple(x) for x in r["fails"]]
            for k_, v in r["outs"].items():
                outs[f"{name}:{k_}"] = outs.get(f"{name}:{k_}", 0) + v
            samples += r.get("samples", [])
    cov = {"evaluations": ev, "distinct_nontrivial": len(outs),
           "rule": "(a) validate_zipfile on every vector of 0..3 entries over 43 (file_size, compress_size, is_dir) symbols x 32 limit settings "
                   "(each of the five limits at v / v+1) against an exact-rational reference; (b) 9 ZIP-container extractors x forged "
                   "central-directory variants at each default threshold -1/0/+1 (+ honest high-ratio members, directory entry ignored, entry "
                   "count 49999/50000/50001); (c) ordering monitor on zipfile.ZipFile reads vs validate_zipfile per extraction; "
                   "(d) call histories x 4 stream carriers (one BytesIO rewritten / re-initialised, fresh stream kept / dropped): "
                   + ("(d1) all ordered pairs of 7 container variants within each of 9 formats + all ordered cross-format pairs over "
                      "{minimal, honest-zeros}; (d2) all ordered pairs over 40 helper-level steps (5 documents x open_zipfile / "
                      "validate_zip_bytesio under strict / default / loose limits, ZipContext, is_odf_encrypted); "
                      if ctx.tier == "quick" else
                      "(d1) all ordered pairs over the 63 (format, variant) symbols + all triples of 7 variants within each format; "
                      "(d2) all ordered triples over 40 helper-level steps; ") +
                   "every step judged against the reference on its own bytes and limits, member reads need a covering validation; "
                   "(e) limit values: (e1) validate_zipfile on ZipInfo vectors x four limit lattices - 'ratio' ("
                   + (f"{len(RATIO_LIMITS[ctx.tier])}^2 pairs of ratio limits incl. 0, fractions below 1, quarter steps, +inf; every vector of <= 2 "
                      f"entries over {len(_ratio_alpha(ctx.tier))} symbols" + ("" if ctx.tier == "quick" else
                                                                           f" + every vector of 3 entries over {len(RATIO_ALPHA_3)} symbols x 11^2 pairs")) +
                   f"), 'mixed' (32 settings: the integer lattice of (a) x half-step ratio limits, vectors of <= {2 if ctx.tier == 'quick' else 3} "
                   "entries over the 43 symbols of (a)), 'degenerate' (32 settings: every limit 0 / 1, ratios 0.0 / 0.5), 'huge' (size limits "
                   "2**53 / 2**53+1 and 2**54+1 / 2**54+2, entry sizes 2**53-1..2**53+2); (e2) 9 minimal documents + a bare ZIP x {open_zipfile, "
                   "validate_zip_bytesio} under caller-supplied limits: forged member at L-1/0/+1 byte of the per-entry / total ratio limit "
                   f"L in {list(ZIP_RATIO_LIMITS)}, the document's own max entry ratio / total ratio bracketed by the neighbouring quarter steps, "
                   "ZIP64 member at single-size limit 2**53+1 -1/0/+1; "
                   f"(f) member name spellings ({len(NAME_SPELLINGS)}: plain file / dir, backslash, NUL + '/' / nothing / tail, 'dir/' + NUL + "
                   "name, '/' alone, empty, CP437 / UTF-8 names, unicode-path extra field valid / stale, directory attribute bits on a file "
                   "name, file attributes on a dir name; directory <=> the EFFECTIVE name zipfile hands out ends in '/'): (f1) validate_zipfile on "
                   f"real ZipInfo objects, every vector of <= 2 entries over spellings x {len(NAME_SIZES[ctx.tier])} sizes x 32 limit settings"
                   + ("" if ctx.tier == "quick" else f" + every vector of 3 entries over {len(NAME_TAGS_3)} spellings x {len(NAME_SIZES_3)} sizes")
                   + f"; (f2) 9 extractors x one extra member per spelling x profiles {list(NAME_PROFILES[ctx.tier])} + the document's own "
                   f"members re-stored under alias suffixes {sorted(ALIAS_SUFFIXES)} (with / without an honest high-ratio member); (f3) the "
                   "aliased documents through open_zipfile / validate_zip_bytesio with limits on the quarter steps around their own ratios; "
                   "distinct_nontrivial = distinct (part, variant, outcome) classes",
           "per_part": parts,
           "bounds": {"history_length": 2 if ctx.tier == "quick" else 3, "carriers": CARRIERS, "history_variants": HIST_VARIANTS,
                      "helper_steps": len(UDOCS) * len(UENTRIES), "helper_limits": sorted(ULIMITS),
                      "ratio_limits": [str(x) for x in RATIO_LIMITS[ctx.tier]], "ratio_vector_length": 2 if ctx.tier == "quick" else 3,
                      "limit_lattices": ["ratio", "mixed", "degenerate", "huge"], "zip_ratio_limits": list(ZIP_RATIO_LIMITS),
                      "zip_limit_bases": LIMIT_ZIP_BASES, "zip_entry_points": list(ZIP_ENTRY_POINTS),
                      "name_spellings": NAME_TAGS, "name_sizes": [list(x) for x in NAME_SIZES[ctx.tier]], "name_vector_length": 2 if ctx.tier == "quick" else 3,
                      "name_profiles": list(NAME_PROFILES[ctx.tier]), "alias_suffixes": sorted(ALIAS_SUFFIXES)},
           "outcomes": dict(sorted(outs.items())[:160]), "samples": samples[:6], "exhaustive": True}
    return {"coverage": cov, "failures": fails, "harness_errors": herr,
            "assumptions": ["whether directory entries count towards the entry-count limit is not settled by the statement: count-boundary "
                            "vectors contain no directories", "the 10th 'ZIP-container extractor' of the statement is read as the macro-enabled "
                            "variants routed to the same three OOXML readers; 9 distinct readers are exercised"]}
