"""C19 helper: formulas THROUGH real documents, and histories with document extractions in between.

The statement is about converting OMML trees; users reach the converter only through the DOCX / PPTX extractors
(`DocxContent.formulas`, the `$...$` parts of the DOCX full text, `PptxSlide.formulas`, the slide text). Two families:

X (document path) - PACK trees of the C19 grammar are embedded into one generated .docx / .pptx (verif/gen/ooxml.py, every
  formula in its own paragraph between two marker tokens, fresh Labeler per formula), the real `read_docx` / `read_pptx`
  extracts it and, for every formula,
    docpath  - the LaTeX in `.formulas` (with its display flag) is the string the direct `omml_to_latex` call gives for the same
               tree (a formula whose LaTeX is blank may be dropped),
    doctext  - the full text / slide text holds exactly `$latex$` (`$$latex$$` for an oMathPara) at the place of the formula.
  The oracle is the converter itself: whatever the glue between extractor and converter does to the string is a change of
  the documented LaTeX form of the tree.

H3 (document histories) - in a FRESH interpreter (pool workers are long-lived, their state is unknown): convert a probe set
  of trees (every character of the text alphabet alone in a run and as n-ary / delimiter / accent character, the node
  alphabet, the generic objects), then run a sequence of events - extract a generated .docx / .pptx / .xlsx of kind
  text / math / rich, convert a formula directly, (thorough) extract a shipped resource file - and convert the probe set
  again after every event:
    dochistory - every probe tree gives the same LaTeX as before the event (determinism: the result is a function of the tree)
    docnondet  - an event that occurs twice in the sequence observes the same formulas / text both times
"""
from __future__ import annotations

import io
import json
import os
import re
import subprocess
import sys

PACK = 16
DOC_KINDS = ("text", "math", "rich")
DOC_FORMATS = ("docx", "pptx", "xlsx")


def _tok(i, side):
    # marker tokens around formula i: letters only, never produced by the converter ("Zq" + two letters + side)
    a = "bcdfghjklmnpqrstvwxz"
    return "Zq" + a[(i // len(a)) % len(a)] + a[i % len(a)] + ("v" if side else "w")


def pack_doc(trees):
    return ["doc", {}, [["unit", [["p", [["t", _tok(i, 0)], ["math", t], ["t", _tok(i, 1)]]] for i, t in enumerate(trees)], {}]]]


def _opts(seed):
    return {"math_seed": seed, "math_word_props": True}


def direct(tree, seed):
    from verif.props import C19
    return C19._convert(tree, seed)


def _wrap(tree, latex):
    return ("$$%s$$" if tree[0] == "para" else "$%s$") % latex


def extract_pack(fmt, trees, seed):
    """-> (formulas [(latex, is_display)], text) of the generated document holding `trees`"""
    from verif.gen import ooxml
    doc = pack_doc(trees)
    if fmt == "docx":
        from sharepoint2text.parsing.extractors.ms_modern.docx_extractor import read_docx
        c = next(iter(read_docx(io.BytesIO(ooxml.docx(doc, None, _opts(seed))))))
        return [(f.latex, bool(f.is_display)) for f in c.formulas], c.full_text
    if fmt == "pptx":
        from sharepoint2text.parsing.extractors.ms_modern.pptx_extractor import read_pptx
        c = next(iter(read_pptx(io.BytesIO(ooxml.pptx(doc, None, _opts(seed))))))
        fs = []
        texts = []
        for s in c.slides:
            fs += [(f.latex, bool(f.is_display)) for f in s.formulas]
            texts.append(s.text)
        return fs, "\n".join(texts)
    raise ValueError(fmt)


def _ws(s):
    return re.sub(r"\s+", " ", s)


def _expected_text(fmt, trees, exp, drop_blank):
    items = []
    for i, (t, lx) in enumerate(zip(trees, exp)):
        blank = drop_blank and not lx.strip()
        f = "" if blank else _wrap(t, lx)
        if fmt == "docx":
            items.append(_tok(i, 0) + f + _tok(i, 1))
        else:
            if f:
                items.append(f)
            items.append(_tok(i, 0) + _tok(i, 1))
    return "\n".join(items)


def evaluate_pack(fmt, trees, seed):
    """-> [(index into trees or None, clause, message)]"""
    exp = [direct(t, seed) for t in trees]
    if any(e.startswith("!") for e in exp):
        # the direct conversion raised: reported by the `raises` clause of the tree families, nothing to compare here
        keep = [i for i, e in enumerate(exp) if not e.startswith("!")]
        out = []
        for i in keep:
            out += [(i, c, m) for _, c, m in evaluate_pack(fmt, [trees[i]], seed)]
        return out
    try:
        fs, text = extract_pack(fmt, trees, seed)
    except NotImplementedError:
        raise
    except Exception as e:  # noqa
        if len(trees) == 1:
            return [(0, "docpath", f"extracting the .{fmt} that holds the formula raised {type(e).__name__}: {e}")]
        return _singly(fmt, trees, seed)
    want = [(lx, t[0] == "para") for t, lx in zip(trees, exp)]
    want_nb = [w for w in want if w[0].strip()]
    ok_f = sorted(fs) == sorted(want_nb) or sorted(fs) == sorted(want)
    ok_t = text in (_expected_text(fmt, trees, exp, True), _expected_text(fmt, trees, exp, False))
    if not ok_t:
        # the extractors normalise blank lines / whitespace runs of a paragraph as a whole (not a matter of the
        # conversion): the amount and kind of whitespace is not compared, its presence is
        ok_t = _ws(text) in (_ws(_expected_text(fmt, trees, exp, True)), _ws(_expected_text(fmt, trees, exp, False)))
    if ok_f and ok_t:
        return []
    if len(trees) > 1:
        return _singly(fmt, trees, seed)
    out = []
    if not ok_f:
        out.append((0, "docpath", f".{fmt} formulas {fs!r}, direct conversion of the same tree gives {want!r}"))
    if not ok_t:
        out.append((0, "doctext", f".{fmt} text {text!r}, expected {_expected_text(fmt, trees, exp, True)!r}"))
    return out


def _singly(fmt, trees, seed):
    out = []
    for i, t in enumerate(trees):
        out += [(i, c, m) for _, c, m in evaluate_pack(fmt, [t], seed)]
    if not out:
        out.append((None, "docpack", f"a .{fmt} with {len(trees)} formulas differs from the direct conversions, "
                                      f"but no formula does on its own"))
    return out


# ---------------------------------------------------------------- histories


def probe_trees(tier):
    from verif.props import C19
    L = [C19.R("L")]
    out = []
    for c in C19.char_alphabet(tier):
        out.append(["omath", [["r", [c]]]])
        out.append(["omath", [["nary", c, None, None, L]]])
        out.append(["omath", [["d", c, c, [L]]]])
        out.append(["omath", [["acc", c, L]]])
    for n in C19.node_alphabet() + C19.generic_nodes():
        out.append(["omath", [C19.R("L"), n, C19.R(")"), C19.R("L")]])
    return out


MATH_TREES = None


def _math_trees():
    from verif.props import C19
    L = [C19.R("L")]
    ts = [["omath", [n]] for n in C19.node_alphabet() if n[0] != "r"]
    ts += [["para", [["f", L, [C19.R("α")]]]], ["omath", [["r", ["∑", 0, "∞"]]]], ["props", [["sSup", L, L]]]]
    return ts


def event_doc(fmt, kind):
    """ADM document of an event"""
    T = lambda s: ["t", s]
    if fmt == "xlsx":
        grid = [[["s", "Chdrzz"], ["s", "Chdrbb"]], [["s", "Czzzzz"], ["i", 7]]]
        if kind != "text":
            grid.append([["f", 1.5], ["b", True]])
        return ["doc", {} if kind == "text" else {"title": "Bttttt"}, [["sheet", "Nzzzzz", grid]]], None
    if kind == "text":
        return ["doc", {}, [["unit", [["p", [T("Bzzzzz")]]], {}]]], None
    if kind == "math":
        return pack_doc(_math_trees()), None
    # rich: headings, lists, table, image, link (+ the annotations each format can express)
    png = None
    from verif.gen import ooxml
    png = ooxml.PNG_1X1
    blocks = [["h", 1, [T("Hzzzzz")]], ["p", [T("Bzzzzz"), ["tab"], T("Bbbbbb"), ["br"], ["a", "http://example.com/x", [T("Kzzzzz")]]]],
              ["ul", [[["p", [T("Lzzzzz")]]], [["p", [T("Lbbbbb")]]]]],
              ["tbl", [[[["p", [T("Czzzzz")]]], [["p", [T("Cbbbbb")]]]], [[["p", [T("Ccccc")]]], [["p", [T("Cddddd")]]]]]],
              ["img", "k1"]]
    extras = {}
    meta = {"title": "Bttttt", "author": "Bvvvvv"}
    if fmt == "docx":
        blocks.append(["p", [["ins", "Izzzzz"], ["del", "Dzzzzz"], ["cref", "Mzzzzz"], ["fn", "Zzzzzz"], ["sdt", [T("Szzzzz")]]]])
        meta.update({"header": "Rzzzzz", "footer": "Rbbbbb"})
    else:
        extras = {"notes": ["Pzzzzz"], "comments": ["Mzzzzz"]}
    return ["doc", meta, [["unit", blocks, extras], ["unit", [["p", [T("Bccccc")]]], {}]]], {"k1": (png, "png")}


def run_event(ev, seed):
    """-> JSON-able observation"""
    k = ev[0]
    if k == "conv":
        return direct(ev[1], seed)
    if k == "file":
        import sharepoint2text
        path = os.path.join(os.path.dirname(sharepoint2text.__file__), "tests", "resources", ev[1])
        try:
            return [c.get_full_text() for c in sharepoint2text.read_file(path)]
        except Exception as e:  # noqa
            return "!" + type(e).__name__
    from verif.gen import ooxml
    doc, images = event_doc(k, ev[1])
    data = getattr(ooxml, k)(doc, images, _opts(seed) if k != "xlsx" else None)
    if k == "docx":
        from sharepoint2text.parsing.extractors.ms_modern.docx_extractor import read_docx as rd
    elif k == "pptx":
        from sharepoint2text.parsing.extractors.ms_modern.pptx_extractor import read_pptx as rd
    else:
        from sharepoint2text.parsing.extractors.ms_modern.xlsx_extractor import read_xlsx as rd
    try:
        return _observe(rd, data)
    except Exception as e:  # noqa   (an extraction failure is the business of other properties; the event has happened)
        return "!" + type(e).__name__


def _observe(rd, data):
    obs = []
    for c in rd(io.BytesIO(data)):
        obs.append(c.get_full_text())
        fs = getattr(c, "formulas", None)
        if fs is None and hasattr(c, "slides"):
            fs = [f for s in c.slides for f in s.formulas]
            obs.append([s.text for s in c.slides])
        obs.append([[f.latex, bool(f.is_display)] for f in (fs or [])])
    return obs


def resource_files():
    import sharepoint2text
    root = os.path.join(os.path.dirname(sharepoint2text.__file__), "tests", "resources")
    out = []
    for d, _, fs in sorted(os.walk(root)):
        for f in sorted(fs):
            out.append(os.path.relpath(os.path.join(d, f), root))
    return out


def history_main(job):
    """Runs inside the fresh interpreter. job = {"seed", "tier", "events", "probe": None | [tree...], "cap"}"""
    from verif.props import C19
    from sharepoint2text.parsing.extractors.util.omml_to_latex import omml_to_latex
    seed = job["seed"]
    trees = job.get("probe") or probe_trees(job["tier"])
    cap = job.get("cap", 3)
    # one and the same in-memory tree per probe, converted again and again (building is not what is probed)
    roots = [C19.build(t, C19.Labeler(seed)) for t in trees]

    def convert_all():
        out = []
        for r in roots:
            try:
                out.append(omml_to_latex(r))
            except Exception as e:  # noqa
                out.append("!" + type(e).__name__)
        return out
    base = convert_all()
    fails = []
    seen = {}
    for i, ev in enumerate(job["events"]):
        obs = run_event(ev, seed)
        key = json.dumps(ev, sort_keys=True)
        if key in seen and seen[key][1] != obs:
            j = seen[key][0]
            fails.append(["docnondet", job["events"][j:i + 1], None,
                          f"event {ev} observed {json.dumps(obs)[:300]} the second time, {json.dumps(seen[key][1])[:300]} the first time"])
        seen.setdefault(key, (i, obs))
        now = convert_all()
        n = 0
        for t, b, g in zip(trees, base, now):
            if b != g:
                n += 1
                if n <= cap:
                    fails.append(["dochistory", job["events"][:i + 1], t,
                                  f"after {ev} the formula {t} converts to {g!r}, before (fresh process) to {b!r}"])
        base = now      # later events are judged against the state they start from
    return {"fails": fails, "probes": len(trees), "events": len(job["events"])}


def run_history(job, timeout=1500):
    """Run history_main(job) in a fresh interpreter (same environment / PYTHONPATH as this process)."""
    p = subprocess.run([sys.executable, "-B", "-m", "verif.props.c19_docs"], input=json.dumps(job).encode(),
                       stdout=subprocess.PIPE, stderr=subprocess.PIPE, env=dict(os.environ), timeout=timeout)
    if p.returncode != 0:
        raise RuntimeError("history child failed (exit %s): %s" % (p.returncode, p.stderr.decode("utf-8", "replace")[-1500:]))
    return json.loads(p.stdout.decode())


def event_alphabet(tier):
    from verif.props import C19
    evs = [[f, k] for f in DOC_FORMATS for k in DOC_KINDS if not (f == "xlsx" and k == "math")]
    evs.append(["conv", ["omath", [["rad", None, None], ["f", [C19.R("α")], None]]]])
    return evs


def history_sequences(tier):
    """quick: the event alphabet in order and reversed (each event once, probe after every event), plus one sequence that
    repeats the math documents around the other formats. thorough: every rotation, every ordered pair from a fresh
    interpreter, and the shipped resource files in sorted order."""
    evs = event_alphabet(tier)
    seqs = [evs, evs[::-1], [["docx", "math"], ["pptx", "math"], ["xlsx", "text"], ["pptx", "text"], ["docx", "math"], ["pptx", "math"]]]
    if tier != "quick":
        for i in range(1, len(evs)):
            seqs.append(evs[i:] + evs[:i])
        for a in evs:
            for b in evs:
                seqs.append([a, b, a])
        files = [["file", f] for f in resource_files()]
        if files:
            seqs.append(files)
            seqs.append(files[::-1])
    return seqs


if __name__ == "__main__":
    import logging
    import warnings
    warnings.simplefilter("ignore")
    logging.disable(logging.CRITICAL)
    _job = json.loads(sys.stdin.buffer.read().decode())
    _res = history_main(_job)
    sys.stdout.write(json.dumps(_res))
