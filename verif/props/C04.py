"""C04 - every result honours the common interface, for any input.

Space I (inputs) x H (accessor-call histories of length <= 2), bounded-exhaustive, no sampling.

Results corpus (every document is run through the extractor the router selects for its extension):
  (fix)   every file under /repo/sharepoint2text/tests/resources;
  (rich)  per reference writer of verif.gen (24 formats, verif.props.c04_corpus) one document using every body feature the
          writer can express (paragraph, non-BMP/RTL/markup text, heading, table, picture, list, link, typed cells,
          attachments, second unit, notes, header/footer) and every storable document property set to a value holding all
          value features (inner space, double space, & < > " ' the literal text "&amp;", { } backslash, the euro sign
          (0x80 in code page 1252), non-BMP, RTL); plus one variant of it per damaging feature the writer can express:
          lone surrogate (rtf, ppt, xls), dangling / external picture references (ooxml, odf, epub), \\'xx escapes (rtf);
  (body)  per format the empty document and every single body feature on its own; the features include the POSITION
          MODIFIERS hu / tblu / ulu / au / notesu / hfu: the non-BMP / RTL / markup characters of "uni" inside a heading, table
          cells, list items, link text, speaker notes, page header + footer (every place where text lives has its own decoding
          path; each modifier also gets a variant of the rich document);
  (meta)  per format: each storable property alone (plain value), and all storable properties together with no / each single
          value feature (16 documents; RTF: also with the \\'xx and the \\uN\\'xx writer variants);
  (mpos)  the VALUE-POSITION family: per format with storable properties, all of them set to a value in which one value feature
          character (each of the 12 non-white-space ones: & < > " ' &amp; { } backslash, euro sign, non-BMP, RTL) sits at the START
          of the value, at its END (the last thing before the field's closing delimiter) or is the WHOLE value - the other families
          put every feature between two tokens; RTF: x the three writer spellings of non-ASCII text (\\uN?, \\'xx, and \\uN\\'xx =
          escape + one-byte hex fallback, what Word writes); quick = thorough (36 documents per format and spelling);
  (mut)   single-deviation byte mutations of the small document [paragraph, non-BMP/RTL paragraph, table, picture, title]
          of every format (archives: three members txt / html / md):
          truncation at i*len/16, byte XOR 0xFF / 0x01 / 0x20 at i*len/64, and for ZIP packages byte XOR 0x01 / 0x20
          at i*len/64 inside each of three parts (main part, properties part, a relationship/manifest part; package
          re-zipped); quick: every 2nd truncation, every 4th offset, no XOR 0x20, main part only. thorough also mutates
          every fixture (truncation, the three XORs; quick: only the .doc and .msg fixtures - the formats without a
          writer - with the quick offsets).  Only mutants that are still accepted (a result list comes back) are judged;
  (pic)   the PICTURE family (verif.props.c04_pics), 11 formats that can hold a picture (docx pptx xlsx odt odp odg ods rtf ppt xls
          epub): the document [paragraph, picture] with the picture's payload kind in {png, jpeg, gif, bmp, bmpv5, tiff, emf, wmf,
          pict, unk, empty, png0, pngsig} (ppt / xls: as the OfficeArt BLIP record of the kind, with one or two UIDs), and the frame's
          display size (w, h) drawn from the size lexemes of the format: 33 ODF lengths and damaged forms of them (odt odp odg ods:
          svg:width / svg:height), 14 integer lexemes (docx pptx xlsx: cx / cy extents; rtf: the picw pich picwgoal pichgoal keywords).
          quick: every kind x {natural size, (zero, zero)} and the PNG with (l, ok), (ok, l), (l, l) for every lexeme l;
          thorough: every kind x those pair forms, and the PNG with every (w, h) of lexemes x lexemes;
  (lab)   the PICTURE-LABEL family (verif.props.c04_pics), 8 formats whose pictures carry label slots (the texts behind get_caption() /
          get_description()): odt odp odg ods (svg:title and svg:desc elements, draw:name attribute; odt also the caption paragraph of
          an enclosing text-box frame), docx pptx xlsx (title, descr, name attributes of the non-visual properties), epub (title, alt
          attributes): the document [paragraph, PNG picture] with every slot in one of its states - element slot: absent, empty
          element, white space, text, non-BMP/RTL/markup text, two lines, comment only, CDATA; attribute slot: natural, absent, "",
          white space, text, non-BMP/RTL/markup text, &#10;; caption paragraph: none, picture only, text, non-BMP/RTL/markup, with a
          text:sequence number.  quick: every pair of slots x every pair of their states (the other slots natural);
          thorough: the full product of the slots' states;
  (pfile) the PICTURE STORAGE-NAME family (verif.props.c04_pics), 8 package formats (odt odp odg ods docx pptx xlsx epub): the document
          [paragraph, picture] with the picture's package member - and every reference to it - named by each of 37 name lexemes
          (34 for OOXML): upper-case / other-media / text / unknown / numeric / 200-letter suffix, no suffix, trailing dot, suffix only,
          two suffixes, non-ASCII stem / suffix, and each of the 11 compression / alias suffixes of the platform MIME table (.gz .Z .bz2
          .xz .br .svgz .tgz .taz .tz .tbz2 .txz) alone and stacked on .png; quick: the PNG payload; thorough: PNG, bytes of no picture
          format, zero bytes;
  (pmem)  the PICTURE MEMBER-STATE family (verif.props.c04_pics), the 8 package formats: the documents [paragraph, picture] and
          [paragraph, picture, paragraph, picture] with each picture's package member in one of the states ok / crc (CRC-32 mismatch:
          listed, but the read fails) / method (unknown compression method) / enc (encryption flag) / absent; thorough also crc8 (CRC
          damage on a deflated member) and bz2 (valid bzip2 member): one picture x every non-ok state, two pictures x every pair of
          states (not both ok) - 28 documents per format (thorough 54);
  (keys)  the PROPERTY-NAME family (verif.props.c04_keys), 13 formats with an open property namespace (html mhtml epub odt odp odg ods
          docx pptx xlsx rtf eml mbox): the document [paragraph, every storable property with a plain value] plus one extra property whose
          NAME is chosen by the file: every attribute name of every metadata class of the library (reflected: filename, file_extension,
          file_path, folder_path, detected_encoding, title, ... 49 names) and 8 special names (methods / dunder attributes of the metadata
          object, unknown names), spelled as is / upper-case / with hyphens, in every slot of the format (html: meta name / property /
          http-equiv / itemprop, meta in the body; epub: OPF meta name / meta property / dc element, chapter meta; ODF: user-defined /
          meta: / dc: element; OOXML: custom property, dc: / cp: core element, app.xml element; rtf: user property, info keyword;
          mail: header field, X- header field); names the format defines itself in that slot are left out; quick: spelling as is
          (html, mhtml: all three);
  (cs)    the CHARACTER-ENCODING family (verif.props.c04_charsets): html, mhtml with each of 27 declared charset labels (standard
          ones, 7-bit transfer forms, Python-specific codec names, non-text codecs, unknown, empty) x the ways a label reaches the
          reader (meta charset, meta http-equiv, byte-order mark; MIME part parameter), plain text (txt; thorough: md csv json) with
          each of 8 signatures; title and paragraph carry every spelling of a lone surrogate / non-scalar code point (UTF-7, escape
          notations, character references, raw CESU / UTF-16 / overlong / too-large bytes);
  (doclines) the LINE-RECOMBINATION family for .doc, the format without writer (verif.props.c04_doctext): every .doc fixture with
          its main text (located through FIB and piece table) replaced by every sequence of <= 2 (thorough: <= 3) of its own first
          12 distinct lines - container, properties and pictures stay;
x path arguments {None, "a.ext", "dir/a.ext", "/abs/none/a.ext", an existing temp file, "ü ä.ext", "arch.zip!/d/a.ext",
  "", "."}  (mutants that are rejected with path None are not re-run with the other eight; fixture mutants: None only;
  quick: generated mutants with None, the temp file and the unicode name only; pic and cs families: None and the unicode name -
  the path does not reach pictures or decoders; lab, pfile, pmem, keys, mpos: None, thorough also the unicode name;
  doclines: None).

On every result, and every unit / image / table reachable from it (iterate_units / iterate_images / iterate_tables,
unit.get_images / unit.get_tables), the accessor alphabet - discovered by reflection from the Protocol classes
ExtractionInterface, UnitInterface, ImageInterface, TableInterface in data_types.py: the public methods that take no
argument - is called: each accessor once, then all ordered pairs (a, b) on the same object (a's return value is consumed:
iterators exhausted, streams read to the end), and b's return value is judged again.

A case is plain JSON: {"body": [...], "meta": {key: [value features]}, "mut": null | [kind, ...], "path": kind}
(fmt = format; meta value features may end with one position modifier pstart / pend / palone;
picture families: + "pic": {"kind", "w", "h", "uid2", "title", "desc", "name", "cap", "file", "mem", "mem2"} with only the
non-default components, body ["text", "img"];
encoding family: + "cs": {"label", "form"}, body ["text"]; property-name family: + "key": {"name", "form", "sp"}, body ["text"], meta: every
storable property []) or {"file": fixture, "mut": ..., "path": kind}
(fmt = "fix-<extractor the router selects>"; line recombination: + "lines": [indices]).

Oracle clauses (the clause name carries the object kind and accessor):
  raises:<k>.<acc>   the accessor raised
  type:<k>.<acc>     return value is not of the declared kind (str / dict / list / stream with read+tell / FileMetadataInterface /
                     items offering the unit, image or table alphabet / TableDim-like rows+columns ints)
  utf8:<k>.<acc>     a str returned by a text accessor - or reachable in to_json(), in the metadata object, in table cells -
                     cannot be encoded as UTF-8
  number:unit, number:image, number:image-unit   unit_number / image_number is not an int >= 1 (an image's unit_number
                     may be None: documented for formats without pages)
  stream:image.get_bytes   the stream is not positioned at 0;  size:image.get_bytes  len(read()) != the object's size_bytes
  dim:table.get_dim  (rows, columns) != (len(t), max(len(row) for row in t) or 0) of get_table()
  filemeta           filename / file_extension / folder_path differ from the path argument's name / suffix / parent
                     (all three None when the path is None)
  docprops           (unmutated generated documents) a stored property is not equal to any of the metadata attributes that
                     carry it (title; author|creator|initial_creator; subject; keywords; description|comments|doc_comment)
  after:<clause>     the clause holds on the first call but fails for b in some pair (a, b)
"""
from __future__ import annotations

import inspect
import io
import os
import random
import shutil
import tempfile
from pathlib import Path

from verif.mc import pool as P
from verif.props import c04_corpus as K
from verif.props import c04_pics as PX
from verif.props import c04_charsets as CS
from verif.props import c04_doctext as DT
from verif.props import c04_keys as KY

LEVEL = "exploration"
RES_DIR = "/repo/sharepoint2text/tests/resources"
PATH_KINDS = ["none", "rel", "dir", "abs", "tmp", "uni", "arch", "empty", "dot"]
QUICK_MUT_PATHS = ["none", "tmp", "uni"]      # quick: accepted mutants are run with three of the nine path arguments
PIC_PATHS = ["none", "uni"]                   # picture family: the path argument does not reach the pictures; two of the nine
PROP_ATTRS = {"title": ("title",), "author": ("author", "creator", "initial_creator"), "subject": ("subject",),
              "keywords": ("keywords",), "description": ("description", "comments", "doc_comment")}
EXT = {f: f for f in K.FORMATS}
SMALL_BODY = ["text", "uni", "tbl", "img"]
SMALL_BODY_ARCHIVE = ["text", "uni", "u2"]        # members b.txt, "ü ä/c.html", d/e/f.md (a DOCX member would only repeat the DOCX mutants)
SMALL_META = {"title": []}
PIC_BODY = ["text", "img"]                    # the document of the picture family: one paragraph, one picture (c04_pics)
NO_WRITER_EXT = ("doc", "msg")
ARCHIVE_EXT = ("zip", "tar", "7z", "tgz", "tbz2", "txz", "gz", "bz2", "xz")
FIXTURE_MUT_MAX_BYTES = 2_500_000


# ------------------------------------------------------------------------------------------------ accessor alphabet

_ALPHA = None


def alphabets():
    """{kind: [accessor names]} discovered from the Protocol classes: public functions whose only parameter is self."""
    global _ALPHA
    if _ALPHA is None:
        from sharepoint2text.parsing.extractors import data_types as D
        out = {}
        for kind, cls in (("result", D.ExtractionInterface), ("unit", D.UnitInterface), ("image", D.ImageInterface),
                          ("table", D.TableInterface)):
            names = []
            for n, v in vars(cls).items():
                if n.startswith("_") or not inspect.isfunction(v):
                    continue
                if list(inspect.signature(v).parameters) == ["self"]:
                    names.append(n)
            out[kind] = sorted(names)
        _ALPHA = out
    return _ALPHA


# ------------------------------------------------------------------------------------------------ paths

def path_for(kind, ext, data, tmpdirs):
    if kind == "none":
        return None
    if kind == "rel":
        return "a" + ext
    if kind == "dir":
        return "dir/a" + ext
    if kind == "abs":
        return "/abs/none/a" + ext
    if kind == "uni":
        return "ü ä" + ext
    if kind == "arch":
        return "arch.zip!/d/a" + ext
    if kind == "empty":
        return ""
    if kind == "dot":
        return "."
    if kind == "tmp":
        d = tempfile.mkdtemp(prefix="verif-c04-")
        tmpdirs.append(d)
        p = os.path.join(d, "a" + ext)
        with open(p, "wb") as f:
            f.write(data)
        return p
    raise ValueError(kind)


def _triple_ok(md, p):
    """does (filename, file_extension, folder_path) of md follow from path string p?"""
    pp = Path(p)
    exts = {pp.suffix, "".join(pp.suffixes)}
    folders = {str(pp.parent), os.path.dirname(p)}
    try:
        folders.add(str(pp.parent.resolve()))
    except Exception:  # noqa
        pass
    return md.filename == pp.name and md.file_extension in exts and md.folder_path in folders


def judge_filemeta(md, path, members, is_archive_fixture):
    """-> message | None"""
    got = (getattr(md, "filename", "<absent>"), getattr(md, "file_extension", "<absent>"), getattr(md, "folder_path", "<absent>"))
    if "<absent>" in got:
        return f"metadata object has no filename / file_extension / folder_path attributes: {got}"
    if is_archive_fixture:
        return None
    if members:
        # archive: every result belongs to a member; its path is "<archive path>!/<member>" (member name alone without a path)
        for m in members:
            if _triple_ok(md, m) or (path and _triple_ok(md, f"{path}!/{m}")):
                return None
        return f"path {path!r}, archive members {members}: (filename, extension, folder) = {got} derives from no member path"
    if path is None:
        return None if got == (None, None, None) else f"no path given but (filename, extension, folder) = {got}"
    if path == "" and got == (None, None, None):
        return None
    if _triple_ok(md, path):
        return None
    pp = Path(path)
    return f"path {path!r}: (filename, extension, folder) = {got}, expected ({pp.name!r}, {pp.suffix!r}, {str(pp.parent)!r} or its resolved form)"


# ------------------------------------------------------------------------------------------------ judging

def _bad_str(x, depth=0):
    """first str reachable in x (dict keys and values, lists, tuples, attributes of plain objects are NOT followed) that is
    not UTF-8 encodable -> repr snippet | None"""
    stack = [x]
    while stack:
        y = stack.pop()
        if isinstance(y, str):
            try:
                y.encode("utf-8")
            except UnicodeEncodeError as e:
                return f"{y[max(0, e.start - 10):e.start + 10]!a} (position {e.start} of {len(y)})"
        elif isinstance(y, dict):
            stack.extend(y.keys())
            stack.extend(y.values())
        elif isinstance(y, (list, tuple)):
            stack.extend(y)
    return None


def _is_int(x):
    return isinstance(x, int) and not isinstance(x, bool)


def _offers(obj, kind):
    return all(callable(getattr(obj, n, None)) for n in alphabets()[kind])


def _attrs(obj):
    try:
        return dict(vars(obj))
    except TypeError:
        return {}


class Ctx:
    def __init__(self, path, props, members, is_archive_fixture):
        self.path = path
        self.props = props
        self.members = members
        self.is_archive_fixture = is_archive_fixture
        self.fails = {}
        self.calls = 0
        self.unjudged_props = set()

    def fail(self, clause, msg):
        self.fails.setdefault(clause, msg)


def call(obj, acc):
    """-> ("ok", consumed value) | ("raises", text). Iterators are exhausted into lists."""
    try:
        v = getattr(obj, acc)()
        if acc.startswith("iterate_"):
            v = list(v)
        return "ok", v
    except Exception as e:  # noqa
        return "raises", f"{type(e).__name__}: {str(e)[:200]}"


def judge(kind, obj, acc, v, ctx):
    """oracle for the return value v of obj.acc() -> [(clause, message)]"""
    out = []
    where = f"{kind}.{acc}"
    tname = type(obj).__name__

    def text():
        if not isinstance(v, str):
            out.append((f"type:{where}", f"{tname}.{acc}() returned {type(v).__name__}, not str"))
        else:
            b = _bad_str(v)
            if b:
                out.append((f"utf8:{where}", f"{tname}.{acc}() is not encodable as UTF-8: ...{b}..."))

    def items(k):
        if not isinstance(v, list):
            out.append((f"type:{where}", f"{tname}.{acc}() returned {type(v).__name__}, not a list"))
        else:
            bad = [type(x).__name__ for x in v if not _offers(x, k)]
            if bad:
                out.append((f"type:{where}", f"{tname}.{acc}() yields {bad[0]} which lacks accessors of the {k} interface"))

    def json_like():
        if not isinstance(v, dict):
            out.append((f"type:{where}", f"{tname}.{acc}() returned {type(v).__name__}, not dict"))
        else:
            b = _bad_str(v)
            if b:
                out.append((f"utf8:{where}", f"a str inside {tname}.{acc}() is not encodable as UTF-8: ...{b}..."))

    if kind == "result":
        if acc == "get_full_text":
            text()
        elif acc == "iterate_units":
            items("unit")
        elif acc == "iterate_images":
            items("image")
        elif acc == "iterate_tables":
            items("table")
        elif acc == "to_json":
            json_like()
        elif acc == "get_metadata":
            from sharepoint2text.parsing.extractors.data_types import FileMetadataInterface
            if not isinstance(v, FileMetadataInterface):
                out.append((f"type:{where}", f"{tname}.get_metadata() returned {type(v).__name__}, not a FileMetadataInterface"))
            else:
                b = _bad_str(list(_attrs(v).values()))
                if b:
                    out.append((f"utf8:{where}", f"a str attribute of {type(v).__name__} is not encodable as UTF-8: ...{b}..."))
                m = judge_filemeta(v, ctx.path, ctx.members, ctx.is_archive_fixture)
                if m:
                    out.append(("filemeta", f"{type(v).__name__}: {m}"))
                bad = []
                for key, want in (ctx.props or {}).items():
                    cands = [a for a in PROP_ATTRS[key] if hasattr(v, a)]
                    if not cands:
                        ctx.unjudged_props.add(f"{type(v).__name__}.{key}")
                        continue
                    got = {a: getattr(v, a) for a in cands}
                    if not any(g == want for g in got.values()):
                        bad.append(f"stored {key} {want!r} is reported as {got}")
                if bad:
                    out.append(("docprops", f"{type(v).__name__}: " + "; ".join(bad)))
    elif kind == "unit":
        if acc == "get_text":
            text()
        elif acc == "get_images":
            items("image")
        elif acc == "get_tables":
            items("table")
        elif acc == "to_json":
            json_like()
        elif acc == "get_metadata":
            n = getattr(v, "unit_number", "<absent>")
            if not (_is_int(n) and n >= 1):
                out.append(("number:unit", f"{tname}.get_metadata() = {type(v).__name__} with unit_number {n!r}, not an int >= 1"))
            b = _bad_str(list(_attrs(v).values()))
            if b:
                out.append((f"utf8:{where}", f"a str attribute of {type(v).__name__} is not encodable as UTF-8: ...{b}..."))
    elif kind == "image":
        if acc == "get_bytes":
            if not (callable(getattr(v, "read", None)) and callable(getattr(v, "tell", None))):
                out.append((f"type:{where}", f"{tname}.get_bytes() returned {type(v).__name__}, not a readable stream"))
            else:
                try:
                    pos = v.tell()
                    data = v.read()
                except Exception as e:  # noqa
                    out.append((f"stream:{where}", f"{tname}.get_bytes(): tell()/read() raised {type(e).__name__}: {e}"))
                    return out
                if not isinstance(data, bytes):
                    out.append((f"type:{where}", f"{tname}.get_bytes().read() returned {type(data).__name__}, not bytes"))
                    return out
                if pos != 0:
                    out.append((f"stream:{where}", f"{tname}.get_bytes() is positioned at {pos}, not 0"))
                    return out
                if hasattr(obj, "size_bytes"):
                    sz = obj.size_bytes
                    if sz != len(data):
                        out.append((f"size:{where}", f"{tname}.size_bytes = {sz!r} but get_bytes() holds {len(data)} bytes"))
        elif acc in ("get_content_type", "get_caption", "get_description"):
            text()
        elif acc == "get_metadata":
            n = getattr(v, "image_number", "<absent>")
            if not (_is_int(n) and n >= 1):
                out.append(("number:image", f"{tname}.get_metadata().image_number = {n!r}, not an int >= 1"))
            u = getattr(v, "unit_number", "<absent>")
            if not (u is None or (_is_int(u) and u >= 1)):
                out.append(("number:image-unit", f"{tname}.get_metadata().unit_number = {u!r}, neither None nor an int >= 1"))
            b = _bad_str([dict(v)] if isinstance(v, dict) else list(_attrs(v).values()))
            if b:
                out.append((f"utf8:{where}", f"a str inside {type(v).__name__} is not encodable as UTF-8: ...{b}..."))
    elif kind == "table":
        if acc == "get_table":
            if not (isinstance(v, list) and all(isinstance(r, list) for r in v)):
                out.append((f"type:{where}", f"{tname}.get_table() is not a list of lists ({type(v).__name__})"))
            else:
                b = _bad_str(v)
                if b:
                    out.append((f"utf8:{where}", f"a cell of {tname}.get_table() is not encodable as UTF-8: ...{b}..."))
        elif acc == "get_dim":
            r, c = getattr(v, "rows", None), getattr(v, "columns", None)
            if not (_is_int(r) and _is_int(c)):
                out.append((f"type:{where}", f"{tname}.get_dim() = {v!r} has no int rows / columns"))
            else:
                st, t = call(obj, "get_table")
                if st == "ok" and isinstance(t, list) and all(isinstance(x, list) for x in t):
                    shape = (len(t), max((len(x) for x in t), default=0))
                    if (r, c) != shape:
                        out.append((f"dim:{where}", f"{tname}.get_dim() = ({r}, {c}) but get_table() has shape {shape}"))
    return out


def _consume(v):
    try:
        if callable(getattr(v, "read", None)):
            v.read()
    except Exception:  # noqa
        pass


def exercise(kind, obj, ctx):
    """each accessor once, then all ordered pairs. -> {acc: value} of the single calls"""
    alpha = alphabets()[kind]
    first = {}
    failed = set()
    for acc in alpha:
        st, v = call(obj, acc)
        ctx.calls += 1
        if st == "raises":
            ctx.fail(f"raises:{kind}.{acc}", f"{type(obj).__name__}.{acc}() raised {v}")
            failed.add(f"raises:{kind}.{acc}")
            continue
        first[acc] = v
        for c, m in judge(kind, obj, acc, v, ctx):
            ctx.fail(c, m)
            failed.add(c)
    for a in alpha:
        for b in alpha:
            st, v = call(obj, a)
            if st == "ok":
                _consume(v)
            st, v = call(obj, b)
            ctx.calls += 2
            if st == "raises":
                c = f"raises:{kind}.{b}"
                if c not in failed:
                    ctx.fail("after:" + c, f"{type(obj).__name__}.{b}() raised {v} when called after {a}()")
                continue
            for c, m in judge(kind, obj, b, v, ctx):
                if c not in failed:
                    ctx.fail("after:" + c, f"after {a}(): {m}")
    return first


def check_results(results, ctx):
    """-> (n_units, n_images, n_tables, class names)"""
    nu = ni = nt = 0
    classes = set()
    for r in results:
        classes.add(type(r).__name__)
        if not _offers(r, "result"):
            ctx.fail("type:extract", f"a yielded object of type {type(r).__name__} lacks accessors of the result interface")
        first = exercise("result", r, ctx)
        units = [u for u in first.get("iterate_units", []) or []]
        images = list(first.get("iterate_images", []) or [])
        tables = list(first.get("iterate_tables", []) or [])
        seen = {id(x) for x in images} | {id(x) for x in tables}
        for u in units:
            fu = exercise("unit", u, ctx)
            for key, bucket in (("get_images", images), ("get_tables", tables)):
                xs = fu.get(key)
                if isinstance(xs, list):
                    for x in xs:
                        if id(x) not in seen:
                            seen.add(id(x))
                            bucket.append(x)
        for im in images:
            exercise("image", im, ctx)
        for t in tables:
            exercise("table", t, ctx)
        nu += len(units)
        ni += len(images)
        nt += len(tables)
    return nu, ni, nt, sorted(classes)


# ------------------------------------------------------------------------------------------------ one case

def _fixture_ext(rel):
    base = os.path.basename(rel)
    return base[base.index("."):] if "." in base else ""


def materialise(fmt, case, seed):
    """-> None (case does not exist) | dict(data, props, members, ext, name, archive_fixture)"""
    mut = case.get("mut")
    if fmt.startswith("fix-"):
        p = os.path.join(RES_DIR, case["file"])
        if not os.path.isfile(p):
            return None
        with open(p, "rb") as f:
            data = f.read()
        ext = _fixture_ext(case["file"])
        if case.get("lines") is not None:
            if mut or ext.lower() != ".doc":
                return None
            data = DT.substitute(data, case["lines"])
            if data is None:
                return None
        if mut:
            data = K.mutate(None, data, mut)
            if data is None:
                return None
        return {"data": data, "props": {}, "members": [], "ext": ext, "name": os.path.basename(case["file"]),
                "archive_fixture": ext.lstrip(".").split(".")[-1].lower() in ARCHIVE_EXT}
    if fmt not in K.FORMATS:
        return None
    meta = case.get("meta") or {}
    if any(k not in K.META_KEYS or not K.valid_value(v) for k, v in meta.items()):
        return None
    if case.get("pic") is not None:
        if (not PX.valid(fmt, case["pic"]) or meta or list(case.get("body") or []) != PIC_BODY or case.get("cs") is not None
                or case.get("key") is not None):
            return None
        d = PX.build(fmt, case["pic"], K.Tokens(seed))
    elif case.get("cs") is not None:
        if not CS.valid(fmt, case["cs"]) or meta or list(case.get("body") or []) != CS.CS_BODY or case.get("key") is not None:
            return None
        d = CS.build(fmt, case["cs"], K.Tokens(seed))
    elif case.get("key") is not None:
        if not KY.valid(fmt, case["key"]) or list(case.get("body") or []) != KY.KEY_BODY or meta != {k: [] for k in K.META_CAPS.get(fmt, ())}:
            return None
        d = KY.build(fmt, case["key"], K.Tokens(seed))
    else:
        d = K.build(fmt, case.get("body") or [], meta, seed)
    data = d["data"]
    if mut:
        data = K.mutate(fmt, data, mut)
        if data is None:
            return None
    return {"data": data, "props": ({} if mut else d["props"]), "members": d["members"], "ext": "." + EXT[fmt], "name": "a." + EXT[fmt],
            "archive_fixture": False}


def run_doc(doc, path_kind):
    """extract doc with one path argument and exercise the results -> (fails dict, outcome str, stats)"""
    import sharepoint2text
    tmp = []
    try:
        path = path_for(path_kind, doc["ext"], doc["data"], tmp)
        try:
            ex = sharepoint2text.get_extractor(doc["name"])
            results = list(ex(io.BytesIO(doc["data"]), path))
        except Exception as e:  # noqa
            return {}, f"rejected:{type(e).__name__}", {"calls": 0, "objects": 0, "unjudged": [], "accepted": False}
        ctx = Ctx(path, doc["props"], doc["members"], doc["archive_fixture"])
        nu, ni, nt, classes = check_results(results, ctx)
        oc = "%s r%d u%d i%d t%d %s" % ("+".join(classes), min(len(results), 2), min(nu, 2), min(ni, 2), min(nt, 2),
                                        ",".join(sorted(ctx.fails)))
        return ctx.fails, oc, {"calls": ctx.calls, "objects": len(results) + nu + ni + nt, "unjudged": sorted(ctx.unjudged_props),
                               "accepted": True}
    finally:
        for d in tmp:
            shutil.rmtree(d, ignore_errors=True)


def evaluate(fmt, case, seed=0):
    doc = materialise(fmt, case, seed)
    if doc is None or case.get("path", "none") not in PATH_KINDS:
        return {}, "n/a", {"calls": 0, "objects": 0, "unjudged": [], "accepted": False}
    return run_doc(doc, case.get("path", "none"))


def reexec(fmt, case):
    import logging
    import warnings
    warnings.simplefilter("ignore")
    logging.disable(logging.CRITICAL)
    fails, _, _ = evaluate(fmt, case, int(os.environ.get("VERIF_SEED", "0") or 0))
    return sorted(fails.items())


# ------------------------------------------------------------------------------------------------ triage hooks

def shrinks(case):
    if case.get("mut"):
        yield dict(case, mut=None)
    if case.get("path", "none") != "none":
        yield dict(case, path="none")
    if case.get("lines"):
        ls = case["lines"]
        for i in range(len(ls)):
            yield dict(case, lines=ls[:i] + ls[i + 1:])
    if "file" in case or case.get("mut"):
        return          # a mutation addresses byte offsets of one particular document: the document is kept as it is
    if case.get("cs") is not None:
        # towards the ordinary document: UTF-8 declared by a meta element (plain text: no signature)
        cs = case["cs"]
        dflt = CS.default("txt" if cs["form"] == "sig" else "html")
        for k in ("form", "label"):
            if cs[k] != dflt[k]:
                yield dict(case, cs=dict(cs, **{k: dflt[k]}))
        return
    if case.get("key") is not None:
        # towards the plain spelling; name and slot are the identity of the case
        if case["key"].get("sp", "asis") != "asis":
            yield dict(case, key={k: v for k, v in case["key"].items() if k != "sp"})
        return
    if case.get("pic") is not None:
        # towards the ordinary picture: each component of the description back to its default (PNG, natural size, one UID, natural labels)
        pic = case["pic"]
        for k in ("uid2", "h", "w", "kind", "file", "mem2", "mem") + PX.LAB_SLOTS:
            if k in pic and pic[k] != PX.DEFAULT[k]:
                yield dict(case, pic={a: b for a, b in pic.items() if a != k})
        return
    body = case.get("body") or []
    for i in range(len(body)):
        yield dict(case, body=body[:i] + body[i + 1:])
    meta = case.get("meta") or {}
    for k in sorted(meta):
        m = dict(meta)
        del m[k]
        yield dict(case, meta=m)
    for k in sorted(meta):
        for i in range(len(meta[k])):
            m = dict(meta)
            m[k] = meta[k][:i] + meta[k][i + 1:]
            yield dict(case, meta=m)


def embeds(small, big):
    if ("file" in small) != ("file" in big):
        return False
    if small.get("mut") and not big.get("mut"):
        return False    # shapes found on mutants stand for "some single-byte deviation of this document" (see fingerprint_view)
    if small.get("path", "none") != "none" and small.get("path") != big.get("path"):
        return False
    if (small.get("lines") is None) != (big.get("lines") is None):
        return False
    if small.get("lines") is not None:
        it = iter(big["lines"])            # the smaller line sequence is a subsequence of the bigger one (same fixture)
        return small["file"] == big["file"] and all(any(x == y for y in it) for x in small["lines"])
    if "file" in small:
        # mutated fixtures of one extension (= one fmt) that fail the same clause are one shape; unmutated ones are per file
        return small["file"] == big["file"] or bool(small.get("mut"))
    if (small.get("pic") is None) != (big.get("pic") is None) or (small.get("cs") is None) != (big.get("cs") is None):
        return False
    if (small.get("key") is None) != (big.get("key") is None):
        return False
    if small.get("key") is not None:
        sk, bk = dict(KY.DEFAULT, **small["key"]), dict(KY.DEFAULT, **big["key"])
        return sk["name"] == bk["name"] and sk["form"] == bk["form"] and (sk["sp"] == "asis" or sk["sp"] == bk["sp"])
    if small.get("cs") is not None:
        dflt = CS.default("txt" if small["cs"]["form"] == "sig" else "html")
        return all(big["cs"].get(k) == v for k, v in small["cs"].items() if v != dflt[k])
    if small.get("pic") is not None:
        sp, bp = dict(PX.DEFAULT, **small["pic"]), dict(PX.DEFAULT, **big["pic"])
        return all(bp[k] == v for k, v in sp.items() if v != PX.DEFAULT[k])
    if not set(small.get("body") or []) <= set(big.get("body") or []):
        return False
    bm = big.get("meta") or {}
    for k, v in (small.get("meta") or {}).items():
        if k not in bm or not set(v) <= set(bm[k]):
            return False
    return True


def fingerprint_view(case):
    """the concrete deviation (kind, offset index) is not part of a finding's identity: all accepted mutants of one document
    that fail the same clause are one shape (mutated fixtures: one shape per extension and clause)"""
    if case.get("pic") is not None:
        return dict(case, pic=PX.canonical(case["pic"]))
    if not case.get("mut"):
        return case
    if "file" in case:
        return dict(case, mut="mutated", file="<fixture of this extension>")
    return dict(case, mut="mutated")


# ------------------------------------------------------------------------------------------------ enumeration

def fixture_files():
    out = []
    for root, _, files in os.walk(RES_DIR):
        for f in files:
            out.append(os.path.relpath(os.path.join(root, f), RES_DIR))
    return sorted(out)


def _fix_fmt(rel):
    """fmt of a fixture case: "fix-" + the extractor the router selects for it (docm -> docx, tsv -> plain_text, ...)"""
    import sharepoint2text
    try:
        n = sharepoint2text.get_extractor(os.path.basename(rel)).__name__
    except Exception:  # noqa
        return "fix-unsupported"
    n = n[5:] if n.startswith("read_") else n
    return "fix-" + n.replace("_format_mail", "").replace("_", "-")


def mutations(tier, fmt, fixture=False):
    quick = tier == "quick"
    for i in range(0, K.N_TRUNC, 2 if quick else 1):
        yield ["trunc", i]
    for kind in ("flip", "bit") if quick else ("flip", "bit", "case"):
        for i in range(0, K.N_FLIP, 4 if quick else 1):
            yield [kind, i]
    if not fixture:
        for p in range(len(K.PARTS.get(fmt, ())) if not quick else min(1, len(K.PARTS.get(fmt, ())))):
            for kind in ("pbit",) if quick else ("pbit", "pcase"):
                for i in range(0, K.N_FLIP, 4 if quick else 1):
                    yield [kind, p, i]


_FEATS = {}


def features_of(fmt):
    """the body features the format's writer really renders (a feature it cannot express is skipped by the builder)"""
    if fmt not in _FEATS:
        used = set()
        for f in K.BODY_ALL:
            used.update(K.build(fmt, [f], {}, 0)["used"])
        used.update(K.build(fmt, list(K.BODY_ALL), {}, 0)["used"])
        _FEATS[fmt] = [f for f in K.BODY_ALL if f in used]
    return _FEATS[fmt]


def small_case(fmt, mut):
    return {"body": list(SMALL_BODY_ARCHIVE if fmt in K.ARCHIVE_FORMATS else SMALL_BODY), "meta": dict(SMALL_META), "mut": mut}


def documents(tier):
    """-> list of (fmt, base case without "path", group, all_paths) in canonical order"""
    out = []
    for rel in fixture_files():
        out.append((_fix_fmt(rel), {"file": rel, "mut": None}, "fix", True))
    all_feats = list(K.VALUE_FEATURES)
    for fmt in K.FORMATS:
        keys = K.META_CAPS.get(fmt, ())
        feats = features_of(fmt)
        rich = [f for f in feats if f not in K.RICH_EXTRA]
        out.append((fmt, {"body": rich, "meta": {k: list(all_feats) for k in keys}, "mut": None}, "rich", True))
        for x in K.RICH_EXTRA:
            if x in feats:
                out.append((fmt, {"body": [f for f in K.BODY_ALL if f in rich or f == x], "meta": {k: list(all_feats) for k in keys},
                                  "mut": None}, "rich", True))
        if fmt in K.MAIL_FORMATS:
            out.append((fmt, {"body": ["text", "uni", "tbl", "att", "u2"], "meta": {}, "mut": None}, "rich", True))
        out.append((fmt, {"body": [], "meta": {}, "mut": None}, "body", True))
        for f in feats:
            out.append((fmt, {"body": [f], "meta": {}, "mut": None}, "body", True))
        for k in keys:
            out.append((fmt, {"body": ["text"], "meta": {k: []}, "mut": None}, "meta", True))
        for body in ([["text"]] + [["text", v] for v in K.VARIANTS.get(fmt, [])]) if keys else []:
            for vf in [[]] + [[f] for f in all_feats]:
                out.append((fmt, {"body": body, "meta": {k: list(vf) for k in keys}, "mut": None}, "meta", True))
        for body in ([["text"]] + [["text", v] for v in K.VARIANTS.get(fmt, [])]) if keys else []:
            for f in K.POS_FEATURES:
                for pos in K.POS:
                    out.append((fmt, {"body": body, "meta": {k: [f, pos] for k in keys}, "mut": None}, "mpos",
                                ["none"] if tier == "quick" else PIC_PATHS))
        for mut in mutations(tier, fmt):
            out.append((fmt, small_case(fmt, mut), "mut", True))
        for pic in PX.cases(tier, fmt):
            out.append((fmt, {"body": list(PIC_BODY), "meta": {}, "mut": None, "pic": pic}, "pic", PIC_PATHS))
        for pic in PX.label_cases(tier, fmt):
            out.append((fmt, {"body": list(PIC_BODY), "meta": {}, "mut": None, "pic": pic}, "lab", ["none"] if tier == "quick" else PIC_PATHS))
        for pic in PX.file_cases(tier, fmt):
            out.append((fmt, {"body": list(PIC_BODY), "meta": {}, "mut": None, "pic": pic}, "pfile", ["none"] if tier == "quick" else PIC_PATHS))
        for pic in PX.member_cases(tier, fmt):
            out.append((fmt, {"body": list(PIC_BODY), "meta": {}, "mut": None, "pic": pic}, "pmem", ["none"] if tier == "quick" else PIC_PATHS))
        for key in KY.cases(tier, fmt):
            out.append((fmt, {"body": list(KY.KEY_BODY), "meta": {k: [] for k in keys}, "mut": None, "key": key}, "keys", ["none"] if tier == "quick" else PIC_PATHS))
        for cs in CS.cases(tier, fmt):
            out.append((fmt, {"body": list(CS.CS_BODY), "meta": {}, "mut": None, "cs": cs}, "cs", PIC_PATHS))
    for rel in fixture_files():
        if _fixture_ext(rel).lower() != ".doc":
            continue
        with open(os.path.join(RES_DIR, rel), "rb") as f:
            lines = DT.lines_of(f.read())
        for seq in DT.sequences(len(lines), 2 if tier == "quick" else 3) if lines else []:
            out.append((_fix_fmt(rel), {"file": rel, "mut": None, "lines": seq}, "doclines", ["none"]))
    for rel in fixture_files():
        ext = _fixture_ext(rel).lstrip(".").lower()
        if tier == "quick" and ext not in NO_WRITER_EXT:
            continue
        if os.path.getsize(os.path.join(RES_DIR, rel)) > FIXTURE_MUT_MAX_BYTES:
            continue
        for mut in mutations(tier, None, fixture=True):
            out.append((_fix_fmt(rel), {"file": rel, "mut": mut}, "fixmut", False))
    return out


_DOCS = {}


def _part(arg):
    tier, k, n, seed, feats = arg
    import logging
    import warnings
    warnings.simplefilter("ignore")
    logging.disable(logging.CRITICAL)
    _FEATS.update(feats)               # computed once by the master (a worker would rebuild ~600 documents to find them out)
    if tier not in _DOCS:
        _DOCS[tier] = documents(tier)  # workers are persistent: one enumeration per worker, not per partition
    docs = _DOCS[tier]
    order = list(range(len(docs)))
    ev = objects = calls = accepted = docs_done = 0
    fails = []
    outcomes = {}
    groups = {}
    unjudged = set()
    samples = []
    for j in order:
        if j % n != k:
            continue
        fmt, base, group, all_paths = docs[j]
        P.note([fmt, base])
        try:
            doc = materialise(fmt, base, seed)
        except Exception as e:  # noqa  (a writer problem is a harness error, reported by the master)
            fails.append(("harness", fmt, dict(base, path="none"), f"writer raised {type(e).__name__}: {e}"))
            continue
        if doc is None:
            continue
        docs_done += 1
        for pk in (all_paths if isinstance(all_paths, list) else ["none"] if not all_paths else
                   (QUICK_MUT_PATHS if tier == "quick" and base.get("mut") else PATH_KINDS)):
            case = dict(base, path=pk)
            f, oc, st = run_doc(doc, pk)
            ev += 1
            g = groups.setdefault(group, {"cases": 0, "accepted": 0})
            g["cases"] += 1
            g["accepted"] += 1 if st["accepted"] else 0
            accepted += 1 if st["accepted"] else 0
            objects += st["objects"]
            calls += st["calls"]
            unjudged.update(st["unjudged"])
            outcomes[oc] = outcomes.get(oc, 0) + 1
            for clause, msg in f.items():
                fails.append((clause, fmt, case, msg))
            if group in ("rich", "fix", "mut") and st["accepted"] and pk == "uni" and not any(x["fmt"] == fmt for x in samples):
                samples.append({"fmt": fmt, "case": case, "outcome": oc, "objects": st["objects"], "accessor_calls": st["calls"]})
            if base.get("mut") and pk == "none" and not st["accepted"]:
                break          # rejected mutant: nothing to judge, the other path arguments are skipped
    return {"ev": ev, "objects": objects, "calls": calls, "accepted": accepted, "fails": fails, "outcomes": outcomes, "groups": groups,
            "unjudged": sorted(unjudged), "samples": samples, "docs": docs_done}


def run(ctx):
    n = 64 if ctx.quick else 256
    feats = {fmt: features_of(fmt) for fmt in K.FORMATS}
    args = [(ctx.tier, k, n, ctx.seed, feats) for k in range(n)]
    random.Random(ctx.seed).shuffle(args)
    res = P.run_all("verif.props.C04", "_part", args, n=ctx.ncpu, hard_timeout=3600)      # a wall-clock guard against hangs only (one accepted fixture mutant costs ~100 CPU s), never a verdict
    ev = objects = calls = accepted = ndocs = 0
    fails, herr, samples = [], [], []
    outcomes, groups = {}, {}
    unjudged = set()
    for (st, r, note), a in zip(res, args):
        if st != "done":
            herr.append(f"partition {a[:4]} failed: {st}: {str(r)[-600:]} (last document {note})")
            continue
        ev += r["ev"]; objects += r["objects"]; calls += r["calls"]; accepted += r["accepted"]; ndocs += r["docs"]
        for f in r["fails"]:
            if f[0] == "harness":
                herr.append(f"{f[1]} {f[2]}: {f[3]}")
            else:
                fails.append(tuple(f))
        for k_, v in r["outcomes"].items():
            outcomes[k_] = outcomes.get(k_, 0) + v
        for g, v in r["groups"].items():
            gg = groups.setdefault(g, {"cases": 0, "accepted": 0})
            gg["cases"] += v["cases"]; gg["accepted"] += v["accepted"]
        unjudged.update(r["unjudged"])
        samples += r["samples"]
    byfmt = {}
    for smp in sorted(samples, key=lambda s: (s["fmt"], str(s["case"]))):
        byfmt.setdefault(smp["fmt"], smp)
    pick = ["docx", "fix-doc", "rtf", "zip", "fix-pdf", "mbox"]
    samples = [byfmt[f] for f in pick if f in byfmt] or list(byfmt.values())[:6]
    cov = {"evaluations": ev, "distinct_nontrivial": len([o for o in outcomes if not o.startswith("rejected") and o != "n/a"]),
           "exhaustive": True, "documents": ndocs, "accepted_cases": accepted, "result_objects_exercised": objects,
           "accessor_calls": calls, "groups": groups, "alphabet": alphabets(),
           "outcome_classes": len(outcomes),
           "bounds": {"picture_kinds": list(PX.KINDS), "picture_formats": list(PX.PIC_FORMATS),
                      "size_lexemes_odf": sorted(PX.LEN), "size_lexemes_int": sorted(PX.INT),
                      "size_pairs": "quick: kind x {natural, (zero, zero)} + png x {(l, ok), (ok, l), (l, l)}; thorough: kind x pair forms + png x all pairs",
                      "label_formats": list(PX.LAB_FORMATS), "label_slots": {f: PX.labels_of(f) for f in PX.LAB_FORMATS},
                      "label_combinations": "quick: every pair of slots x every pair of their states; thorough: full product of the slots' states",
                      "picture_file_formats": list(PX.FILE_FORMATS), "picture_file_names": {k: (v if v is None or len(v) < 40 else v[:12] + "...(%d chars)" % len(v))
                                                                                               for k, v in PX.FILES.items()},
                      "picture_file_kinds": "quick: png; thorough: " + " ".join(PX.FILE_KINDS_THOROUGH),
                      "picture_member_states": list(PX.MEM if ctx.quick else PX.MEM_THOROUGH),
                      "picture_member_documents": "one picture x non-ok states; two pictures x pairs of states (not both ok)",
                      "value_positions": list(K.POS), "value_position_features": list(K.POS_FEATURES),
                      "rtf_text_spellings": ["u"] + list(K.VARIANTS["rtf"]),
                      "property_name_formats": list(KY.KEY_FORMATS), "property_name_forms": {f: list(v) for f, v in KY.FORMS.items()},
                      "property_names": KY.names(), "property_name_spellings": "quick: asis (html, mhtml: asis upper hyphen); thorough: asis upper hyphen",
                      "charset_labels": sorted(CS.LABELS), "charset_forms": {"html": list(CS.HTML_FORMS), "mhtml": list(CS.MHTML_FORMS),
                                                                              "plain": sorted(CS.SIGS)},
                      "position_modifiers": sorted(K.UNI_POS), "doc_lines": DT.MAX_LINES,
                      "doc_line_sequences": "length <= %d" % (2 if ctx.quick else 3)},
           "rule": "every fixture, every rich / single-feature / single-property generated document of the 24 writer formats and "
                   "every single-deviation byte mutation (16 truncations, 64 offsets x XOR {0xFF, 0x01, 0x20}, 3 parts x 64 offsets x XOR "
                   "{0x01, 0x20} inside ZIP packages; quick: every 2nd / 4th, no 0x20, one part) of the small document per format (thorough: also of "
                   "every fixture, quick: of the .doc/.msg fixtures) x 9 path arguments; plus the picture family (payload kind x frame size "
                   "lexemes, 11 formats), the picture-label family (states of the title / description / name / caption slots, 8 formats), the picture storage-name family (member name lexemes, 8 package formats), the picture member-state family (readable / unreadable / absent members x 1-2 pictures, 8 package formats), the value-position family (feature character at start / end / alone in every property; RTF x 3 text spellings), the property-name family (reflected metadata attribute names x open-namespace slots, 13 formats), the character-encoding family (charset label x declaration form; html, mhtml, plain text) and the "
                   ".doc line-recombination family (see bounds; 2 resp. 1 path arguments); on every result / unit / image / table "
                   "each accessor of the reflected alphabet once and then all ordered pairs; evaluations = (document, path) "
                   "extractions; distinct_nontrivial = distinct (result classes, #results, #units, #images, #tables, failing "
                   "clauses) outcomes of accepted cases",
           "samples": samples, "properties_without_metadata_attribute": sorted(unjudged)}
    assumptions = [
        "a document property is judged only when the metadata class has an attribute for it (title; author|creator|initial_creator; "
        "subject; keywords; description|comments|doc_comment) and it must equal at least one of them; classes without such an "
        "attribute (PdfMetadata: total_pages only, documented; XlsxMetadata.subject; XlsMetadata.keywords/description; e-mail) are listed "
        "under properties_without_metadata_attribute and not judged",
        "generated property values never have leading / trailing white space (several readers trim; the statement does not forbid it)",
        "folder_path may be the path's parent as written or resolved; file_extension may be the last suffix or all suffixes; file_path is "
        "not judged (not named by the statement); path '' may be treated as no path",
        "archive results: file metadata must derive from '<archive path>!/<member>' or from the member name alone, for some member of "
        "the archive (which member a result belongs to is C10's question); fixture archives are not judged for file metadata",
        "'reported size' of an image is its size_bytes attribute; image classes without it (PdfImage, RtfImage) are not judged for size",
        "an image's unit_number may be None (documented for formats without pages / slides)",
        "extraction that raises (for any path argument) yields no result and is not judged here (C01)",
        "to_json() is judged for dict type and UTF-8 encodability of every reachable str only (round trip: C05)",
    ]
    return {"coverage": cov, "failures": fails, "harness_errors": herr, "assumptions": assumptions}
