"""C06 helper: extraction, canonical values, state snapshots, the observer alphabet and structural diffs.

Everything here runs on the real library objects; nothing is sampled.
"""
from __future__ import annotations

import dataclasses
import datetime
import decimal
import hashlib
import io
import json

# ------------------------------------------------------------------------------------------------------ extraction


def extract(data: bytes, name: str, buf=None):
    """-> list of results (the extractor's generator is drained). Raises whatever the library raises."""
    from sharepoint2text.parsing.router import get_extractor
    return list(get_extractor(name)(buf if buf is not None else io.BytesIO(data), name))


def library_location() -> str:
    """directory the library under test is (or would be) imported from - WITHOUT importing it (a configuration process must
    still be a process that has not touched the library when its first extraction starts)"""
    import importlib.util
    import os
    spec = importlib.util.find_spec("sharepoint2text")
    return os.path.realpath(os.path.dirname(spec.origin)) if spec and spec.origin else "<not found>"


def exc_name(e) -> str:
    """exception type with the types of its cause chain (the library wraps most errors in ExtractionFailedError)"""
    names = [type(e).__name__]
    c = e.__cause__ or getattr(e, "cause", None)
    while isinstance(c, BaseException) and len(names) < 4:
        names.append(type(c).__name__)
        c = c.__cause__
    return "<".join(names)


def _sha(b: bytes) -> str:
    return "%d:%s" % (len(b), hashlib.sha256(b).hexdigest()[:20])


def _jdefault(v):
    """values that json cannot carry (spreadsheet cells: dates, durations, decimals) get a value-only text form"""
    if isinstance(v, (datetime.datetime, datetime.date, datetime.time, datetime.timedelta, decimal.Decimal)):
        return {"__repr__": repr(v)}
    if isinstance(v, (bytes, bytearray)):
        return {"__bytes__": _sha(bytes(v))}
    if isinstance(v, io.BytesIO):
        return {"__bytesio__": _sha(v.getvalue())}
    if isinstance(v, (set, frozenset)):
        return {"__set_in_iteration_order__": list(v)}
    return {"__object__": type(v).__module__ + "." + type(v).__qualname__}


def jtext(v) -> str:
    return json.dumps(v, sort_keys=True, default=_jdefault, ensure_ascii=True)


def results_json(results) -> list:
    return [r.to_json() for r in results]


def digest_of(results) -> str:
    try:
        return "ok:%d:%s" % (len(results), hashlib.sha256(jtext(results_json(results)).encode()).hexdigest()[:24])
    except Exception as e:  # noqa
        return "exc-to_json:" + type(e).__name__


# ------------------------------------------------------------------------------------------------- canonical values

def canon(v, _depth=0):
    """plain-JSON canonical form of a value RETURNED by an observer (BytesIO: content only; sets: iteration order, which is
    what a caller who iterates sees)."""
    if _depth > 40:
        return "<deep>"
    if v is None or isinstance(v, (bool, int, str)):
        return v
    if isinstance(v, float):
        return v if v == v and v not in (float("inf"), float("-inf")) else repr(v)
    if isinstance(v, io.BytesIO):
        try:
            return {"__bytesio__": _sha(v.getvalue())}
        except ValueError:
            return {"__bytesio__": "closed"}
    if isinstance(v, (bytes, bytearray)):
        return {"__bytes__": _sha(bytes(v))}
    if dataclasses.is_dataclass(v) and not isinstance(v, type):
        d = {"__cls__": type(v).__name__}
        for f in dataclasses.fields(v):
            d[f.name] = canon(getattr(v, f.name, "<unset>"), _depth + 1)
        if isinstance(v, dict):
            d["__items__"] = {str(k): canon(x, _depth + 1) for k, x in v.items()}
        return d
    if isinstance(v, dict):
        return {str(k): canon(x, _depth + 1) for k, x in v.items()}
    if isinstance(v, (list, tuple)):
        return [canon(x, _depth + 1) for x in v]
    if isinstance(v, (set, frozenset)):
        return {"__set_in_iteration_order__": [canon(x, _depth + 1) for x in v]}
    if isinstance(v, (datetime.datetime, datetime.date, datetime.time, datetime.timedelta, decimal.Decimal)):
        return {"__repr__": repr(v)}
    return {"__object__": type(v).__module__ + "." + type(v).__qualname__}


def snapshot(v, _depth=0, _seen=None):
    """canonical deep snapshot of a result = the explicit state of the history exploration: dataclass fields, instance
    __dict__ extras (caches), BytesIO content AND position, sets as sorted sets."""
    if _seen is None:
        _seen = set()
    if _depth > 40:
        return "<deep>"
    if v is None or isinstance(v, (bool, int, str)):
        return v
    if isinstance(v, float):
        return repr(v)
    if isinstance(v, io.BytesIO):
        try:
            return {"__bytesio__": _sha(v.getvalue()), "pos": v.tell()}
        except ValueError:
            return {"__bytesio__": "closed"}
    if isinstance(v, (bytes, bytearray)):
        return {"__bytes__": _sha(bytes(v))}
    if isinstance(v, (datetime.datetime, datetime.date, datetime.time, datetime.timedelta, decimal.Decimal)):
        return {"__repr__": repr(v)}
    if id(v) in _seen and not isinstance(v, (list, tuple, dict)):
        return {"__again__": type(v).__name__}
    if isinstance(v, (list, tuple)):
        return [snapshot(x, _depth + 1, _seen) for x in v]
    if isinstance(v, (set, frozenset)):
        return {"__set__": sorted(jtext(snapshot(x, _depth + 1, _seen)) for x in v)}
    if dataclasses.is_dataclass(v) and not isinstance(v, type):
        _seen.add(id(v))
        d = {"__cls__": type(v).__name__}
        names = set()
        for f in dataclasses.fields(v):
            names.add(f.name)
            d[f.name] = snapshot(getattr(v, f.name, "<unset>"), _depth + 1, _seen)
        extras = {k: x for k, x in getattr(v, "__dict__", {}).items() if k not in names}
        if extras:
            d["__extras__"] = {str(k): snapshot(x, _depth + 1, _seen) for k, x in sorted(extras.items(), key=lambda kv: str(kv[0]))}
        if isinstance(v, dict):
            d["__items__"] = {str(k): snapshot(x, _depth + 1, _seen) for k, x in v.items()}
        _seen.discard(id(v))
        return d
    if isinstance(v, dict):
        return {str(k): snapshot(x, _depth + 1, _seen) for k, x in v.items()}
    if hasattr(v, "__dict__"):
        _seen.add(id(v))
        d = {"__obj__": type(v).__name__, "vars": {str(k): snapshot(x, _depth + 1, _seen) for k, x in sorted(vars(v).items(), key=lambda kv: str(kv[0]))}}
        _seen.discard(id(v))
        return d
    return {"__object__": type(v).__module__ + "." + type(v).__qualname__}


def state_key(results) -> str:
    return hashlib.sha256(jtext(snapshot(results)).encode()).hexdigest()[:24]


# ------------------------------------------------------------------------------------------------------- observers

def _call(f, *a):
    try:
        return f(*a)
    except Exception as e:  # noqa  (an exception from an accessor is a return value of the observation)
        return {"__raises__": type(e).__name__}


def _image_view(img):
    def rd():
        return {"__bytes__": _sha(img.get_bytes().read())}
    return {"bytes": _call(rd), "content_type": _call(img.get_content_type), "caption": _call(img.get_caption),
            "description": _call(img.get_description), "metadata": canon(_call(img.get_metadata))}


def _table_view(t):
    if hasattr(t, "get_table"):
        return {"table": canon(_call(t.get_table)), "dim": canon(_call(t.get_dim))}
    return {"table": canon(t)}


def _unit_view(u):
    imgs = _call(u.get_images)
    tabs = _call(u.get_tables)
    return {"text": _call(u.get_text),
            "images": [_image_view(i) for i in imgs] if isinstance(imgs, (list, tuple)) else canon(imgs),
            "tables": [_table_view(t) for t in tabs] if isinstance(tabs, (list, tuple)) else canon(tabs),
            "metadata": canon(_call(u.get_metadata)), "to_json": canon(_call(u.to_json))}


def o_full_text(r):
    return r.get_full_text()


def o_units(r):
    return [_unit_view(u) for u in r.iterate_units()]


def o_units_first(r):
    """the caller looks at the first unit only and abandons the iterator"""
    it = iter(r.iterate_units())
    u = next(it, None)
    out = None if u is None else {"text": _call(u.get_text), "metadata": canon(_call(u.get_metadata))}
    close = getattr(it, "close", None)
    if close:
        close()
    return out


def o_images(r):
    return [_image_view(i) for i in r.iterate_images()]


def o_tables(r):
    return [_table_view(t) for t in r.iterate_tables()]


def o_metadata(r):
    m = r.get_metadata()
    return {"metadata": canon(m), "to_dict": canon(_call(m.to_dict)) if hasattr(m, "to_dict") else None}


def o_to_json(r):
    return json.loads(jtext(r.to_json()))


def o_serialize_nobin(r):
    from sharepoint2text.parsing.extractors.serialization import serialize_extraction
    return json.loads(jtext(serialize_extraction(r, include_binary=False)))


def o_attachments(r):
    f = getattr(r, "iterate_supported_attachments", None)
    if f is None:
        return None
    return [json.loads(jtext(a.to_json())) for a in f()]


OBSERVERS = {"full_text": o_full_text, "units": o_units, "units_first": o_units_first, "images": o_images, "tables": o_tables,
             "metadata": o_metadata, "to_json": o_to_json, "serialize_nobin": o_serialize_nobin, "attachments": o_attachments}
ALPHABET = list(OBSERVERS)


def observe(name, results):
    """apply one observer to every result of the extraction (in order); an exception is part of the returned value"""
    f = OBSERVERS[name]
    return [_call(f, r) for r in results]


def alphabet_for(results):
    """`attachments` exists for e-mail results only"""
    has_att = any(hasattr(r, "iterate_supported_attachments") for r in results)
    return [o for o in ALPHABET if o != "attachments" or has_att]


# ----------------------------------------------------------------------------------------------------------- diffs

def diff_paths(a, b, path="", out=None, limit=40):
    """abstract locations (list indices -> []) at which two canonical values differ"""
    if out is None:
        out = []
    if len(out) >= limit:
        return out
    if type(a) is not type(b):
        out.append(path or "$")
        return out
    if isinstance(a, dict):
        for k in sorted(set(a) | set(b)):
            if k not in a or k not in b:
                out.append((path + "." if path else "") + str(k))
            else:
                diff_paths(a[k], b[k], (path + "." if path else "") + str(k), out, limit)
        return out
    if isinstance(a, list):
        if len(a) != len(b):
            out.append(path + "[#]")
            return out
        for x, y in zip(a, b):
            diff_paths(x, y, path + "[]", out, limit)
        return out
    if a != b:
        out.append(path or "$")
    return out


def where_set(a, b):
    return sorted(set(diff_paths(a, b)))


def value_at(v, where, cap=160):
    """first concrete value below an abstract path (for messages)"""
    cur = v
    for part in [p for p in where.replace("[]", ".[]").replace("[#]", "").split(".") if p]:
        if part == "[]":
            if isinstance(cur, list) and cur:
                cur = cur[0]
            else:
                break
        elif isinstance(cur, dict) and part in cur:
            cur = cur[part]
        else:
            break
    s = jtext(cur)
    return s if len(s) <= cap else s[:cap] + "..."


def first_diff(a, b, where, cap=200):
    """(value in a, value in b) at the first concrete location matching the abstract path `where`"""
    def go(x, y, path):
        if type(x) is not type(y):
            return (x, y) if (path or "$") == where else None
        if isinstance(x, dict):
            for k in sorted(set(x) | set(y)):
                p = (path + "." if path else "") + str(k)
                if k not in x or k not in y:
                    if p == where:
                        return (x.get(k, "<absent>"), y.get(k, "<absent>"))
                    continue
                if where == p or where.startswith(p + ".") or where.startswith(p + "["):
                    r = go(x[k], y[k], p)
                    if r is not None:
                        return r
            return None
        if isinstance(x, list):
            if len(x) != len(y):
                return (x, y) if path + "[#]" == where else None
            for i, j in zip(x, y):
                r = go(i, j, path + "[]")
                if r is not None:
                    return r
            return None
        if x != y and (path or "$") == where:
            return (x, y)
        return None
    r = go(a, b, "")
    if r is None:
        return ("?", "?")

    def cut(v):
        s = jtext(v)
        return s if len(s) <= cap else s[:cap] + "..."
    return cut(r[0]), cut(r[1])
