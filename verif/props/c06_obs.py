"""C06 helper: extraction, canonical values, state snapshots, the observer alphabet and structural diffs.

Everything here runs on the real library objects; nothing is sampled.
"""
from __future__ import annotations

import dataclasses
import datetime
import decimal
import hashlib
import inspect
import io
import itertools
import json

# ------------------------------------------------------------------------------------------------------ extraction


def extract(data: bytes, name: str, buf=None):
    """-> list of results (the extractor's generator is drained). Raises whatever the library raises."""
    from sharepoint2text.parsing.router import get_extractor
    return list(get_extractor(name)(buf if buf is not None else io.BytesIO(data), name))


def library_location() -> str:
    """directory the library under test is (or would be) imported from - WITHOUT importing it (a configuration process must
    still be a process that has not touched the library when its first extraction starts)"""
    import importlib.util
    import os
    spec = importlib.util.find_spec("sharepoint2text")
    return os.path.realpath(os.path.dirname(spec.origin)) if spec and spec.origin else "<not found>"


def exc_name(e) -> str:
    """exception type with the types of its cause chain (the library wraps most errors in ExtractionFailedError)"""
    names = [type(e).__name__]
    c = e.__cause__ or getattr(e, "cause", None)
    while isinstance(c, BaseException) and len(names) < 4:
        names.append(type(c).__name__)
        c = c.__cause__
    return "<".join(names)


def _sha(b: bytes) -> str:
    return "%d:%s" % (len(b), hashlib.sha256(b).hexdigest()[:20])


def _jdefault(v):
    """values that json cannot carry (spreadsheet cells: dates, durations, decimals) get a value-only text form"""
    if isinstance(v, (datetime.datetime, datetime.date, datetime.time, datetime.timedelta, decimal.Decimal)):
        return {"__repr__": repr(v)}
    if isinstance(v, (bytes, bytearray)):
        return {"__bytes__": _sha(bytes(v))}
    if isinstance(v, io.BytesIO):
        return {"__bytesio__": _sha(v.getvalue())}
    if isinstance(v, (set, frozenset)):
        return {"__set_in_iteration_order__": list(v)}
    return {"__object__": type(v).__module__ + "." + type(v).__qualname__}


def jtext(v) -> str:
    return json.dumps(v, sort_keys=True, default=_jdefault, ensure_ascii=True)


def results_json(results) -> list:
    return [r.to_json() for r in results]


def digest_of(results) -> str:
    try:
        return "ok:%d:%s" % (len(results), hashlib.sha256(jtext(results_json(results)).encode()).hexdigest()[:24])
    except Exception as e:  # noqa
        return "exc-to_json:" + type(e).__name__


# ------------------------------------------------------------------------------------------------- canonical values

def canon(v, _depth=0):
    """plain-JSON canonical form of a value RETURNED by an observer (BytesIO: content only; sets: iteration order, which is
    what a caller who iterates sees)."""
    if _depth > 40:
        return "<deep>"
    if v is None or isinstance(v, (bool, int, str)):
        return v
    if isinstance(v, float):
        return v if v == v and v not in (float("inf"), float("-inf")) else repr(v)
    if isinstance(v, io.BytesIO):
        try:
            return {"__bytesio__": _sha(v.getvalue())}
        except ValueError:
            return {"__bytesio__": "closed"}
    if isinstance(v, (bytes, bytearray)):
        return {"__bytes__": _sha(bytes(v))}
    if dataclasses.is_dataclass(v) and not isinstance(v, type):
        d = {"__cls__": type(v).__name__}
        for f in dataclasses.fields(v):
            d[f.name] = canon(getattr(v, f.name, "<unset>"), _depth + 1)
        if isinstance(v, dict):
            d["__items__"] = {str(k): canon(x, _depth + 1) for k, x in v.items()}
        return d
    if isinstance(v, dict):
        return {str(k): canon(x, _depth + 1) for k, x in v.items()}
    if isinstance(v, (list, tuple)):
        return [canon(x, _depth + 1) for x in v]
    if isinstance(v, (set, frozenset)):
        return {"__set_in_iteration_order__": [canon(x, _depth + 1) for x in v]}
    if isinstance(v, (datetime.datetime, datetime.date, datetime.time, datetime.timedelta, decimal.Decimal)):
        return {"__repr__": repr(v)}
    return {"__object__": type(v).__module__ + "." + type(v).__qualname__}


def snapshot(v, _depth=0, _seen=None):
    """canonical deep snapshot of a result = the explicit state of the history exploration: dataclass fields, instance
    __dict__ extras (caches), BytesIO content AND position, sets as sorted sets."""
    if _seen is None:
        _seen = set()
    if _depth > 40:
        return "<deep>"
    if v is None or isinstance(v, (bool, int, str)):
        return v
    if isinstance(v, float):
        return repr(v)
    if isinstance(v, io.BytesIO):
        try:
            return {"__bytesio__": _sha(v.getvalue()), "pos": v.tell()}
        except ValueError:
            return {"__bytesio__": "closed"}
    if isinstance(v, (bytes, bytearray)):
        return {"__bytes__": _sha(bytes(v))}
    if isinstance(v, (datetime.datetime, datetime.date, datetime.time, datetime.timedelta, decimal.Decimal)):
        return {"__repr__": repr(v)}
    if id(v) in _seen and not isinstance(v, (list, tuple, dict)):
        return {"__again__": type(v).__name__}
    if isinstance(v, (list, tuple)):
        return [snapshot(x, _depth + 1, _seen) for x in v]
    if isinstance(v, (set, frozenset)):
        return {"__set__": sorted(jtext(snapshot(x, _depth + 1, _seen)) for x in v)}
    if dataclasses.is_dataclass(v) and not isinstance(v, type):
        _seen.add(id(v))
        d = {"__cls__": type(v).__name__}
        names = set()
        for f in dataclasses.fields(v):
            names.add(f.name)
            d[f.name] = snapshot(getattr(v, f.name, "<unset>"), _depth + 1, _seen)
        extras = {k: x for k, x in getattr(v, "__dict__", {}).items() if k not in names}
        if extras:
            d["__extras__"] = {str(k): snapshot(x, _depth + 1, _seen) for k, x in sorted(extras.items(), key=lambda kv: str(kv[0]))}
        if isinstance(v, dict):
            d["__items__"] = {str(k): snapshot(x, _depth + 1, _seen) for k, x in v.items()}
        _seen.discard(id(v))
        return d
    if isinstance(v, dict):
        return {str(k): snapshot(x, _depth + 1, _seen) for k, x in v.items()}
    if hasattr(v, "__dict__"):
        _seen.add(id(v))
        d = {"__obj__": type(v).__name__, "vars": {str(k): snapshot(x, _depth + 1, _seen) for k, x in sorted(vars(v).items(), key=lambda kv: str(kv[0]))}}
        _seen.discard(id(v))
        return d
    return {"__object__": type(v).__module__ + "." + type(v).__qualname__}


def state_key(results) -> str:
    return hashlib.sha256(jtext(snapshot(results)).encode()).hexdigest()[:24]


# ------------------------------------------------------------------------------------------------------- observers
#
# An observer is an interface method together with a choice of values for its OPTIONAL parameters.  The optional parameters are
# not listed here: they are discovered by reflection (inspect.signature) on the bound method of the object at hand, and every
# parameter whose values can be enumerated - bool default: the other truth value; Optional[bool] with default None: True and
# False - contributes an axis.  All combinations of the axes except the all-default one (more than 16 combinations: one
# deviation from the defaults at a time) are observers of their own, spelled  base(param=value,...) .  Parameters whose values
# cannot be enumerated (numbers, strings, objects) are reported in UNENUMERATED and called with their default only.

_SIG = {}               # (type, method name) -> list of kwargs dicts (non-default option sets)
UNENUMERATED = set()    # "Type.method(param)" : optional parameter left at its default


def _axis(p):
    d = p.default
    if isinstance(d, bool):
        return [not d]
    if d is None and "bool" in str(p.annotation):
        return [True, False]
    return []


def option_sets_of(f, label=None):
    """non-default keyword combinations of the optional parameters of the callable f (deterministic order)"""
    try:
        sig = inspect.signature(f)
    except (TypeError, ValueError):
        return []
    axes = []
    for p in sig.parameters.values():
        if p.default is inspect.Parameter.empty or p.kind in (p.VAR_POSITIONAL, p.VAR_KEYWORD, p.POSITIONAL_ONLY):
            continue
        vals = _axis(p)
        if vals:
            axes.append((p.name, vals))
        else:
            UNENUMERATED.add("%s(%s)" % (label or getattr(f, "__qualname__", "?"), p.name))
    if not axes:
        return []
    out = []
    total = 1
    for _, vals in axes:
        total *= 1 + len(vals)
    if total <= 16:
        for choice in itertools.product(*[[_DEFAULT] + vals for _, vals in axes]):
            kw = {name: v for (name, _), v in zip(axes, choice) if v is not _DEFAULT}
            if kw:
                out.append(kw)
    else:
        for name, vals in axes:
            out.extend({name: v} for v in vals)
    return out


_DEFAULT = object()


def option_sets(obj, method):
    """option sets of obj.method (cached per type)"""
    key = (type(obj), method)
    got = _SIG.get(key)
    if got is None:
        f = getattr(obj, method, None)
        got = option_sets_of(f, "%s.%s" % (type(obj).__name__, method)) if callable(f) else []
        _SIG[key] = got
    return got


def kw_text(kw) -> str:
    return ",".join("%s=%r" % (k, kw[k]) for k in sorted(kw))


def obs_name(base, kw) -> str:
    return "%s(%s)" % (base, kw_text(kw)) if kw else base


_LIT = {"True": True, "False": False, "None": None}


def parse_obs(name):
    """'full_text(include_image_captions=True)' -> ('full_text', {'include_image_captions': True})"""
    if "(" not in name:
        return name, {}
    base, rest = name.split("(", 1)
    kw = {}
    for part in rest.rstrip(")").split(","):
        if part:
            k, v = part.split("=", 1)
            kw[k] = _LIT[v]
    return base, kw


def _accepts(obj, method, kw) -> bool:
    return not kw or any(kw == o for o in option_sets(obj, method))


def _call(f, *a, **kw):
    try:
        return f(*a, **kw)
    except Exception as e:  # noqa  (an exception from an accessor is a return value of the observation)
        return {"__raises__": type(e).__name__}


def _optioned(obj, method, post, out, key):
    """out[key(kw)] = post(obj.method(**kw)) for every non-default option set of an accessor (nothing for accessors without)"""
    for kw in option_sets(obj, method):
        out[obs_name(key, kw)] = post(_call(getattr(obj, method), **kw))


def _image_view(img):
    def rd():
        return {"__bytes__": _sha(img.get_bytes().read())}
    out = {"bytes": _call(rd), "content_type": _call(img.get_content_type), "caption": _call(img.get_caption),
           "description": _call(img.get_description), "metadata": canon(_call(img.get_metadata))}
    for m, k in (("get_content_type", "content_type"), ("get_caption", "caption"), ("get_description", "description"),
                 ("get_metadata", "metadata")):
        _optioned(img, m, canon, out, k)
    return out


def _table_view(t):
    if hasattr(t, "get_table"):
        out = {"table": canon(_call(t.get_table)), "dim": canon(_call(t.get_dim))}
        _optioned(t, "get_table", canon, out, "table")
        _optioned(t, "get_dim", canon, out, "dim")
        return out
    return {"table": canon(t)}


def _images_of(v):
    return [_image_view(i) for i in v] if isinstance(v, (list, tuple)) else canon(v)


def _tables_of(v):
    return [_table_view(t) for t in v] if isinstance(v, (list, tuple)) else canon(v)


def _unit_view(u):
    out = {"text": _call(u.get_text), "images": _images_of(_call(u.get_images)), "tables": _tables_of(_call(u.get_tables)),
           "metadata": canon(_call(u.get_metadata)), "to_json": canon(_call(u.to_json))}
    _optioned(u, "get_text", canon, out, "text")
    _optioned(u, "get_images", _images_of, out, "images")
    _optioned(u, "get_tables", _tables_of, out, "tables")
    _optioned(u, "get_metadata", canon, out, "metadata")
    _optioned(u, "to_json", canon, out, "to_json")
    return out


def o_full_text(r, **kw):
    return r.get_full_text(**kw)


def o_units(r, **kw):
    return [_unit_view(u) for u in r.iterate_units(**kw)]


def o_units_first(r, **kw):
    """the caller looks at the first unit only and abandons the iterator"""
    it = iter(r.iterate_units(**kw))
    u = next(it, None)
    out = None if u is None else {"text": _call(u.get_text), "metadata": canon(_call(u.get_metadata))}
    close = getattr(it, "close", None)
    if close:
        close()
    return out


def o_images(r, **kw):
    return [_image_view(i) for i in r.iterate_images(**kw)]


def o_tables(r, **kw):
    return [_table_view(t) for t in r.iterate_tables(**kw)]


def o_metadata(r, **kw):
    m = r.get_metadata(**kw)
    out = {"metadata": canon(m), "to_dict": canon(_call(m.to_dict)) if hasattr(m, "to_dict") else None}
    if hasattr(m, "to_dict"):
        _optioned(m, "to_dict", canon, out, "to_dict")
    return out


def o_to_json(r, **kw):
    return json.loads(jtext(r.to_json(**kw)))


def o_serialize(r, **kw):
    from sharepoint2text.parsing.extractors.serialization import serialize_extraction
    return json.loads(jtext(serialize_extraction(r, **kw)))


def o_attachments(r, **kw):
    f = getattr(r, "iterate_supported_attachments", None)
    if f is None:
        return None
    return [json.loads(jtext(a.to_json())) for a in f(**kw)]


# ---- parts: the accessors of the objects a result is made of (slides, sheets, images, metadata ...), found by reflection

_PART_METHODS = {}     # type -> [(method name, [option sets])] : public methods callable without arguments


def _is_library_object(v) -> bool:
    return (dataclasses.is_dataclass(v) and not isinstance(v, type)
            and (type(v).__module__ or "").startswith("sharepoint2text."))


def _part_methods(obj):
    t = type(obj)
    got = _PART_METHODS.get(t)
    if got is None:
        got = []
        for name in sorted(dir(t)):
            if name.startswith("_") or name in _NOT_ACCESSORS:
                continue
            f = getattr(t, name, None)
            if not inspect.isfunction(f):          # plain methods only: no static / class methods (constructors), no properties
                continue
            try:
                ps = list(inspect.signature(f).parameters.values())[1:]
            except (TypeError, ValueError):
                continue
            if any(p.default is p.empty and p.kind not in (p.VAR_POSITIONAL, p.VAR_KEYWORD) for p in ps):
                continue                           # needs an argument: not an observation of the result
            got.append((name, option_sets(obj, name)))
        _PART_METHODS[t] = got
    return got


# methods inherited from dict / list by results that subclass them (mutators among them) are not accessors of the library
_NOT_ACCESSORS = frozenset(dir(dict)) | frozenset(dir(list))


def _parts(v, path, out, top, _depth=0):
    if _depth > 12:
        return
    if isinstance(v, (list, tuple)):
        for i, x in enumerate(v):
            _parts(x, "%s[%d]" % (path, i), out, top, _depth + 1)
    elif _is_library_object(v):
        if v is not top:
            out.append((path, v))
        for f in dataclasses.fields(v):
            _parts(getattr(v, f.name, None), (path + "." if path else "") + f.name, out, top, _depth + 1)
    elif isinstance(v, dict):
        for k, x in v.items():
            _parts(x, "%s{%s}" % (path, k), out, top, _depth + 1)


def _ret(v):
    """canonical form of what an accessor of a part returns (generators are drained, streams read)"""
    if inspect.isgenerator(v) or isinstance(v, (map, filter, zip)):
        v = list(v)
    return canon(v)


def o_parts(r, options=False):
    """every library object reachable from the result through dataclass fields / lists / dicts (the result itself excluded:
    its interface is the rest of the alphabet): every public method that can be called without arguments is called -
    options=False: with its defaults; options=True: with every non-default option set (methods without options: not called)"""
    objs = []
    _parts(r, "", objs, r)
    out = {}
    for path, obj in objs:
        for name, opts in _part_methods(obj):
            if not options:
                out["%s.%s" % (path, name)] = _ret(_call(getattr(obj, name)))
            else:
                for kw in opts:
                    out["%s.%s" % (path, obs_name(name, kw))] = _ret(_call(getattr(obj, name), **kw))
    return out


def _has_part_options(r) -> bool:
    objs = []
    _parts(r, "", objs, r)
    return any(opts for _, obj in objs for _, opts in _part_methods(obj))


# base observer -> (function, interface method whose optional parameters are enumerated | None)
OBSERVERS = {"full_text": (o_full_text, "get_full_text"), "units": (o_units, "iterate_units"), "units_first": (o_units_first, "iterate_units"),
             "images": (o_images, "iterate_images"), "tables": (o_tables, "iterate_tables"), "metadata": (o_metadata, "get_metadata"),
             "to_json": (o_to_json, "to_json"), "serialize": (o_serialize, None), "parts": (o_parts, None),
             "attachments": (o_attachments, "iterate_supported_attachments")}
ALPHABET = list(OBSERVERS)      # the base observers; alphabet_for() adds the option variants the results at hand have


def _serialize_options():
    from sharepoint2text.parsing.extractors.serialization import serialize_extraction
    return option_sets_of(serialize_extraction, "serialize_extraction")


def observe(name, results):
    """apply one observer to every result of the extraction (in order); an exception is part of the returned value; a result
    whose method does not have the observer's options is not observed (None)"""
    if name == "serialize_nobin":                   # earlier spelling (recorded cases)
        name = "serialize(include_binary=False)"
    base, kw = parse_obs(name)
    f, method = OBSERVERS[base]
    if base == "parts":
        return [_call(f, r, bool(kw.get("options"))) for r in results]
    if method is None:
        return [_call(f, r, **kw) for r in results]
    return [(_call(f, r, **kw) if _accepts(r, method, kw) else None) for r in results]


def alphabet_for(results):
    """the base observers (`attachments` exists for e-mail results only) + one observer per non-default option set of an
    interface method of any of the results + serialize_extraction's option sets + parts(options=True) when a part has options"""
    has_att = any(hasattr(r, "iterate_supported_attachments") for r in results)
    out = []
    for base in ALPHABET:
        if base == "attachments" and not has_att:
            continue
        out.append(base)
        f, method = OBSERVERS[base]
        if base == "serialize":
            kws = _serialize_options()
        elif base == "parts":
            kws = [{"options": True}] if any(_has_part_options(r) for r in results) else []
        else:
            kws = []
            for r in results:
                for kw in option_sets(r, method):
                    if kw not in kws:
                        kws.append(kw)
        out.extend(obs_name(base, kw) for kw in kws)
    return out


# ----------------------------------------------------------------------------------------------------------- diffs

def diff_paths(a, b, path="", out=None, limit=40):
    """abstract locations (list indices -> []) at which two canonical values differ"""
    if out is None:
        out = []
    if len(out) >= limit:
        return out
    if type(a) is not type(b):
        out.append(path or "$")
        return out
    if isinstance(a, dict):
        for k in sorted(set(a) | set(b)):
            if k not in a or k not in b:
                out.append((path + "." if path else "") + str(k))
            else:
                diff_paths(a[k], b[k], (path + "." if path else "") + str(k), out, limit)
        return out
    if isinstance(a, list):
        if len(a) != len(b):
            out.append(path + "[#]")
            return out
        for x, y in zip(a, b):
            diff_paths(x, y, path + "[]", out, limit)
        return out
    if a != b:
        out.append(path or "$")
    return out


def where_set(a, b):
    return sorted(set(diff_paths(a, b)))


def value_at(v, where, cap=160):
    """first concrete value below an abstract path (for messages)"""
    cur = v
    for part in [p for p in where.replace("[]", ".[]").replace("[#]", "").split(".") if p]:
        if part == "[]":
            if isinstance(cur, list) and cur:
                cur = cur[0]
            else:
                break
        elif isinstance(cur, dict) and part in cur:
            cur = cur[part]
        else:
            break
    s = jtext(cur)
    return s if len(s) <= cap else s[:cap] + "..."


def first_diff(a, b, where, cap=200):
    """(value in a, value in b) at the first concrete location matching the abstract path `where`"""
    def go(x, y, path):
        if type(x) is not type(y):
            return (x, y) if (path or "$") == where else None
        if isinstance(x, dict):
            for k in sorted(set(x) | set(y)):
                p = (path + "." if path else "") + str(k)
                if k not in x or k not in y:
                    if p == where:
                        return (x.get(k, "<absent>"), y.get(k, "<absent>"))
                    continue
                if where == p or where.startswith(p + ".") or where.startswith(p + "["):
                    r = go(x[k], y[k], p)
                    if r is not None:
                        return r
            return None
        if isinstance(x, list):
            if len(x) != len(y):
                return (x, y) if path + "[#]" == where else None
            for i, j in zip(x, y):
                r = go(i, j, path + "[]")
                if r is not None:
                    return r
            return None
        if x != y and (path or "$") == where:
            return (x, y)
        return None
    r = go(a, b, "")
    if r is None:
        return ("?", "?")

    def cut(v):
        s = jtext(v)
        return s if len(s) <= cap else s[:cap] + "..."
    return cut(r[0]), cut(r[1])
