"""C09 - archive processing is confined: no host file is read or written.

Spaces I x H with a run-time monitor.  An *archive case* is {"c": container, "m": [members], "o": 7z options, "cut": n};
a *case* adds a consumer history "h": [kind, k].  Everything is enumerated (never sampled):

  member names   prefix {"", "/", "//", "C:", "C:\\", "\\\\h\\s\\"} x 1..D segments over {a, .., ., "", .h, __MACOSX, 255*a, u-umlaut}
                 x separator {/, \\} x extension {.txt, .bin, .zip, none}  (D = 2 quick / 3 thorough on zip-stored, plain tar
                 and 7z; D-1 on the compressed variants zip-deflated / tar.gz / tar.bz2 / tar.xz), plus the names of CANARY
                 files of a private per-process sandbox (absolute, ..-relative to the temporary directory, through the
                 file-system root, cwd-relative, backslash and drive spellings)
  containers     zip (stored / deflated), tar (plain / gz / bz2 / xz) with member types REG DIR SYM LNK CHR BLK FIFO and link
                 targets from the same grammar (depth D-1; D-2 on compressed variants), zip directory / symlink entries, 7z
                 with every combination of {member has a data stream, EmptyStream bit, directory attribute, no
                 MainStreamsInfo} (bit / attribute forgeries for names of < D segments); pairs of colliding names; a real
                 nested archive behind each of the 12 archive extensions of the README; oversize members (10 MiB + 1);
                 every proper prefix (truncation) of 7 base archives
  7z attributes  (part attrs7z) every attribute word of ATTRS (Windows bits archive / read-only / hidden / directory /
                 reparse point; p7zip Unix extension 0x8000 | st_mode << 16 for regular, set-uid, symbolic link, directory,
                 character / block device, fifo, socket; the link mode without the extension flag) on an entry whose DATA
                 is a link target (canary file or canary directory, absolute and ..-relative), in the shapes {link alone;
                 link + a regular member of the SAME name, both orders; link to a directory + a regular member THROUGH it,
                 both orders, link name with and without extension} x {only the link carries attributes, all entries do}
                 x folder layout {solid, one folder per file} (thorough: x (coder {copy, lzma, lzma2} | copy with an
                 encoded header), every canary spelling as the target)
  same name      (part oversize) two entries with the SAME name, one within the per-member limit and one oversize, both
                 orders, on every container (7z: copy / lzma, solid / one folder per file): the decision taken on one
                 entry must not be applied to the bytes of the other
  nested x kind  (part nested) a real archive of every kind {zip, 7z, tar, tar.gz, tar.bz2, tar.xz} behind every extension
                 of the README's 12 AND of NEST_EXTRA (aliases the mimetypes tables map to tar/compressed types, e.g.
                 .taz .tz .tar.br .tar.Z, and foreign archive formats), lower and upper case (quick: on zip-stored, plain
                 tar and 7z; thorough: on all 7 containers, at depth 1 and 2)
  histories      exhaust; close() after k results; abandon after k (+ gc.collect()); generator.throw(RuntimeError) after k
                 (k = 0..n); the consumer's own loop body raises after k (k = 1..n); n = number of results of the archive

Monitor: c09_monitor (sys.addaudithook, switched by a flag), tempfile.tempdir pointed at <sandbox>/tmp, cwd = <sandbox>/cwd,
the sandbox tree is compared before/after every history.  States = (archive, consumer-history prefix); transitions =
generator steps + monitored file-system events.  Every history is executed on the real read_archive().
"""
from __future__ import annotations

import gc
import io
import itertools
import json
import logging
import os
import random
import re
import shutil
import tempfile

from verif.gen import sevenz as SZ
from verif.gen import tarforge as TF
from verif.gen import zipforge as ZF
from verif.gen.tokens import Tokens, find_tokens
from verif.mc import pool as P
from verif.props import c09_monitor as M

LEVEL = "model_checking"

PREFIXES = ["", "/", "//", "C:", "C:\\", "\\\\h\\s\\"]
SEGS = ["a", "..", ".", "", ".h", "__MACOSX", "A255", "\u00fc"]          # "A255" stands for 255 x "a"
SEPS = ["/", "\\"]
EXTS = [".txt", ".bin", ".zip", ""]
ZIPC = ["zip-s", "zip-d"]
TARC = ["tar", "tar.gz", "tar.bz2", "tar.xz"]
TAR_TYPES = ["REG", "DIR", "SYM", "LNK", "CHR", "BLK", "FIFO"]
HIST_KINDS = ["exhaust", "close", "abandon", "throw", "loopraise"]
OVERSIZE = 10 * 1024 * 1024 + 1          # one byte more than the extractor's per-member limit (ArchiveConfig.max_memory_size)

# canary name templates: id -> (family, function of the sandbox root)
CANARIES = {
    "abs": ("A", lambda r: f"{r}/canary/secret.txt"),
    "abs2": ("A", lambda r: f"/{r}/canary/secret.txt"),
    "absdd": ("A", lambda r: f"{r}/tmp/../c.txt"),
    "absdeep": ("A", lambda r: f"{r}/canary/deep/s2.txt"),
    "rel2": ("R", lambda r: "../../canary/secret.txt"),
    "rel2c": ("R", lambda r: "../../c.txt"),
    "rel2dot": ("R", lambda r: "./../../canary/secret.txt"),
    "rel2deep": ("R", lambda r: "../../canary/deep/s2.txt"),
    "relroot": ("R", lambda r: "../" * 16 + r.lstrip("/") + "/canary/secret.txt"),
    "reldown": ("R", lambda r: "a/../../../canary/secret.txt"),
    "cwd": ("C", lambda r: "c.txt"),
    "cwddot": ("C", lambda r: "./c.txt"),
    "cwdup": ("C", lambda r: "../canary/secret.txt"),
    "bsabs": ("B", lambda r: r.replace("/", "\\") + "\\canary\\secret.txt"),
    "bsrel": ("B", lambda r: "..\\..\\canary\\secret.txt"),
    "drive": ("B", lambda r: f"C:{r}/canary/secret.txt"),
    "bsdown": ("B", lambda r: "a\\..\\..\\..\\canary\\secret.txt"),
    "bsroot": ("B", lambda r: "a\\" + "..\\" * 16 + r.lstrip("/").replace("/", "\\") + "\\canary\\secret.txt"),
}
# canaries whose first component must exist in a scratch directory for the path to resolve: tried behind a real member a/r.txt
CANARY_DOWN = ("reldown", "bsdown", "bsroot")
CANARY_ORDER = list(CANARIES)
CANARY_DIR = {"absdir": ("A", lambda r: f"{r}/canary"), "reldir": ("R", lambda r: "../../canary")}
# 7z attribute words (kWinAttributes): Windows bits, and the p7zip Unix extension (bit 15 set, st_mode in the high word)
_UX = 0x8000
ATTRS = {
    "arc": 0x20, "ro": 0x21, "hid": 0x22, "dir": 0x10, "rp": 0x420, "rpdir": 0x410,
    "ureg": _UX | 0x20 | (0o100644 << 16), "usuid": _UX | 0x20 | (0o104755 << 16), "ulnk": _UX | 0x20 | (0o120777 << 16),
    "ulnkbare": (0o120777 << 16), "udir": _UX | 0x10 | (0o040755 << 16), "uchr": _UX | (0o020666 << 16),
    "ublk": _UX | (0o060660 << 16), "ufifo": _UX | (0o010644 << 16), "usock": _UX | (0o140755 << 16),
}
ATTRS_REGULAR = ("arc", "ro", "ureg", "usuid")          # words of an ordinary file: skip clauses stay judged by name
W1 = {"n": {"w": 1}, "t": "REG"}
W2 = {"n": {"w": 2}, "t": "REG"}


# ------------------------------------------------------------------------------------------------ names
def gname(prefix, sep, ext, segs):
    return {"g": [prefix, sep, ext], "s": list(segs)}


def render_name(nm, root):
    if "g" in nm:
        prefix, sep, ext = nm["g"]
        return prefix + sep.join("a" * 255 if s == "A255" else s for s in nm["s"]) + ext
    if "k" in nm:
        spec = CANARIES.get(nm["k"]) or CANARY_DIR[nm["k"]]
        return spec[1](root) + nm.get("suffix", "")
    if "w" in nm:
        return f"w{nm['w']}.txt"
    if "big" in nm:
        return "big.txt"          # {"big": 1} = oversize content, {"big": 0} = the same name with small content
    raise ValueError(nm)


def names(depth):
    """the member-name grammar up to `depth` segments, duplicates (same rendered string) removed"""
    seen = set()
    for k in range(1, depth + 1):
        for segs in itertools.product(SEGS, repeat=k):
            for sep in (SEPS if k > 1 else SEPS[:1]):
                for prefix in PREFIXES:
                    for ext in EXTS:
                        nm = gname(prefix, sep, ext, segs)
                        s = render_name(nm, "")
                        if s not in seen:
                            seen.add(s)
                            yield nm


def _ext(base):
    return os.path.splitext(base.lower())[1]


# every extension of the README's "Archives" table -> (writer, compression) of the real nested archive put behind it
NEST = {".zip": ("zip", None), ".7z": ("7z", None), ".tar": ("tar", None), ".tar.gz": ("tar", "gz"), ".tgz": ("tar", "gz"),
        ".gz": ("tar", "gz"), ".tar.bz2": ("tar", "bz2"), ".tbz2": ("tar", "bz2"), ".bz2": ("tar", "bz2"),
        ".tar.xz": ("tar", "xz"), ".txz": ("tar", "xz"), ".xz": ("tar", "xz")}


# further extensions a nested archive may hide behind: aliases that the mimetypes tables (suffix_map / encodings_map) turn
# into tar / compressed types, and archive formats the library does not read.  Fixed list (the tables differ between hosts).
NEST_EXTRA = [".taz", ".tz", ".tar.br", ".tar.Z", ".tar.lzma", ".tar.lz", ".tar.zst", ".tbz", ".tb2", ".tlz", ".tzst", ".Z",
              ".br", ".lzma", ".zst", ".jar", ".war", ".ear", ".rar", ".cab", ".cpio", ".zipx", ".tar.7z", ".tar.zip", ".gtar",
              ".ustar"]
NEST_KINDS = {"zip": ("zip", None), "7z": ("7z", None), "tar": ("tar", None), "tar.gz": ("tar", "gz"), "tar.bz2": ("tar", "bz2"),
              "tar.xz": ("tar", "xz")}


def nested_ext(name):
    low = name.lower()
    for ext in sorted(NEST, key=len, reverse=True):
        if low.endswith(ext):
            return ext
    return None


def nested_blob(ext, token, kind_id=None):
    inner = [{"name": "inner.txt", "data": (token + " text inside a nested archive\n").encode()}]
    kind, comp = NEST_KINDS[kind_id] if kind_id else NEST[ext]
    if kind == "zip":
        return ZF.zipforge(inner)
    if kind == "7z":
        return SZ.sevenz(inner)
    return TF.tarforge(inner, comp)


def canon_ext(ext):
    e = ext.lower()
    return ".gz" if e in (".bz2", ".xz") else e


def skip_reasons(name):
    """Reasons why the statement says this member name never produces a result.  Only clear cases: a rule must hold under
    the POSIX reading (separator /) AND the Windows reading (separators / and \\) of the name; anything else is don't-care."""
    pbase = name.rsplit("/", 1)[-1]
    wbase = re.split(r"[/\\]", name)[-1]
    out = []
    if pbase.startswith(".") and wbase.startswith("."):
        out.append("hidden")
    if name.startswith("__MACOSX/") and ".." not in name.split("/") and "\\" not in name:
        out.append("macosx")
    if nested_ext(name):
        out.append("nested")          # the member IS a real archive of that type (see build)
    elif _ext(pbase) != ".txt" and _ext(wbase) != ".txt":
        out.append("unsupported")
    return out


# ------------------------------------------------------------------------------------------------ archive construction
def _flags(m):
    f = m.get("f") or [1, 0, 0]
    return bool(f[0]), bool(f[1]), bool(f[2])


def build(arch, root, seed):
    """-> (archive bytes, archive path, info).  info["tok"] = {token: (member index, class, reasons)}; class X = the member
    must not produce a result, B = witness, Z = don't care.  K tokens are the canary contents."""
    ktok = M.canary_tokens(seed)
    # truncated archives are always cut from the seed-0 spelling: compressed lengths depend on the token spelling, and the
    # set of cases must not depend on the seed (member tokens can never collide with the class-K canary tokens)
    tk = Tokens(0 if arch.get("cut") is not None else seed)
    cont = arch["c"]
    fam = cont.split("-")[0].split(".")[0]
    opts = dict(arch.get("o") or {})
    info = {"tok": {}, "ktok": ktok, "fam": fam, "names": [], "xnames": {}}
    members = []
    for i, m in enumerate(arch["m"]):
        name = render_name(m["n"], root)
        t = m.get("t", "REG")
        reasons = []
        cls = "Z"
        oversize = bool(m["n"].get("big"))
        if "w" in m["n"]:
            cls = "B"
        elif oversize:
            cls, reasons = "X", ["oversize"]
        elif t == "REG" and m.get("nb"):
            # the member IS a real archive of kind m["nb"], whatever its extension says
            cls, reasons = "X", sorted((set(skip_reasons(name)) - {"unsupported"}) | {"nested"})
        elif t == "REG":
            reasons = skip_reasons(name)
            if reasons:
                cls = "X"
        has_data, es, dirattr = _flags(m)
        if fam == "7z" and (not has_data or es or dirattr or opts.get("no_streams")):
            # forged entry (stream / EmptyStream / attribute disagree): which bytes belong to which name is not defined
            cls, reasons = ("B" if cls == "B" else "Z"), []
        if fam == "7z" and m.get("a") and m["a"] not in ATTRS_REGULAR:
            # link / directory / device attribute words on an entry that owns a data stream: not judged by the skip clauses
            cls, reasons = ("B" if cls == "B" else "Z"), []
        data = None
        if t == "REG" or t == "ZSYM":
            tok = tk.new(cls)
            info["tok"][tok] = (i, cls, reasons)
            if t == "ZSYM" or (t == "REG" and "l" in m):
                # the member's data is a link target (zip symlink entry / 7z entry with a link attribute word)
                data = render_name(m["l"], root).encode("utf-8", "surrogateescape")
                del info["tok"][tok]
            elif oversize:
                data = (tok + " oversize member\n").encode() + b"x" * (OVERSIZE - len(tok) - 17)
            elif m.get("nb"):
                data = nested_blob(None, tok, m["nb"])
            elif nested_ext(name):
                data = nested_blob(nested_ext(name), tok)
            else:
                data = (tok + " member text\n").encode()
        if cls == "X":
            info["xnames"][name] = reasons
        info["names"].append(name)
        members.append((m, name, t, data, cls))
    # a name carried by a must-skip entry AND by an entry that may produce a result (same name twice) identifies nothing:
    # such entries are judged by their content tokens only
    for m, name, t, data, cls in members:
        if cls != "X" and t == "REG":
            info["xnames"].pop(name, None)
    members = [x[:4] for x in members]

    if fam == "zip":
        method = 0 if cont == "zip-s" else 8
        zm = []
        for m, name, t, data in members:
            if t == "DIR":
                zm.append({"name": name, "is_dir": True})
            elif t == "ZSYM":
                zm.append({"name": name, "data": data, "method": method, "external_attr": (0o120777 << 16)})
            else:
                zm.append({"name": name, "data": data, "method": method})
        blob = ZF.zipforge(zm)
        apath = "arc.zip"
    elif fam == "tar":
        comp = {"tar": None, "tar.gz": "gz", "tar.bz2": "bz2", "tar.xz": "xz"}[cont]
        tm = []
        for m, name, t, data in members:
            d = {"name": name, "type": t}
            if data is not None:
                d["data"] = data
            if t in ("SYM", "LNK"):
                d["linkname"] = render_name(m["l"], root)
            tm.append(d)
        blob = None
        for f in ("ustar", "pax"):
            try:
                blob = TF.tarforge(tm, comp, f)
                info["tarfmt"] = f
                break
            except NotImplementedError:
                continue
        if blob is None:
            return None, None, info
        apath = "arc." + cont
    elif fam == "7z":
        sm = []
        for m, name, t, data in members:
            has_data, es, dirattr = _flags(m)
            d = {"name": name, "data": data if has_data else None}
            if es:
                d["empty_stream_bit"] = True
            if dirattr or m.get("a"):
                d["attrs"] = (0x10 if dirattr else 0) | (ATTRS[m["a"]] if m.get("a") else 0)
            sm.append(d)
        blob = SZ.sevenz(sm, opts)
        apath = "arc.7z"
    else:
        raise ValueError(cont)
    if arch.get("cut") is not None:
        blob = blob[:arch["cut"]]
    return blob, apath, info


# ------------------------------------------------------------------------------------------------ one history on the real code
class _ConsumerError(Exception):
    pass


def _consume(read_archive, blob, apath, kind, k):
    """-> (results, steps, exception text or None, notes).  Runs inside the monitored window."""
    results, notes = [], []
    steps = 0
    exc = None
    gen = read_archive(io.BytesIO(blob), path=apath)
    try:
        if kind == "exhaust":
            for r in gen:
                results.append(r)
                steps += 1
            steps += 1
        elif kind == "loopraise":
            try:
                for r in gen:
                    results.append(r)
                    steps += 1
                    if len(results) >= k:
                        raise _ConsumerError()
            except _ConsumerError:
                notes.append("consumer raised")
            steps += 1
        else:
            for _ in range(k):
                try:
                    results.append(next(gen))
                    steps += 1
                except StopIteration:
                    notes.append("short")
                    break
            steps += 1
            if kind == "close":
                gen.close()
            elif kind == "throw":
                try:
                    v = gen.throw(RuntimeError("consumer failure"))
                    notes.append("throw swallowed")
                    results.append(v)
                    steps += 1
                    gen.close()
                except RuntimeError as e:
                    if "consumer failure" not in str(e):
                        raise
                except StopIteration:
                    notes.append("throw swallowed, generator ended")
    except Exception as e:  # noqa - a library exception is a data point
        exc = f"{type(e).__name__}: {str(e)[:120]}"
    finally:
        gen = None
        if kind in ("abandon", "loopraise"):
            gc.collect()
    return results, steps, exc, notes


_WL = {}


def _whitelisted(real):
    if "d" not in _WL:
        _WL["d"], _WL["f"] = M.whitelist()
    return real in _WL["f"] or any(real == d or real.startswith(d + "/") for d in _WL["d"])


def _mask(s, sb):
    return re.sub(r"/tmp/tmp[a-z0-9_]{8}", "/tmp/tmpXXXXXXXX", str(s).replace(sb.root, "$SB"))


def run_history(blob, apath, info, hist, sb, full_check=False):
    """Execute one consumer history on the real code -> (fails [(clause, message)], outcome, n results, steps, n events)"""
    from sharepoint2text.parsing.extractors.archive_extractor import read_archive
    kind, k = hist
    old_tmp, old_cwd = tempfile.tempdir, os.getcwd()
    tempfile.tempdir = sb.tmp
    os.chdir(sb.cwd)
    if kind in ("abandon", "loopraise"):
        gc.collect()                      # old garbage must not be finalised inside the monitored window
    old_log = logging.root.manager.disable
    logging.disable(logging.CRITICAL)
    M.start()
    try:
        results, steps, exc, notes = _consume(read_archive, blob, apath, kind, k)
    finally:
        events = M.stop()
        logging.disable(old_log)
        tempfile.tempdir = old_tmp
        os.chdir(old_cwd)
    fails = []

    # ---- file-system events
    own, bad_w, bad_r, litter = [], [], [], []
    for ev, acc, txt, real, caller, existed in events:
        if ev in ("tempfile.mkdtemp", "tempfile.mkstemp"):
            if os.path.dirname(real) == sb.tmp:
                own.append(real)
            else:
                bad_w.append(f"{ev}({_mask(txt, sb)}) is not under the temp root")
            continue
        if any(real == d or real.startswith(d + "/") for d in own):
            continue
        if acc == "N":
            continue
        if acc == "W":
            bad_w.append(f"{ev}({_mask(txt, sb)!r}) -> {_mask(real, sb)} [{caller}]")
            if not existed and ev in ("open", "os.mkdir"):
                litter.append(real)
        elif not _whitelisted(real) and not caller.startswith("<frozen importlib"):
            bad_r.append(f"{ev}({_mask(txt, sb)!r}) -> {_mask(real, sb)} [{caller}]")
    for p in reversed(litter):
        # host hygiene only: remove what a (mutated) library created outside the sandbox during this history
        try:
            if not (p == sb.root or p.startswith(sb.root + "/")) and os.path.lexists(p):
                os.rmdir(p) if os.path.isdir(p) and not os.path.islink(p) else os.remove(p)
        except OSError:
            pass
    if bad_w:
        fails.append(("write-outside", f"{len(bad_w)} write/create/delete event(s) outside the temporary directory of this call: {bad_w[:3]}"))
    if bad_r:
        fails.append(("read-outside", f"{len(bad_r)} read event(s) outside the temporary directory of this call: {bad_r[:3]}"))

    # ---- residue and sandbox integrity
    left = sb.tmp_listing()
    if left:
        fails.append(("residue", f"after history {hist} the temp root still holds {[_mask(x, sb) for x in left[:5]]}"))
        sb.clean_tmp()
    if full_check or not sb.intact():
        snap = sb.snapshot()
        if snap != sb.snap0:
            diff = sorted(set(snap.items()) ^ set(sb.snap0.items()))
            fails.append(("host-modified", f"sandbox tree changed: {[(d[0], d[1][0]) for d in diff[:4]]}"))
        if snap != sb.snap0 or not sb.intact():
            sb.restore()

    # ---- results
    leaked_k, leaked_x, named_x = [], [], []
    for r in results:
        texts = []
        try:
            texts.append(r.get_full_text())
        except Exception:  # noqa
            pass
        try:
            texts.append(json.dumps(r.to_json(), default=str))
        except Exception:  # noqa
            pass
        fp = None
        try:
            fp = r.get_metadata().file_path
        except Exception:  # noqa
            pass
        found = set(find_tokens("\n".join(t for t in texts if isinstance(t, str))))
        for t in found:
            if t in info["ktok"]:
                leaked_k.append((t, M.CANARY_FILES[info["ktok"].index(t)], fp))
            elif t in info["tok"] and info["tok"][t][1] == "X":
                leaked_x.append((info["names"][info["tok"][t][0]][:60], info["tok"][t][2], fp))
        for xn, reasons in info["xnames"].items():
            if isinstance(fp, str) and fp == f"{apath}!/{xn}":
                named_x.append((xn[:60], reasons, fp))
    if leaked_k:
        fails.append(("host-content", f"content of host file(s) {[(x[1], _mask(x[2], sb)) for x in leaked_k[:3]]} appears in a result"))
    bad = leaked_x or named_x
    if bad:
        reasons = sorted({r for x in bad for r in x[1]})
        fails.append(("skip:" + "+".join(reasons), f"member(s) that must not produce a result did: {[(x[0], _mask(x[2], sb)) for x in bad[:3]]}"))
    outcome = (info["fam"], kind, len(results), (exc or "").split(":")[0], len(own), tuple(sorted(notes)),
               tuple(sorted(c for c, _ in fails)))
    return fails, outcome, len(results), steps, len(events)


def histories(n):
    yield ["exhaust", 0]
    for kind in ("close", "abandon", "throw"):
        for k in range(0, n + 1):
            yield [kind, k]
    for k in range(1, n + 1):
        yield ["loopraise", k]


def explore_archive(arch, sb, seed):
    """all consumer histories of one archive -> list of (hist, fails, outcome, steps, nevents) or None if not expressible"""
    blob, apath, info = build(arch, sb.root, seed)
    if blob is None:
        return None
    out = []
    f, oc, n, st, ne = run_history(blob, apath, info, ["exhaust", 0], sb)
    out.append((["exhaust", 0], f, oc, st, ne))
    for h in histories(n):
        if h[0] == "exhaust":
            continue
        f, oc, _, st, ne = run_history(blob, apath, info, h, sb)
        out.append((h, f, oc, st, ne))
    return out


# ------------------------------------------------------------------------------------------------ replay / shrinking
def _arch_of(case):
    return {k: v for k, v in case.items() if k != "h"}


def reexec(fmt, case):
    seed = int(os.environ.get("VERIF_SEED", "0") or 0)
    sb = M.sandbox(M.own_parent(), seed)
    blob, apath, info = build(_arch_of(case), sb.root, seed)
    if blob is None:
        return []
    return run_history(blob, apath, info, list(case.get("h") or ["exhaust", 0]), sb, full_check=True)[0]


def _canary_family(nm):
    spec = CANARIES.get(nm["k"]) or CANARY_DIR.get(nm["k"])
    return spec[0]


def _name_shrinks(nm):
    if "g" in nm:
        prefix, sep, ext = nm["g"]
        segs = nm["s"]
        if len(segs) > 1:
            for i in range(len(segs)):
                yield gname(prefix, sep, ext, segs[:i] + segs[i + 1:])
        if prefix:
            yield gname("", sep, ext, segs)
        if sep != "/":
            yield gname(prefix, "/", ext, segs)
        for i, s in enumerate(segs):
            if s != "a":
                yield gname(prefix, sep, ext, segs[:i] + ["a"] + segs[i + 1:])
        if ext != ext.lower():
            yield gname(prefix, sep, ext.lower(), segs)
        if canon_ext(ext) != ext.lower():
            yield gname(prefix, sep, canon_ext(ext), segs)
    elif "k" in nm and nm["k"] in CANARIES:
        fam = CANARIES[nm["k"]][0]
        for kid in CANARY_ORDER:
            if kid == nm["k"]:
                break
            if CANARIES[kid][0] == fam:
                d = dict(nm)
                d["k"] = kid
                yield d


def shrinks(case):
    h = case.get("h") or ["exhaust", 0]
    if h != ["exhaust", 0]:
        yield {**case, "h": ["exhaust", 0]}
        if h[1] > 0:
            yield {**case, "h": [h[0], h[1] - 1]}
    if case.get("cut") is not None:
        return
    ms = case["m"]
    if len(ms) > 1:
        for i in range(len(ms)):
            yield {**case, "m": ms[:i] + ms[i + 1:]}
    base = {"zip-d": "zip-s", "tar.gz": "tar", "tar.bz2": "tar", "tar.xz": "tar"}.get(case["c"])
    if base:
        yield {**case, "c": base}
    o = case.get("o") or {}
    if o.get("no_streams"):
        o2 = {k: v for k, v in o.items() if k != "no_streams"}
        # the same "no stream behind this name" situation without forging the whole archive: phantom members
        yield {**case, "o": o2, "m": [m if "w" in m["n"] else {**m, "f": [0] + list((m.get("f") or [1, 0, 0])[1:])} for m in ms]}
        yield {**case, "o": o2}
    for opt in ("coder", "layout", "header"):
        if o.get(opt):
            yield {**case, "o": {k: v for k, v in o.items() if k != opt}}
    for i, m in enumerate(ms):
        if m.get("a"):
            # no attribute word at all, then the plainest word of the same family (Unix extension / Windows bits)
            yield {**case, "m": ms[:i] + [{k: v for k, v in m.items() if k != "a"}] + ms[i + 1:]}
            plain = "ureg" if m["a"].startswith("u") else "arc"
            if m["a"] != plain:
                yield {**case, "m": ms[:i] + [{**m, "a": plain}] + ms[i + 1:]}
        if m.get("nb") and m["nb"] != "zip":
            yield {**case, "m": ms[:i] + [{**m, "nb": "zip"}] + ms[i + 1:]}
        if m.get("f"):
            f = list(m["f"])
            for j, dflt in ((2, 0), (1, 0), (0, 1)):
                if f[j] != dflt:
                    g = list(f)
                    g[j] = dflt
                    m2 = {**m, "f": g}
                    if g == [1, 0, 0]:
                        m2.pop("f")
                    yield {**case, "m": ms[:i] + [m2] + ms[i + 1:]}
        for key in ("n", "l"):
            if key in m:
                for nm in _name_shrinks(m[key]):
                    yield {**case, "m": ms[:i] + [{**m, key: nm}] + ms[i + 1:]}


def _name_embeds(s, b):
    if "g" in s:
        if "g" not in b or canon_ext(s["g"][2]) != canon_ext(b["g"][2]):
            return False
        if s["g"][0] not in ("", b["g"][0]) or (s["g"][1] != b["g"][1] and len(s["s"]) > 1 and s["g"][1] != "/"):
            return False
        it = iter(b["s"])
        return all(any(x == y for y in it) for x in s["s"])
    if "k" in s:
        return "k" in b and _canary_family(s) == _canary_family(b) and s.get("suffix") == b.get("suffix")
    return s == b


def _member_embeds(s, b):
    if s.get("t", "REG") != b.get("t", "REG"):
        return False
    sf, bf = s.get("f") or [1, 0, 0], b.get("f") or [1, 0, 0]
    if any(x != d and x != y for x, y, d in zip(sf, bf, [1, 0, 0])):
        return False
    if ("l" in s) != ("l" in b) or ("l" in s and not _name_embeds(s["l"], b["l"])):
        return False
    if s.get("a") not in (None, b.get("a")) or s.get("nb") not in (None, b.get("nb")) or ("nb" in s) != ("nb" in b):
        return False
    return _name_embeds(s["n"], b["n"])


def embeds(small, big):
    if small.get("cut") is not None or big.get("cut") is not None:
        return small.get("cut") == big.get("cut") and _arch_of(small) == _arch_of(big)
    sh, bh = small.get("h") or ["exhaust", 0], big.get("h") or ["exhaust", 0]
    if sh != ["exhaust", 0] and sh != bh:
        return False
    base = {"zip-d": "zip-s", "tar.gz": "tar", "tar.bz2": "tar", "tar.xz": "tar"}
    if small["c"] != big["c"] and small["c"] != base.get(big["c"]):
        return False
    so, bo = small.get("o") or {}, big.get("o") or {}
    if any(bo.get(k) != v for k, v in so.items()):
        return False
    bflags_all_phantom = bool(bo.get("no_streams")) and not so.get("no_streams")
    it = iter(big["m"])
    for s in small["m"]:
        ok = False
        for b in it:
            b2 = b
            if bflags_all_phantom and "w" not in b["n"]:
                b2 = {**b, "f": [0] + list((b.get("f") or [1, 0, 0])[1:])}
            if _member_embeds(s, b2):
                ok = True
                break
        if not ok:
            return False
    return True


def fingerprint_view(case):
    return case


# ------------------------------------------------------------------------------------------------ enumeration
def _flag_combos():
    for f in itertools.product((1, 0), (0, 1), (0, 1)):
        for ns in (False, True):
            yield list(f), ns


def _with_flags(m, f):
    return m if f == [1, 0, 0] else {**m, "f": f}


PLAIN = ("zip-s", "tar", "7z")          # containers that get the full name depth; compressed variants get one level less


def bounds(tier):
    D = 2 if tier == "quick" else 3
    quick = tier == "quick"
    return {"D": D, "D_compressed": D - 1, "D_types": D - 1, "D_types_compressed": max(1, D - 2),
            "attr_words_7z": len(ATTRS), "attr_link_targets": (2 if quick else len(CANARY_ORDER)) + len(CANARY_DIR),
            "attr_option_sets_7z": 2 if quick else 8,
            "nested_extensions": len(NEST) + len(NEST_EXTRA), "nested_kinds": len(NEST_KINDS),
            "nested_kind_containers": 3 if quick else 7, "same_name_oversize_pairs": 2 * (len(ZIPC + TARC) + 4)}


def _arch_gen(tier, part):
    """archives of one part; for the big grammar parts the first element of each yielded pair is the name index (used to
    partition the work without materialising the whole part)"""
    b = bounds(tier)
    D = b["D"]
    kind, _, arg = part.partition(":")
    if kind == "names":
        for i, nm in enumerate(names(D if arg in PLAIN else b["D_compressed"])):
            if arg == "7z":
                for f, ns in _flag_combos():
                    if len(nm["s"]) == D and (f[1] or f[2]):
                        continue          # EmptyStream / directory-attribute forgeries for names of fewer than D segments only
                    yield i, {"c": "7z", "m": [W1, _with_flags({"n": nm, "t": "REG"}, f)], "o": ({"no_streams": True} if ns else {})}
            else:
                yield i, {"c": arg, "m": [W1, {"n": nm, "t": "REG"}]}
    elif kind == "tartypes":
        link = gname("", "/", ".txt", ["a"])
        lname = gname("", "/", ".txt", ["l"])
        d = b["D_types"] if arg in PLAIN else b["D_types_compressed"]
        for t in TAR_TYPES[1:]:
            for i, nm in enumerate(names(d)):
                m = {"n": nm, "t": t}
                if t in ("SYM", "LNK"):
                    m["l"] = link
                yield i, {"c": arg, "m": [W1, m]}
        for t in ("SYM", "LNK"):
            for i, target in enumerate(names(d)):
                yield i, {"c": arg, "m": [W1, {"n": lname, "t": t, "l": target}]}
    elif kind == "ziptypes":
        link = gname("", "/", ".txt", ["a"])
        lname = gname("", "/", ".txt", ["l"])
        d = b["D_types"] if arg in PLAIN else b["D_types_compressed"]
        for i, nm in enumerate(names(d)):
            yield i, {"c": arg, "m": [W1, {"n": nm, "t": "DIR"}]}
            yield i, {"c": arg, "m": [W1, {"n": nm, "t": "ZSYM", "l": link}]}
        for i, target in enumerate(names(d)):
            yield i, {"c": arg, "m": [W1, {"n": lname, "t": "ZSYM", "l": target}]}
    else:
        for i, a in enumerate(_small_part(kind, tier)):
            yield i, a


def _attr_archives(tier):
    """7z entries that carry an attribute word and whose data is a link target (see the module docstring)"""
    quick = tier == "quick"
    files = ["abs", "rel2"] if quick else list(CANARY_ORDER)
    dirs = list(CANARY_DIR)
    optsets = [{}, {"layout": "per_file"}]
    if not quick:
        optsets = [{**({"layout": lay} if lay else {}), **({"coder": cod} if cod else {}), **({"header": hd} if hd else {})}
                   for lay in (None, "per_file") for cod in (None, "lzma", "lzma2") for hd in (None, "encoded")
                   if not (cod and hd)]
    for aid in ATTRS:
        other = "ureg" if aid.startswith("u") else "arc"
        for all_defined in (False, True):
            def dress(m):
                return {**m, "a": other} if all_defined else m
            shapes = []
            for kid in files:
                link = {"n": gname("", "/", ".txt", ["l"]), "t": "REG", "a": aid, "l": {"k": kid}}
                same = dress({"n": gname("", "/", ".txt", ["l"]), "t": "REG"})
                shapes += [[link, dress(W1)], [link, same, dress(W1)], [same, link, dress(W1)]]
            for did in dirs:
                for ext in (".txt", ""):
                    link = {"n": gname("", "/", ext, ["d"]), "t": "REG", "a": aid, "l": {"k": did}}
                    through = dress({"n": gname("", "/", ".txt", ["d" + ext, "secret"]), "t": "REG"})
                    shapes += [[link, through, dress(W1)], [through, link, dress(W1)]]
            for ms in shapes:
                for o in optsets:
                    yield {"c": "7z", "m": ms, "o": dict(o)}


def _small_part(kind, tier="quick"):
    if kind == "attrs7z":
        yield from _attr_archives(tier)
    elif kind == "canary":
        lname = gname("", "/", ".txt", ["l"])
        for kid in CANARY_ORDER:
            nm = {"k": kid}
            for c in ZIPC + TARC:
                yield {"c": c, "m": [W1, {"n": nm, "t": "REG"}]}
                yield {"c": c, "m": [{"n": nm, "t": "REG"}]}
            for c in ZIPC:
                yield {"c": c, "m": [W1, {"n": lname, "t": "ZSYM", "l": nm}]}
                yield {"c": c, "m": [W1, {"n": nm, "t": "DIR"}]}
            for c in TARC:
                for t in TAR_TYPES[1:]:
                    m = {"n": nm, "t": t}
                    if t in ("SYM", "LNK"):
                        m["l"] = nm
                    yield {"c": c, "m": [W1, m]}
                for t in ("SYM", "LNK"):
                    yield {"c": c, "m": [W1, {"n": lname, "t": t, "l": nm}]}
            for f, ns in _flag_combos():
                o = {"no_streams": True} if ns else {}
                sub = _with_flags({"n": nm, "t": "REG"}, f)
                yield {"c": "7z", "m": [W1, sub], "o": o}
                yield {"c": "7z", "m": [sub, W1], "o": o}
                yield {"c": "7z", "m": [sub], "o": o}
                yield {"c": "7z", "m": [W1, sub, W2], "o": o}
        # dot-dot chains that start below a directory a real member creates first (either separator spelling)
        for kid in CANARY_DOWN:
            nm = {"k": kid}
            for sep in SEPS:
                mk = {"n": gname("", sep, ".txt", ["a", "r"]), "t": "REG"}
                for c in ZIPC + TARC:
                    yield {"c": c, "m": [mk, {"n": nm, "t": "REG"}, W1]}
                for f, ns in _flag_combos():
                    if ns:
                        continue          # the directory-making member needs its stream
                    yield {"c": "7z", "m": [mk, _with_flags({"n": nm, "t": "REG"}, f), W1]}
                    # listed after every entry that owns a stream: an entry without stream and without EmptyStream bit
                    yield {"c": "7z", "m": [mk, W1, _with_flags({"n": nm, "t": "REG"}, f)]}
        # a link to the canary directory followed by a regular member "through" the link
        for did in CANARY_DIR:
            dn = {"k": did}
            through = {"n": gname("", "/", ".txt", ["d", "secret"]), "t": "REG"}
            for c in TARC:
                for t in ("SYM", "LNK"):
                    yield {"c": c, "m": [{"n": gname("", "/", "", ["d"]), "t": t, "l": dn}, through, W1]}
            for c in ZIPC:
                yield {"c": c, "m": [{"n": gname("", "/", "", ["d"]), "t": "ZSYM", "l": dn}, through, W1]}
    elif kind == "nested":
        # a real nested archive behind every archive extension of the README's format table, lower and upper case
        for c in ZIPC + TARC + ["7z"]:
            for ext in NEST:
                for e in (ext, ext.upper()):
                    for segs in (["n"], ["a", "n"]):
                        yield {"c": c, "m": [W1, {"n": gname("", "/", e, segs), "t": "REG"}]}
        # a real archive of EVERY kind behind every extension (the README's and the aliases / foreign formats of NEST_EXTRA)
        for c in (PLAIN if tier == "quick" else tuple(ZIPC + TARC + ["7z"])):
            for ext in list(NEST) + NEST_EXTRA:
                for e in sorted({ext, ext.upper(), ext.lower()}):
                    for nb in NEST_KINDS:
                        for segs in ((["n"],) if tier == "quick" else (["n"], ["a", "n"])):
                            if ext in NEST and NEST_KINDS[nb] == NEST[ext] and e in (ext, ext.upper()):
                                continue          # enumerated by the loop above
                            yield {"c": c, "m": [W1, {"n": gname("", "/", e, segs), "t": "REG", "nb": nb}]}
    elif kind == "pairs":
        # two data-carrying members whose names collide (file vs directory of the same name, same file twice, aliases)
        pool = [gname("", "/", ".txt", ["a"]), gname("", "/", ".txt", ["a.txt", "a"]), gname("", "/", "", ["a"]),
                gname("", "/", ".txt", ["a", "a"]), gname("", "/", ".txt", [".", "a"]), gname("", "/", ".txt", ["a", "..", "a"]),
                gname("", "/", ".txt", ["..", "a"]), gname("/", "/", ".txt", ["a"])]
        for n1 in pool:
            for n2 in pool:
                for c in ("7z", "zip-s", "tar"):
                    yield {"c": c, "m": [{"n": n1, "t": "REG"}, {"n": n2, "t": "REG"}, W1]}
    elif kind == "oversize":
        big = {"n": {"big": 1}, "t": "REG"}
        for c in ZIPC + TARC:
            yield {"c": c, "m": [W1, big, W2]}
        for coder in ("copy", "lzma"):
            yield {"c": "7z", "m": [W1, big, W2], "o": {"coder": coder}}
        # the SAME name twice: one entry within the limit, one oversize (both orders) - a decision taken on one entry
        # must not be applied to the bytes of the other
        twin = {"n": {"big": 0}, "t": "REG"}
        for pair in ([twin, big], [big, twin]):
            for c in ZIPC + TARC:
                yield {"c": c, "m": pair + [W2]}
            for coder in ("copy", "lzma"):
                for layout in ("solid", "per_file"):
                    yield {"c": "7z", "m": pair + [W2], "o": {"coder": coder, **({"layout": layout} if layout != "solid" else {})}}
    elif kind == "trunc":
        ms = [W1, {"n": gname("", "/", ".txt", [".h"]), "t": "REG"}, {"n": gname("", "/", ".txt", ["a", "a"]), "t": "REG"}]
        for c, limit in (("zip-s", None), ("zip-d", None), ("tar", 3072), ("tar.gz", None), ("tar.bz2", None), ("tar.xz", None), ("7z", None)):
            # every proper prefix of the seed-0 rendering (build() always renders cut archives with seed-0 member tokens)
            full = build({"c": c, "m": ms}, "/nonexistent", 0)[0]
            for n in range(0, min(len(full), limit or len(full))):
                yield {"c": c, "m": ms, "cut": n}
    else:
        raise ValueError(kind)


def archives_for(tier, part, k=0, n=1):
    for i, a in _arch_gen(tier, part):
        if i % n == k:
            yield a


def parts(tier):
    """(part, number of partitions)"""
    quick = tier == "quick"
    out = []
    for c in ZIPC + TARC:
        out.append((f"names:{c}", (4 if quick else 32) if c in PLAIN else (1 if quick else 4)))
    out.append(("names:7z", 16 if quick else 96))
    for c in TARC:
        out.append((f"tartypes:{c}", (2 if quick else 16) if c in PLAIN else 2))
    for c in ZIPC:
        out.append((f"ziptypes:{c}", (2 if quick else 8) if c in PLAIN else 2))
    out.append(("canary", 8))
    out.append(("attrs7z", 8 if quick else 32))
    out.append(("pairs", 2))
    out.append(("nested", 6 if quick else 16))
    out.append(("trunc", 4))
    out.append(("oversize", 14))
    return out


def _fmt(arch):
    return arch["c"].split("-")[0].split(".")[0]


def _part(arg):
    tier, part, k, n, seed, parent = arg
    sb = M.sandbox(parent, seed)
    if not _WL.get("warm"):
        # warm-up: lazy imports / mimetypes initialisation happen outside the judged runs, then freeze the heap so that
        # gc.collect() inside abandon-histories is cheap
        for c in ("zip-s", "tar", "7z"):
            explore_archive({"c": c, "m": [W1]}, sb, seed)
        gc.collect()
        gc.freeze()
        _WL["warm"] = True
    st = {"archives": 0, "histories": 0, "states": 0, "transitions": 0, "inexpressible": 0, "fails": [], "outcomes": {},
          "samples": [], "temp_dirs": 0, "events": 0}
    for arch in archives_for(tier, part, k, n):
        res = explore_archive(arch, sb, seed)
        if res is None:
            st["inexpressible"] += 1
            continue
        st["archives"] += 1
        fmt = _fmt(arch)
        for h, fails, oc, steps, nev in res:
            st["histories"] += 1
            st["states"] += steps + 1
            st["transitions"] += steps + nev
            st["events"] += nev
            st["temp_dirs"] += oc[4]
            key = repr(oc)
            st["outcomes"][key] = st["outcomes"].get(key, 0) + 1
            for clause, msg in fails:
                st["fails"].append((clause, fmt, {**arch, "h": h}, msg))
        if len(st["samples"]) < 2 and (res[0][2][2] >= 1 or len(res[0][1]) > 0) and st["archives"] >= 2 + 38 * len(st["samples"]):
            names_ = build(arch, "$SB", seed)[2]["names"]
            st["samples"].append({"part": part, "archive": arch, "member_names": [x if len(x) < 80 else x[:30] + f"...({len(x)} chars)" for x in names_],
                                  "histories": [[h, repr(oc)] for h, _, oc, _, _ in res][:6]})
    if sb.snapshot() != sb.snap0:
        st["late_modified"] = f"sandbox content differs at the end of partition {part} {k}/{n} although no history reported it"
    return st


def run(ctx):
    parent = tempfile.mkdtemp(prefix="verif-c09-")
    try:
        args = []
        for part, n in parts(ctx.tier):
            args += [(ctx.tier, part, k, n, ctx.seed, parent) for k in range(n)]
        random.Random(ctx.seed).shuffle(args)
        # heavy partitions first is not needed: all partitions are small
        res = P.run_all("verif.props.C09", "_part", args, n=ctx.ncpu, hard_timeout=1500)
    finally:
        shutil.rmtree(parent, ignore_errors=True)
    tot = {"archives": 0, "histories": 0, "states": 0, "transitions": 0, "inexpressible": 0, "temp_dirs": 0, "events": 0}
    fails, outcomes, samples, herr, per_part = [], {}, [], [], {}
    for (status, r, _), a in zip(res, args):
        if status != "done":
            herr.append(f"partition {a[:4]} failed: {status}: {str(r)[-800:]}")
            continue
        if r.get("late_modified"):
            herr.append(r["late_modified"])
        for k in tot:
            tot[k] += r[k]
        per_part[a[1]] = per_part.get(a[1], 0) + r["archives"]
        fails += [tuple(x) for x in r["fails"]]
        for k_, v in r["outcomes"].items():
            outcomes[k_] = outcomes.get(k_, 0) + v
        samples += r["samples"]
    samples = sorted(samples, key=lambda s: (s["part"], json.dumps(s["archive"], sort_keys=True)))
    picked, seen = [], set()
    for s in samples:
        if s["part"].split(":")[0] not in seen and len(picked) < 6:
            seen.add(s["part"].split(":")[0])
            picked.append(s)
    wl_dirs, wl_files = M.whitelist()
    top = sorted(outcomes.items(), key=lambda kv: (-kv[1], kv[0]))
    cov = {"states": tot["states"], "transitions": tot["transitions"], "traces_validated_against_impl": tot["histories"],
           "evaluations": tot["histories"], "archives": tot["archives"], "distinct_nontrivial": len(outcomes),
           "monitored_fs_events": tot["events"], "temporary_directories_observed": tot["temp_dirs"],
           "names_not_expressible_in_container": tot["inexpressible"], "per_part_archives": per_part,
           "outcome_classes": [[k, v] for k, v in top[:40]], "samples": picked, "exhaustive": True,
           "rule": "every archive of the stated grammar (see module docstring: member names prefix x <=D segments x separator x "
                   "extension, canary names, containers zip/tar/7z with member types and 7z stream/bit/attribute/no-streams "
                   "combinations, 7z attribute words x link-target data x {alone, same name, through} shapes, a real archive of "
                   "every kind behind every archive-like extension, oversize members alone and next to a small entry of the "
                   "same name, every truncation of 7 base archives) x every consumer history (exhaust, "
                   "close/abandon/throw after k=0..n, loop-body raise after k=1..n); each history is run on the real "
                   "read_archive under the audit-hook monitor. states = consumer-history prefixes executed, transitions = "
                   "generator steps + monitored file-system events, distinct_nontrivial = distinct (family, history kind, "
                   "#results, exception type, #temp dirs, notes, failed clauses) classes",
           "bounds": {"tier": ctx.tier, **bounds(ctx.tier),
                      "explanation": "D = max name segments on zip-stored / plain tar / 7z; compressed variants (zip-deflated, tar.gz/"
                                     "bz2/xz) one level less; member types and link targets D_types; 7z EmptyStream/dir-attribute "
                                     "forgeries for names of < D segments, data-stream x no-MainStreamsInfo combinations for all; "
                                     "attr_*: part attrs7z (attribute words x link targets x shapes x {link only, all entries} "
                                     "x option sets); nested_*: extensions x kinds of real archive x case on that many "
                                     "containers; same_name_oversize_pairs: archives holding a small and an oversize entry "
                                     "of one name"},
           "monitor": {"watched_events": M.WATCHED_DOC, "read_whitelist_dirs": wl_dirs, "read_whitelist_files": wl_files,
                       "whitelist_applies_to": "read-only events (open without write mode/flags, os.listdir, os.scandir) only"}}
    assumptions = [
        "oracle judges only: (write-outside) every write/create/delete event resolves inside a directory announced by "
        "tempfile.mkdtemp under the private temp root during this call; (read-outside) every read event is inside it or under "
        "the printed infrastructure whitelist; (host-content) canary tokens never occur in get_full_text()/to_json() of a "
        "result; (host-modified) sandbox tree identical afterwards; (residue) temp root empty after the history (for abandon / "
        "loop-body raise after gc.collect()); (skip:*) must-skip members produce no result",
        "must-skip classification is restricted to clear cases: hidden = basename starts with '.' under both the POSIX and the "
        "Windows reading of the name; macosx = name starts with '__MACOSX/' and contains no '..' or backslash; nested = "
        "the member IS a real archive (zip / 7z / tar / tar.gz / tar.bz2 / tar.xz holding a token) and its name ends in an "
        "archive extension of the README or of NEST_EXTRA (a real archive named like a document, e.g. n.txt, is not "
        "enumerated); unsupported = extension .bin or none; oversize = 10 MiB + 1 "
        "byte (the extractor's per-member limit), judged by the member's content token - a must-skip entry that shares its "
        "name with an entry that may produce a result is not judged by the result's file_path. Members in hidden directories, '__MACOSX' below the top level, backslash-"
        "separated variants are don't-care (class Z). Skip clauses are not judged for forged 7z entries (phantom / EmptyStream "
        "/ directory-attribute / no-streams), where the name-to-bytes mapping is undefined, nor for 7z entries with a link / "
        "directory / device attribute word (their data is a link target, it carries no token); whether such an entry "
        "produces a result (its data is archive content) is not judged, only confinement is",
        "events that act on a directory entry (remove, rmdir, rename, symlink, link, mkdir, mkfifo, mknod, rmtree) are resolved "
        "without following a symbolic link in the last path component: deleting or creating a link INSIDE the temporary "
        "directory is no access to the link's target; every other component is resolved",
        "whether a visible member produces a result, and which exception a hostile or corrupt archive raises, is not judged "
        "here (C10 / C14); a generator that swallows throw() is closed afterwards and only confinement/residue are judged",
        "os.stat/os.path.exists raise no audit event: existence probes of host paths are not observed, only opens/listings; "
        "os.mkdir of a path that already exists (os.makedirs(exist_ok=True) probing a parent) fails with EEXIST, creates "
        "nothing and is not counted as a write",
        "a generator that swallows generator.throw() and yields the next result is recorded in the outcome class only",
        "truncated archives are every proper prefix of the seed-0 rendering of 7 base archives (so that the set of cases does "
        "not depend on VERIF_SEED)",
        "the read whitelist contains /repo and /verif: no generated member name points there (host names are only the canaries)",
    ]
    return {"coverage": cov, "failures": fails, "harness_errors": herr, "assumptions": assumptions}
