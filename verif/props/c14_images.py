"""C14 helper: tiny raster image synthesiser (PNG, JPEG, GIF89a, BMP) written from the format specifications.

    make(fmt, w, h, uid, lay="") -> bytes   fmt in {"png", "jpeg", "gif", "bmp"}; uid: int >= 0 (unique payload per image);
                                       lay: file layout (LAYOUTS[fmt]; "" = the minimal file described below)
    sniff(data) -> (fmt, w, h) | None  independent header reader used as ground truth cross-check (selftest)

Every file is structurally complete (a decoder can render it):
  PNG   signature, IHDR (8-bit greyscale), tEXt "Comment" = uid, IDAT (zlib, filter 0 rows), IEND - all CRCs correct
  JPEG  SOI, APP0/JFIF, COM = uid, DQT, SOF0 (1 component, 8 bit), DHT x2 (one code each), SOS, entropy data of all-zero
        blocks, EOI.  The first marker after SOI is APP0 so the file starts ff d8 ff e0.
  GIF   "GIF89a", logical screen descriptor, 2-colour global table (colours derived from uid), comment extension = uid,
        image descriptor, LZW data (minimum code size 2) for w*h pixels of colour 0, trailer
  BMP   BITMAPFILEHEADER (bfSize = file length, bfOffBits = 14 + 40 + 8), BITMAPINFOHEADER (1 bpp, BI_RGB, bottom-up),
        2 palette entries derived from uid, pixel rows padded to 4 bytes (first row carries uid bits)
The uid never changes the header fields the library sniffs (signature, dimensions), only payload bytes.

File layouts (`lay`): the same picture written the way other producers write it - what surrounds, precedes or encodes the
declaration of the pixel size differs, the declared size (and the pixels) do not:
  JPEG  exif      APP1/Exif in front of the frame header: TIFF structure (IFD0 Orientation, IFD1 = JPEG thumbnail 160x120, a
                  complete JPEG with its OWN SOF0 inside the segment)
        meta64k   exif (thumbnail + 40000 bytes of maker-note area) + an ICC profile split over two APP2 segments: the frame
                  header starts beyond offset 64 KiB (every segment < 64 KiB, as the format demands)
        meta300k  ... ICC profile of 5 APP2 segments of 60000 bytes: frame header beyond 256 KiB
        meta1m    ... 17 segments of 65000 bytes: frame header beyond 1 MiB
        prog      progressive: SOF2, a DC scan and an AC scan (all coefficients zero)
        sof1      extended sequential: SOF1
        fill      two X'FF' fill bytes in front of the DQT, SOF0 and SOS markers (T.81 B.1.1.2: any marker may be preceded by fill bytes)
  PNG   meta64k   pHYs + iTXt "XML:com.adobe.xmp" of 70000 bytes between IHDR and IDAT (the file is > 64 KiB)
        rgba      colour type 6 (RGBA), 8 bit
  GIF   87a       GIF87a: no extension blocks (the uid lives in the palette only)
  BMP   topdown   negative biHeight (rows stored top-down); the declared pixel height is |biHeight|
        v5        BITMAPV5HEADER (124 bytes) instead of BITMAPINFOHEADER
Deterministic; no clock, no randomness.
"""
from __future__ import annotations

import hashlib
import struct
import zlib

FORMATS = ("png", "jpeg", "gif", "bmp")
CTYPE = {"png": "image/png", "jpeg": "image/jpeg", "gif": "image/gif", "bmp": "image/bmp"}
_CACHE: dict = {}


def _uid_bytes(uid: int) -> bytes:
    return ("verif-c14-%08d" % uid).encode("ascii")


# ------------------------------------------------------------------------------------------------ PNG

def _png_chunk(t: bytes, d: bytes) -> bytes:
    return struct.pack(">I", len(d)) + t + d + struct.pack(">I", zlib.crc32(t + d) & 0xFFFFFFFF)


def _blob(n: int, salt: int) -> bytes:
    """n deterministic metadata bytes that do not deflate (SHA-256 in counter mode, 64 KiB period > the deflate window, read from
    a salt-dependent offset): real Exif / ICC / XMP payloads are not 200:1 compressible, and the library's ZIP-bomb guard is not
    this property's subject."""
    unit = _CACHE.get("blob")
    if unit is None:
        unit = _CACHE["blob"] = b"".join(hashlib.sha256(b"verif-c14-blob-%d" % i).digest() for i in range(2048))
    o = (salt * 4099) % len(unit)
    return ((unit[o:] + unit[:o]) * (n // len(unit) + 1))[:n]


def png(w: int, h: int, uid: int, lay: str = "") -> bytes:
    if lay not in ("", "meta64k", "rgba"):
        raise ValueError(lay)
    v = (uid * 37 + 11) & 0xFF
    if lay == "rgba":
        row, ctype = b"\x00" + bytes([v, v, v, 0xFF]) * w, 6
    else:
        row, ctype = b"\x00" + bytes([v]) * w, 0
    raw = bytes(row) * h
    meta = b""
    if lay == "meta64k":
        meta = (_png_chunk(b"pHYs", struct.pack(">IIB", 2835, 2835, 1)) +
                _png_chunk(b"iTXt", b"XML:com.adobe.xmp\x00\x00\x00\x00\x00" + _blob(70000, uid)))
    return (b"\x89PNG\r\n\x1a\n" + _png_chunk(b"IHDR", struct.pack(">IIBBBBB", w, h, 8, ctype, 0, 0, 0)) +
            _png_chunk(b"tEXt", b"Comment\x00" + _uid_bytes(uid)) + meta +
            _png_chunk(b"IDAT", zlib.compress(raw, 9)) + _png_chunk(b"IEND", b""))


# ------------------------------------------------------------------------------------------------ JPEG

def _jseg(marker: int, payload: bytes) -> bytes:
    assert len(payload) + 2 <= 0xFFFF
    return bytes([0xFF, marker]) + struct.pack(">H", len(payload) + 2) + payload


def _jpeg_scan_bits(w: int, h: int, bits_per_block: int) -> bytes:
    nbits = bits_per_block * ((w + 7) // 8) * ((h + 7) // 8)
    nbytes = (nbits + 7) // 8
    pad = nbytes * 8 - nbits
    body = bytearray(nbytes)
    if pad:
        body[-1] = (1 << pad) - 1                              # pad the last byte with 1 bits (never 0xff: pad <= 7)
    return bytes(body)


def _exif(thumb: bytes, pad: int, salt: int) -> bytes:
    """APP1 payload: "Exif" + big-endian TIFF; IFD0 {Orientation}, IFD1 {Compression=6, thumbnail offset/length}, the
    thumbnail, then `pad` bytes nothing points to (maker-note area)."""
    ifd0 = struct.pack(">H", 1) + struct.pack(">HHIHH", 0x0112, 3, 1, 1, 0) + struct.pack(">I", 26)
    off_thumb = 26 + 2 + 3 * 12 + 4
    ifd1 = (struct.pack(">H", 3) + struct.pack(">HHIHH", 0x0103, 3, 1, 6, 0) + struct.pack(">HHII", 0x0201, 4, 1, off_thumb) +
            struct.pack(">HHII", 0x0202, 4, 1, len(thumb)) + struct.pack(">I", 0))
    return b"Exif\x00\x00" + b"MM\x00\x2a" + struct.pack(">I", 8) + ifd0 + ifd1 + thumb + _blob(pad, salt)


_JPEG_META = {"": None, "prog": None, "sof1": None, "fill": None, "exif": (0, 0, 0), "meta64k": (40000, 2, 15000),
              "meta300k": (40000, 5, 60000), "meta1m": (40000, 17, 65000)}       # (maker-note bytes, ICC segments, bytes per segment)
THUMB = (160, 120)


def jpeg(w: int, h: int, uid: int, lay: str = "") -> bytes:
    if lay not in _JPEG_META:
        raise ValueError(lay)
    fill = b"\xff\xff" if lay == "fill" else b""
    out = bytearray(b"\xff\xd8")
    out += _jseg(0xE0, b"JFIF\x00\x01\x01\x00\x00\x01\x00\x01\x00\x00")
    if _JPEG_META[lay]:
        pad, nseg, per = _JPEG_META[lay]
        out += _jseg(0xE1, _exif(jpeg(THUMB[0], THUMB[1], uid), pad, uid))
        for n in range(1, nseg + 1):
            out += _jseg(0xE2, b"ICC_PROFILE\x00" + bytes([n, nseg]) + _blob(per, uid + n))
    out += _jseg(0xFE, _uid_bytes(uid))
    out += fill + _jseg(0xDB, b"\x00" + bytes([1 + uid % 200] * 64))
    sof = {"prog": 0xC2, "sof1": 0xC1}.get(lay, 0xC0)
    out += fill + _jseg(sof, struct.pack(">BHHB", 8, h, w, 1) + bytes([1, 0x11, 0]))
    for tc in (0x00, 0x10):                                   # one DC and one AC table, each holding the single code "0"
        out += _jseg(0xC4, bytes([tc, 1] + [0] * 15 + [0]))
    if lay == "prog":
        # DC first scan (Ss=Se=0): one bit per block (difference category 0); AC first scan (1..63): one bit per block (EOB0)
        out += _jseg(0xDA, bytes([1, 1, 0x00, 0, 0, 0x00])) + _jpeg_scan_bits(w, h, 1)
        out += _jseg(0xDA, bytes([1, 1, 0x00, 1, 63, 0x00])) + _jpeg_scan_bits(w, h, 1)
    else:
        # per 8x8 block: DC diff 0 (1 bit) + EOB (1 bit)
        out += fill + _jseg(0xDA, bytes([1, 1, 0x00, 0, 63, 0x00])) + _jpeg_scan_bits(w, h, 2)
    out += b"\xff\xd9"
    return bytes(out)


# ------------------------------------------------------------------------------------------------ GIF

def _gif_lzw_zero(npix: int, min_code: int = 2) -> bytes:
    """LZW code stream (packed LSB first, in sub-blocks) for npix pixels of colour index 0."""
    key = ("lzw", npix, min_code)
    if key in _CACHE:
        return _CACHE[key]
    clear = 1 << min_code
    eoi = clear + 1
    codes = []        # (code, width)
    width = min_code + 1
    nxt = eoi + 1
    table = {}        # run length (>= 2) -> code   (all strings are runs of zeros)
    codes.append((clear, width))
    remaining = npix
    # greedy: the longest known run
    longest = 1       # run length 1 = code 0
    while remaining > 0:
        ln = min(longest, remaining)
        code = 0 if ln == 1 else table[ln]
        codes.append((code, width))
        remaining -= ln
        if remaining > 0:
            # add string (emitted run + next pixel)
            if nxt < 4096:
                table[ln + 1] = nxt
                if ln + 1 > longest:
                    longest = ln + 1
                nxt += 1
                if nxt > (1 << width) and width < 12:
                    width += 1
            else:
                codes.append((clear, width))
                table.clear()
                longest = 1
                nxt = eoi + 1
                width = min_code + 1
    codes.append((eoi, width))
    acc = 0
    nb = 0
    out = bytearray()
    for c, wd in codes:
        acc |= c << nb
        nb += wd
        while nb >= 8:
            out.append(acc & 0xFF)
            acc >>= 8
            nb -= 8
    if nb:
        out.append(acc & 0xFF)
    blocks = bytearray()
    for i in range(0, len(out), 255):
        chunk = out[i:i + 255]
        blocks.append(len(chunk))
        blocks += chunk
    blocks.append(0)
    _CACHE[key] = bytes(blocks)
    return _CACHE[key]


def gif(w: int, h: int, uid: int, lay: str = "") -> bytes:
    if lay not in ("", "87a"):
        raise ValueError(lay)
    pal = bytes([(uid * 7) & 0xFF, (uid * 13 + 1) & 0xFF, (uid >> 8) & 0xFF, 0xFF, 0xFF, 0xFF])
    out = bytearray(b"GIF87a" if lay == "87a" else b"GIF89a")
    out += struct.pack("<HHBBB", w, h, 0x80, 0, 0)            # global colour table, 2 entries
    out += pal
    if lay != "87a":
        com = _uid_bytes(uid)
        out += b"\x21\xfe" + bytes([len(com)]) + com + b"\x00"
    out += b"\x2c" + struct.pack("<HHHHB", 0, 0, w, h, 0)
    out += b"\x02" + _gif_lzw_zero(w * h, 2)
    out += b"\x3b"
    return bytes(out)


# ------------------------------------------------------------------------------------------------ BMP

def bmp(w: int, h: int, uid: int, lay: str = "") -> bytes:
    if lay not in ("", "topdown", "v5"):
        raise ValueError(lay)
    stride = ((w + 31) // 32) * 4
    rows = bytearray(stride * h)
    rows[0] = (uid & 0xFF) & (0xFF << max(0, 8 - w)) & 0xFF   # only bits of real pixels
    pal = bytes([(uid * 5) & 0xFF, (uid * 11 + 3) & 0xFF, (uid >> 8) & 0xFF, 0, 0xFF, 0xFF, 0xFF, 0])
    hsize = 124 if lay == "v5" else 40
    off = 14 + hsize + 8
    info = struct.pack("<IiiHHIIiiII", hsize, w, (-h if lay == "topdown" else h), 1, 1, 0, len(rows), 2835, 2835, 2, 0)
    if lay == "v5":
        # masks (unused for BI_RGB), bV5CSType = "sRGB", endpoints, gamma, bV5Intent = LCS_GM_IMAGES, profile data/size, reserved
        info += struct.pack("<IIII", 0, 0, 0, 0) + b"BGRs" + bytes(36) + bytes(12) + struct.pack("<IIII", 4, 0, 0, 0)
        assert len(info) == 124
    return b"BM" + struct.pack("<IHHI", off + len(rows), 0, 0, off) + info + pal + bytes(rows)


_MAKERS = {"png": png, "jpeg": jpeg, "gif": gif, "bmp": bmp}
LAYOUTS = {"png": ("", "meta64k", "rgba"), "jpeg": tuple(_JPEG_META), "gif": ("", "87a"), "bmp": ("", "topdown", "v5")}
# layouts that are the same construction with less of it (what a failing case may be shrunk to, besides the plain layout "")
SIMPLER = {"meta64k": ("exif",), "meta300k": ("exif", "meta64k"), "meta1m": ("exif", "meta64k", "meta300k")}


def make(fmt: str, w: int, h: int, uid: int, lay: str = "") -> bytes:
    key = (fmt, w, h, uid, lay) if lay else (fmt, w, h, uid)
    r = _CACHE.get(key)
    if r is None:
        r = _MAKERS[fmt](w, h, uid, lay) if lay else _MAKERS[fmt](w, h, uid)
        if len(_CACHE) < 4096 and len(r) < 200_000:
            _CACHE[key] = r
    return r


# ------------------------------------------------------------------------------------------------ ground-truth reader

def sniff(data: bytes):
    """(fmt, w, h) read from the header the way the format specifications define it; None if not one of the four."""
    if data[:8] == b"\x89PNG\r\n\x1a\n" and data[12:16] == b"IHDR":
        w, h = struct.unpack(">II", data[16:24])
        return ("png", w, h)
    if data[:6] in (b"GIF87a", b"GIF89a"):
        w, h = struct.unpack("<HH", data[6:10])
        return ("gif", w, h)
    if data[:2] == b"BM":
        w, h = struct.unpack("<ii", data[18:26])
        return ("bmp", w, abs(h))
    if data[:2] == b"\xff\xd8":
        i = 2
        while i + 4 <= len(data):
            if data[i] != 0xFF:
                return None
            m = data[i + 1]
            if m == 0xFF:
                i += 1
                continue
            if m == 0xD8 or m == 0x01 or 0xD0 <= m <= 0xD7:
                i += 2
                continue
            ln = struct.unpack(">H", data[i + 2:i + 4])[0]
            if 0xC0 <= m <= 0xCF and m not in (0xC4, 0xC8, 0xCC):
                h, w = struct.unpack(">HH", data[i + 5:i + 9])
                return ("jpeg", w, h)
            if m in (0xDA, 0xD9):
                return None
            i += 2 + ln
    return None


def selftest():
    """Structure checks (CRC, LZW round trip via an independent decoder, sizes); PIL is used only when installed."""
    probs = []
    for f in FORMATS:
        for (w, h) in ((1, 1), (3, 2), (640, 480), (17, 5)):
            seen = set()
            for uid in (0, 1, 2, 255, 300):
                d = make(f, w, h, uid)
                if sniff(d) != (f, w, h):
                    probs.append("%s %dx%d uid %d: sniff %r" % (f, w, h, uid, sniff(d)))
                seen.add(d)
            if len(seen) != 5:
                probs.append("%s %dx%d: payload not unique" % (f, w, h))
            try:
                from PIL import Image  # type: ignore
                import io
                im = Image.open(io.BytesIO(make(f, w, h, 3)))
                im.load()
                if im.size != (w, h):
                    probs.append("%s: PIL size %r" % (f, im.size))
            except ImportError:
                pass
            except Exception as e:  # noqa
                probs.append("%s %dx%d: PIL cannot decode: %s" % (f, w, h, e))
    # file layouts: same declared size, unique payload per uid, structure of each construction
    for f in FORMATS:
        for lay in LAYOUTS[f]:
            if not lay:
                continue
            for (w, h) in ((1, 1), (640, 480)):
                ds = [make(f, w, h, uid, lay) for uid in (0, 1, 2, 255, 300)]
                if len(set(ds)) != 5:
                    probs.append("%s/%s %dx%d: payload not unique" % (f, lay, w, h))
                if any(sniff(d) != (f, w, h) for d in ds):
                    probs.append("%s/%s %dx%d: sniff %r" % (f, lay, w, h, sniff(ds[0])))
                if make(f, w, h, 1, lay) == make(f, w, h, 1):
                    probs.append("%s/%s: same bytes as the plain layout" % (f, lay))
                d = ds[1]
                if f == "jpeg":
                    # walk the segments up to the first scan: every length consistent, exactly one frame header, where it lies
                    i, sof_at, segs = 2, [], []
                    while i + 4 <= len(d):
                        if d[i] != 0xFF:
                            probs.append("jpeg/%s: no marker at %d" % (lay, i))
                            break
                        if d[i + 1] == 0xFF:
                            i += 1
                            continue
                        m, ln = d[i + 1], struct.unpack(">H", d[i + 2:i + 4])[0]
                        segs.append((m, i, ln))
                        if 0xC0 <= m <= 0xCF and m not in (0xC4, 0xC8, 0xCC):
                            sof_at.append(i)
                        if m == 0xDA:
                            break
                        i += 2 + ln
                    if len(sof_at) != 1 or d[-2:] != b"\xff\xd9":
                        probs.append("jpeg/%s: frame headers at %r / no EOI" % (lay, sof_at))
                    least = {"meta64k": 1 << 16, "meta300k": 1 << 18, "meta1m": 1 << 20}.get(lay)
                    if least and (not sof_at or sof_at[0] <= least + 2048):
                        probs.append("jpeg/%s: frame header at %r, want beyond %d" % (lay, sof_at, least))
                    if _JPEG_META[lay]:
                        app1 = [x for x in segs if x[0] == 0xE1]
                        t0 = app1[0][1] + 4 + 6                                   # start of the TIFF structure
                        if d[t0:t0 + 4] != b"MM\x00\x2a":
                            probs.append("jpeg/%s: no TIFF header in APP1" % lay)
                        ifd1 = t0 + struct.unpack(">I", d[t0 + 22:t0 + 26])[0]
                        tags = {struct.unpack(">H", d[ifd1 + 2 + 12 * k:ifd1 + 4 + 12 * k])[0]: struct.unpack(">I", d[ifd1 + 10 + 12 * k:ifd1 + 14 + 12 * k])[0]
                                for k in range(struct.unpack(">H", d[ifd1:ifd1 + 2])[0])}
                        th = d[t0 + tags.get(0x0201, 0):t0 + tags.get(0x0201, 0) + tags.get(0x0202, 0)]
                        if sniff(th) != ("jpeg",) + THUMB or th[-2:] != b"\xff\xd9" or t0 + tags[0x0201] + len(th) > app1[0][1] + 2 + app1[0][2]:
                            probs.append("jpeg/%s: Exif thumbnail not a JPEG %r inside APP1" % (lay, THUMB))
                        icc = [x for x in segs if x[0] == 0xE2]
                        if [d[x[1] + 16] for x in icc] != list(range(1, len(icc) + 1)) or any(d[x[1] + 17] != len(icc) for x in icc):
                            probs.append("jpeg/%s: ICC chunk numbering" % lay)
                if f == "png":
                    i = 8
                    names = []
                    while i < len(d):
                        ln = struct.unpack(">I", d[i:i + 4])[0]
                        names.append(d[i + 4:i + 8])
                        if zlib.crc32(d[i + 4:i + 8 + ln]) & 0xFFFFFFFF != struct.unpack(">I", d[i + 8 + ln:i + 12 + ln])[0]:
                            probs.append("png/%s crc %r" % (lay, names[-1]))
                        if names[-1] == b"IDAT":
                            want = h * (1 + w * (4 if lay == "rgba" else 1))
                            if len(zlib.decompress(d[i + 8:i + 8 + ln])) != want:
                                probs.append("png/%s idat size" % lay)
                        i += 12 + ln
                    if names[0] != b"IHDR" or names[-1] != b"IEND" or (lay == "meta64k" and len(d) <= (1 << 16)):
                        probs.append("png/%s chunk order %r / size %d" % (lay, names, len(d)))
                if f == "bmp":
                    size, off = struct.unpack("<I", d[2:6])[0], struct.unpack("<I", d[10:14])[0]
                    hs, bw, bh = struct.unpack("<Iii", d[14:26])
                    stride = ((w + 31) // 32) * 4
                    if size != len(d) or off != 14 + hs + 8 or len(d) - off != stride * h or bw != w or bh != (-h if lay == "topdown" else h) \
                            or hs != (124 if lay == "v5" else 40):
                        probs.append("bmp/%s header fields" % lay)
                if f == "gif" and (d[:6] != b"GIF87a" or b"\x21" in d[:19]):
                    probs.append("gif/%s signature / extension" % lay)
    # PNG CRC / zlib
    d = make("png", 3, 2, 9)
    i = 8
    total = b""
    while i < len(d):
        ln = struct.unpack(">I", d[i:i + 4])[0]
        t = d[i + 4:i + 8]
        body = d[i + 8:i + 8 + ln]
        crc = struct.unpack(">I", d[i + 8 + ln:i + 12 + ln])[0]
        if zlib.crc32(t + body) & 0xFFFFFFFF != crc:
            probs.append("png crc " + repr(t))
        if t == b"IDAT":
            total += body
        i += 12 + ln
    if len(zlib.decompress(total)) != 2 * (1 + 3):
        probs.append("png idat size")
    # GIF LZW decode
    for npix in (1, 6, 640 * 480, 5000):
        blocks = _gif_lzw_zero(npix)
        raw = bytearray()
        i = 0
        while blocks[i]:
            raw += blocks[i + 1:i + 1 + blocks[i]]
            i += 1 + blocks[i]
        if i != len(blocks) - 1:
            probs.append("gif blocks trailing")
        acc = nb = 0
        pos = 0
        width = 3
        table = None
        prev = None
        outn = 0
        done = False
        while not done:
            while nb < width:
                if pos >= len(raw):
                    probs.append("gif lzw underrun")
                    done = True
                    break
                acc |= raw[pos] << nb
                nb += 8
                pos += 1
            if done:
                break
            code = acc & ((1 << width) - 1)
            acc >>= width
            nb -= width
            if code == 4:
                table = {0: 1, 1: 1, 2: 1, 3: 1}
                nxt = 6
                width = 3
                prev = None
                continue
            if code == 5:
                break
            if code in table:
                ln = table[code]
            elif code == nxt and prev is not None:
                ln = table[prev] + 1
            else:
                probs.append("gif lzw bad code")
                break
            outn += ln
            if prev is not None and nxt < 4096:
                table[nxt] = table[prev] + 1
                nxt += 1
                if nxt == (1 << width) and width < 12:
                    width += 1
            prev = code
        if outn != npix:
            probs.append("gif lzw decoded %d pixels, want %d" % (outn, npix))
    return probs


if __name__ == "__main__":
    p = selftest()
    print("c14_images selftest:", "ok" if not p else p)
