"""C14 helper: tiny raster image synthesiser (PNG, JPEG, GIF89a, BMP) written from the format specifications.

    make(fmt, w, h, uid) -> bytes      fmt in {"png", "jpeg", "gif", "bmp"}; uid: int >= 0 (unique payload per image)
    sniff(data) -> (fmt, w, h) | None  independent header reader used as ground truth cross-check (selftest)

Every file is structurally complete (a decoder can render it):
  PNG   signature, IHDR (8-bit greyscale), tEXt "Comment" = uid, IDAT (zlib, filter 0 rows), IEND - all CRCs correct
  JPEG  SOI, APP0/JFIF, COM = uid, DQT, SOF0 (1 component, 8 bit), DHT x2 (one code each), SOS, entropy data of all-zero
        blocks, EOI.  The first marker after SOI is APP0 so the file starts ff d8 ff e0.
  GIF   "GIF89a", logical screen descriptor, 2-colour global table (colours derived from uid), comment extension = uid,
        image descriptor, LZW data (minimum code size 2) for w*h pixels of colour 0, trailer
  BMP   BITMAPFILEHEADER (bfSize = file length, bfOffBits = 14 + 40 + 8), BITMAPINFOHEADER (1 bpp, BI_RGB, bottom-up),
        2 palette entries derived from uid, pixel rows padded to 4 bytes (first row carries uid bits)
The uid never changes the header fields the library sniffs (signature, dimensions), only payload bytes.
Deterministic; no clock, no randomness.
"""
from __future__ import annotations

import struct
import zlib

FORMATS = ("png", "jpeg", "gif", "bmp")
CTYPE = {"png": "image/png", "jpeg": "image/jpeg", "gif": "image/gif", "bmp": "image/bmp"}
_CACHE: dict = {}


def _uid_bytes(uid: int) -> bytes:
    return ("verif-c14-%08d" % uid).encode("ascii")


# ------------------------------------------------------------------------------------------------ PNG

def _png_chunk(t: bytes, d: bytes) -> bytes:
    return struct.pack(">I", len(d)) + t + d + struct.pack(">I", zlib.crc32(t + d) & 0xFFFFFFFF)


def png(w: int, h: int, uid: int) -> bytes:
    row = bytearray(b"\x00" + bytes([(uid * 37 + 11) & 0xFF]) * w)
    raw = bytes(row) * h
    return (b"\x89PNG\r\n\x1a\n" + _png_chunk(b"IHDR", struct.pack(">IIBBBBB", w, h, 8, 0, 0, 0, 0)) +
            _png_chunk(b"tEXt", b"Comment\x00" + _uid_bytes(uid)) +
            _png_chunk(b"IDAT", zlib.compress(raw, 9)) + _png_chunk(b"IEND", b""))


# ------------------------------------------------------------------------------------------------ JPEG

def jpeg(w: int, h: int, uid: int) -> bytes:
    out = bytearray(b"\xff\xd8")
    out += b"\xff\xe0" + struct.pack(">H", 16) + b"JFIF\x00\x01\x01\x00\x00\x01\x00\x01\x00\x00"
    com = _uid_bytes(uid)
    out += b"\xff\xfe" + struct.pack(">H", 2 + len(com)) + com
    out += b"\xff\xdb" + struct.pack(">H", 67) + b"\x00" + bytes([1 + uid % 200] * 64)
    out += b"\xff\xc0" + struct.pack(">HBHHB", 11, 8, h, w, 1) + bytes([1, 0x11, 0])
    for tc in (0x00, 0x10):                                   # one DC and one AC table, each holding the single code "0"
        out += b"\xff\xc4" + struct.pack(">H", 20) + bytes([tc, 1] + [0] * 15 + [0])
    out += b"\xff\xda" + struct.pack(">HB", 8, 1) + bytes([1, 0x00]) + b"\x00\x3f\x00"
    nbits = 2 * ((w + 7) // 8) * ((h + 7) // 8)                # per 8x8 block: DC diff 0 (1 bit) + EOB (1 bit)
    nbytes = (nbits + 7) // 8
    pad = nbytes * 8 - nbits
    body = bytearray(nbytes)
    if pad:
        body[-1] = (1 << pad) - 1                              # pad the last byte with 1 bits (never 0xff: pad <= 7)
    out += bytes(body)
    out += b"\xff\xd9"
    return bytes(out)


# ------------------------------------------------------------------------------------------------ GIF

def _gif_lzw_zero(npix: int, min_code: int = 2) -> bytes:
    """LZW code stream (packed LSB first, in sub-blocks) for npix pixels of colour index 0."""
    key = ("lzw", npix, min_code)
    if key in _CACHE:
        return _CACHE[key]
    clear = 1 << min_code
    eoi = clear + 1
    codes = []        # (code, width)
    width = min_code + 1
    nxt = eoi + 1
    table = {}        # run length (>= 2) -> code   (all strings are runs of zeros)
    codes.append((clear, width))
    remaining = npix
    # greedy: the longest known run
    longest = 1       # run length 1 = code 0
    while remaining > 0:
        ln = min(longest, remaining)
        code = 0 if ln == 1 else table[ln]
        codes.append((code, width))
        remaining -= ln
        if remaining > 0:
            # add string (emitted run + next pixel)
            if nxt < 4096:
                table[ln + 1] = nxt
                if ln + 1 > longest:
                    longest = ln + 1
                nxt += 1
                if nxt > (1 << width) and width < 12:
                    width += 1
            else:
                codes.append((clear, width))
                table.clear()
                longest = 1
                nxt = eoi + 1
                width = min_code + 1
    codes.append((eoi, width))
    acc = 0
    nb = 0
    out = bytearray()
    for c, wd in codes:
        acc |= c << nb
        nb += wd
        while nb >= 8:
            out.append(acc & 0xFF)
            acc >>= 8
            nb -= 8
    if nb:
        out.append(acc & 0xFF)
    blocks = bytearray()
    for i in range(0, len(out), 255):
        chunk = out[i:i + 255]
        blocks.append(len(chunk))
        blocks += chunk
    blocks.append(0)
    _CACHE[key] = bytes(blocks)
    return _CACHE[key]


def gif(w: int, h: int, uid: int) -> bytes:
    pal = bytes([(uid * 7) & 0xFF, (uid * 13 + 1) & 0xFF, (uid >> 8) & 0xFF, 0xFF, 0xFF, 0xFF])
    out = bytearray(b"GIF89a")
    out += struct.pack("<HHBBB", w, h, 0x80, 0, 0)            # global colour table, 2 entries
    out += pal
    com = _uid_bytes(uid)
    out += b"\x21\xfe" + bytes([len(com)]) + com + b"\x00"
    out += b"\x2c" + struct.pack("<HHHHB", 0, 0, w, h, 0)
    out += b"\x02" + _gif_lzw_zero(w * h, 2)
    out += b"\x3b"
    return bytes(out)


# ------------------------------------------------------------------------------------------------ BMP

def bmp(w: int, h: int, uid: int) -> bytes:
    stride = ((w + 31) // 32) * 4
    rows = bytearray(stride * h)
    rows[0] = (uid & 0xFF) & (0xFF << max(0, 8 - w)) & 0xFF   # only bits of real pixels
    pal = bytes([(uid * 5) & 0xFF, (uid * 11 + 3) & 0xFF, (uid >> 8) & 0xFF, 0, 0xFF, 0xFF, 0xFF, 0])
    off = 14 + 40 + 8
    info = struct.pack("<IiiHHIIiiII", 40, w, h, 1, 1, 0, len(rows), 2835, 2835, 2, 0)
    return b"BM" + struct.pack("<IHHI", off + len(rows), 0, 0, off) + info + pal + bytes(rows)


_MAKERS = {"png": png, "jpeg": jpeg, "gif": gif, "bmp": bmp}


def make(fmt: str, w: int, h: int, uid: int) -> bytes:
    key = (fmt, w, h, uid)
    r = _CACHE.get(key)
    if r is None:
        r = _MAKERS[fmt](w, h, uid)
        if len(_CACHE) < 4096:
            _CACHE[key] = r
    return r


# ------------------------------------------------------------------------------------------------ ground-truth reader

def sniff(data: bytes):
    """(fmt, w, h) read from the header the way the format specifications define it; None if not one of the four."""
    if data[:8] == b"\x89PNG\r\n\x1a\n" and data[12:16] == b"IHDR":
        w, h = struct.unpack(">II", data[16:24])
        return ("png", w, h)
    if data[:6] in (b"GIF87a", b"GIF89a"):
        w, h = struct.unpack("<HH", data[6:10])
        return ("gif", w, h)
    if data[:2] == b"BM":
        w, h = struct.unpack("<ii", data[18:26])
        return ("bmp", w, abs(h))
    if data[:2] == b"\xff\xd8":
        i = 2
        while i + 4 <= len(data):
            if data[i] != 0xFF:
                return None
            m = data[i + 1]
            if m == 0xFF:
                i += 1
                continue
            if m == 0xD8 or m == 0x01 or 0xD0 <= m <= 0xD7:
                i += 2
                continue
            ln = struct.unpack(">H", data[i + 2:i + 4])[0]
            if 0xC0 <= m <= 0xCF and m not in (0xC4, 0xC8, 0xCC):
                h, w = struct.unpack(">HH", data[i + 5:i + 9])
                return ("jpeg", w, h)
            if m in (0xDA, 0xD9):
                return None
            i += 2 + ln
    return None


def selftest():
    """Structure checks (CRC, LZW round trip via an independent decoder, sizes); PIL is used only when installed."""
    probs = []
    for f in FORMATS:
        for (w, h) in ((1, 1), (3, 2), (640, 480), (17, 5)):
            seen = set()
            for uid in (0, 1, 2, 255, 300):
                d = make(f, w, h, uid)
                if sniff(d) != (f, w, h):
                    probs.append("%s %dx%d uid %d: sniff %r" % (f, w, h, uid, sniff(d)))
                seen.add(d)
            if len(seen) != 5:
                probs.append("%s %dx%d: payload not unique" % (f, w, h))
            try:
                from PIL import Image  # type: ignore
                import io
                im = Image.open(io.BytesIO(make(f, w, h, 3)))
                im.load()
                if im.size != (w, h):
                    probs.append("%s: PIL size %r" % (f, im.size))
            except ImportError:
                pass
            except Exception as e:  # noqa
                probs.append("%s %dx%d: PIL cannot decode: %s" % (f, w, h, e))
    # PNG CRC / zlib
    d = make("png", 3, 2, 9)
    i = 8
    total = b""
    while i < len(d):
        ln = struct.unpack(">I", d[i:i + 4])[0]
        t = d[i + 4:i + 8]
        body = d[i + 8:i + 8 + ln]
        crc = struct.unpack(">I", d[i + 8 + ln:i + 12 + ln])[0]
        if zlib.crc32(t + body) & 0xFFFFFFFF != crc:
            probs.append("png crc " + repr(t))
        if t == b"IDAT":
            total += body
        i += 12 + ln
    if len(zlib.decompress(total)) != 2 * (1 + 3):
        probs.append("png idat size")
    # GIF LZW decode
    for npix in (1, 6, 640 * 480, 5000):
        blocks = _gif_lzw_zero(npix)
        raw = bytearray()
        i = 0
        while blocks[i]:
            raw += blocks[i + 1:i + 1 + blocks[i]]
            i += 1 + blocks[i]
        if i != len(blocks) - 1:
            probs.append("gif blocks trailing")
        acc = nb = 0
        pos = 0
        width = 3
        table = None
        prev = None
        outn = 0
        done = False
        while not done:
            while nb < width:
                if pos >= len(raw):
                    probs.append("gif lzw underrun")
                    done = True
                    break
                acc |= raw[pos] << nb
                nb += 8
                pos += 1
            if done:
                break
            code = acc & ((1 << width) - 1)
            acc >>= width
            nb -= width
            if code == 4:
                table = {0: 1, 1: 1, 2: 1, 3: 1}
                nxt = 6
                width = 3
                prev = None
                continue
            if code == 5:
                break
            if code in table:
                ln = table[code]
            elif code == nxt and prev is not None:
                ln = table[prev] + 1
            else:
                probs.append("gif lzw bad code")
                break
            outn += ln
            if prev is not None and nxt < 4096:
                table[nxt] = table[prev] + 1
                nxt += 1
                if nxt == (1 << width) and width < 12:
                    width += 1
            prev = code
        if outn != npix:
            probs.append("gif lzw decoded %d pixels, want %d" % (outn, npix))
    return probs


if __name__ == "__main__":
    p = selftest()
    print("c14_images selftest:", "ok" if not p else p)
