"""C02 - main-text fidelity: nothing lost, duplicated, reordered, merged, leaked or invented.

Space I (input shapes). Every abstract document (ADM term, see verif.gen.adm) inside the tier bound is rendered by the
reference writers to every format that can express it, extracted by the real extractor and judged against the ground
truth that the term itself carries (adm.truth: ordered visible tokens + boundary class, hidden tokens, don't-care tokens).

A case is the ADM document itself (plain JSON); `fmt` names format (+ writer variant).  Enumerated per format, restricted
to the constructors the writer declares (CAPS):

  S-family   every document whose *size* (blocks + inlines + list items + table cells + extra units) is <= S, with
             <= NB blocks per block sequence (also items per list, rows per table, cells per row), <= W inlines per
             inline sequence, block nesting depth <= DB (list item / cell / text box contents), inline nesting <= DI
             (link / content control contents) and <= U units - over the writer's full alphabet; and the same with the
             larger size bound SC over the core alphabet (p h ul tbl pb / t tab br).
                                   quick: S=4 SC=6 NB=2 W=2 DB=1 DI=1 U=2     thorough: S=5 SC=7 NB=3 W=3 DB=2 DI=2 U=3
                                   (csv, json, odf, pdf: S and SC raised by S_BONUS - their writers express few constructors)
  C-family   "every constructor in every 1-block context": for every context (body paragraph, heading 1..3, list item,
             nested list item, table cell, nested table cell, cell in item, item in cell, text box, box in cell ...) x every
             inline constructor X (atoms, link, content control, text box): the paragraphs [X] [t X] [X t] [t X t]; and for
             every block context x every block constructor Y (paragraph, empty paragraph, heading, lists, 1x1..2x2 tables,
             empty cell, page break, image): the sequences [Y] [p Y] [Y p] [p Y p].  thorough: also all pairs / triples of
             inline constructors between two texts, pairs of block constructors, and the contexts one level deeper.
  E-family   every non-empty subset of the hidden extras the format can carry (speaker notes, slide / document comments,
             page header, page footer) on 1- and 2-unit documents.
  G-family   spreadsheets (xlsx, ods, xls, csv): every grid with <= R rows of 1..C cells, each cell empty or a string token,
             1 sheet; all pairs (thorough: also triples) of small sheets.           quick: R=C=2; thorough: R=C=3
  M-family   multiplicity: documents in which the SAME text occurs several times (every other family gives every text leaf
             its own token, so "same multiplicity" was only ever judged for multiplicity one).  Documents: every sequence of
             <= NBM leaf carriers (paragraph of 1..2 runs joined by nothing / tab / line break, heading, list of 1..3 one-paragraph
             items, list item of two paragraphs, 1x1 1x2 2x1 (3x1) table) with 2..LM text leaves in one unit, every split of <= 2
             single carriers (thorough: <= 2 carriers each) over two units, and every single table of <= TR x TC cells, each
             cell empty or text, with <= LT text leaves - each under EVERY assignment of texts to leaves in which at least one
             text occurs twice (all restricted-growth strings except the identity).  Spreadsheets: every grid of <= GR rows of
             1..GC cells, each cell empty or text, <= GL texts, under every such assignment.
                                   quick: NBM=3 LM=3 TR=TC=2 LT=4 (GR,GC,GL)=(3,2,6)
                                   thorough: NBM=3 LM=4 TR=3 TC=2 LT=5 (GR,GC,GL) in (3,2,6) (3,3,4) (4,2,4), two carriers per unit
             Rendered to every format, and additionally with the format's native run-length encoding of repetition
             (`ods+rle`, `odt+rle`, `odp+rle`, `odg+rle`: identical adjacent cells of a row become ONE cell carrying
             table:number-columns-repeated, identical adjacent rows ONE row carrying table:number-rows-repeated - the way
             office applications store them; for `ods+rle` also over all G-family grids, where runs of empty cells / rows
             compress).  xlsx / xls store one shared string per distinct text, so their M-family cells share SST entries.
             The oracle counts: a text that the source holds n times must occur exactly n times (fewer: lost, more: dup); when
             all counts agree the complete occurrence sequence must equal the source sequence (order) and every judged
             boundary between neighbouring occurrences must be white space (merged).
  V-family   spelling variants (verif.props.c02_variants): other legal spellings of the SAME document - the truth of a term does not
             change, only the markup / bytes the writer uses for one construct. Each variant is a format name of its own and runs
             over the whole C-family of its base format (restricted to the terms that hold the construct it respells):
               html+as:<c>, epub+as:<c>       containers of visible text that are neither <p> nor <td>: the paragraph element written as
                                              div blockquote pre address section article center figure>figcaption dl>dt dl>dd; the paragraph
                                              in front of a table as its <caption>; <th> cells; thead/tbody/tfoot row groups; <ol>; h4..h6
               html+as:split:<e>, epub+..     inline markup inside a word: every text = first half + <e>second half</e>,
                                              e in b i em strong span u font a sup sub small mark code
               html+as:bare:<m>[:<c>], epub+. anonymous text: a paragraph written as a bare text node of its parent (body, li, td ...) instead of
                                              an element of its own; m = tail (a paragraph that follows a sibling block: the text directly after
                                              its end tag), head (the first paragraph of a longer block sequence: the text in front of the first
                                              child element), all (every paragraph that does not directly follow another bare one, so also
                                              <li>text</li>, <td>text</td>); alone, and with the sibling elements spelled as container c
                                              (the tail of a captioned table, of a <th> table, of an <ol>, of a <pre>, of <h4> ...)
               mhtml+hdr:<cte>:<s>            header spellings of the root part that RFC 2045 / 5322 declare equivalent, cte in qp b64 x
                                              s in cte-title cte-upper cte-trail name-lower name-upper type-upper charset-bare
                                              charset-upper fold cte-first lf
               rtf+u:<f>:<scope>              every character of every text (scope all) / the second character of every text (scope
                                              second) written as a \\uN escape whose fallback is spelled f in: q (?), hex (\\'xx), letter,
                                              blank-q (delimiter blank, then ?), uc0 (no fallback), uc2 (two fallback bytes), group
               odg+nest, odp+nest             a text box anchored as a character inside a paragraph of a drawing page (box constructor)
                                   quick: 11 containers, 3 split elements, 3 bare modes + tail x 8 containers + all x caption + head x ol,
                                          6 header spellings x 2, 5 fallback spellings (scope all; hex also second)
                                   thorough: all 15 containers, 13 elements, 3 bare modes x (ordinary siblings + all 15 containers), 11 x 2 header spellings, 7 x 2 fallback spellings, and the
                                   thorough C-family
             A variant is judged where the base spelling of the same term passes (a clause that fails for the base format too is the
             base format's finding).
  N-family   comments attached to spreadsheet cells (`ods+note`: office:annotation, `xlsx+note`: comments part): every grid of <= R rows
             of 1..C cells, each cell empty / text / text with a comment / empty with a comment, at least one comment; the comment text
             is hidden text (clause leak), the cell texts are judged as always.       quick: R=C=2   thorough: R=3 C=2
             Comment bodies: a comment is not one paragraph but a block sequence of its own (ODF 1.2 part 1, 14.1: office:annotation
             holds (text:p | text:list)*; a spreadsheetml comment is a sequence of rich-text runs).  Every grid of <= CELLS cells in one
             row or one column (same four cell kinds, at least one comment) with one comment at a time carrying EVERY body that is not
             one plain paragraph: every arrangement of <= NP paragraphs in paragraphs and bulleted lists (<= K blocks per block sequence,
             <= NI items per list, lists nested <= D deep), and every body of ONE paragraph (bare / in a list / in a nested list) whose
             inlines are  t span(t) | span(t) | t br t | t tab t | span(t br t);  the other comments of the grid are one plain paragraph
             (thorough: also both comments of a two-comment grid carrying every pair of quick-tier bodies).  Every text leaf of a body is
             a token of its own, all hidden.  xlsx: paragraphs are runs separated by a line feed, a span is a run with properties of its
             own; bodies with lists are inexpressible.        quick: NP=2 D=2 K=2 NI=2 CELLS=2 (36 bodies)   thorough: NP=3 K=3 (166 bodies)
  H-family   hidden text with a body of its own in text documents (`odt+hbody`): every term of the quick C-family of odt that holds a
             comment anchor (office:annotation) or a tracked deletion (text:changed-region / text:deletion), with the hidden text of
             every anchor / deletion written as every comment body of the N-family (quick: 36 bodies, thorough: 166 bodies); judged like
             a spelling variant (where the plain odt spelling of the same term passes).
  R-family   read histories: EVERY evaluation of every family asks the same result objects for their text twice -
             get_full_text(); get_text() of every unit of iterate_units(); get_table() of every table of iterate_tables();
             get_full_text() again - and both full texts are judged by the same oracle (a clause that fails on the first is not
             repeated for the second).
Terms that a writer cannot express (NotImplementedError) are skipped and counted as `inexpressible`.

Oracle clauses (each is a fingerprint clause): lost, dup, order, merged, leak, invented  (see judge()).
"""
from __future__ import annotations

import io
import json
import random
import re
import zlib
from functools import lru_cache

from verif.gen import adm
from verif.gen.tokens import Tokens
from verif.mc import findings as F
from verif.mc import pool as P

LEVEL = "exploration"
MODULE = "verif.props.C02"

TOK = re.compile(r"[A-Z][bcdfghjklmnpqrstvwxz]{5}")
URL = "http://z.test/zq"
JUDGED_BOUNDARIES = {"tab", "br", "para", "cell", "row", "unit"}
ALL_CLAUSES = ("lost", "dup", "order", "merged", "leak", "invented")

SUPPORTED = {"unit", "multiunit", "p", "h", "ul", "ul-nested", "tbl", "tbl-nested", "pb", "img", "t", "tab", "br", "a", "ins", "del",
             "cref", "fn", "sdt", "box", "extra:notes", "extra:comments", "meta:header", "meta:footer"}


# ====================================================================================================== images

def _png():
    from verif.gen import ooxml
    return ooxml.PNG_1X1 if hasattr(ooxml, "PNG_1X1") else ooxml._png_1x1()


# ====================================================================================================== formats

def _text_of(results):
    return "\n".join(r.get_full_text() for r in results)


def _tables_of(results):
    cells = []
    for r in results:
        for t in r.iterate_tables():
            for row in t.get_table():
                for c in row:
                    cells.append("" if c is None else str(c))
    return cells


def _rd(modname, fn):
    import importlib
    return getattr(importlib.import_module("sharepoint2text.parsing.extractors." + modname), fn)


def _txt_body(doc):
    from verif.gen import plain
    return plain.txt(doc).decode("utf-8")


def _render(fmt, doc):
    """ADM -> bytes (raises NotImplementedError when the writer cannot express the term)."""
    base = fmt.split("+")[0]
    var = _variant(fmt)
    if var:
        return _render_variant(var, doc)
    if base in ("docx", "pptx", "xlsx"):
        from verif.gen import ooxml
        if base == "xlsx":
            return ooxml.xlsx(doc, opts={"inline_strings": True} if fmt == "xlsx+inline" else None)
        imgs = {"i1": (_png(), "png")}
        if fmt == "docx+bsdt":
            return ooxml.docx(doc, imgs, {"block_sdt": True})
        if fmt == "pptx+nooff":
            return ooxml.pptx(doc, imgs, {"no_offsets": True})
        if fmt in ("docx+pagebr", "docx+colbr"):
            return ooxml.docx(doc, imgs, {"br_type": "page" if fmt == "docx+pagebr" else "column"})
        return getattr(ooxml, base)(doc, imgs)
    if base in ("odt", "odp", "odg", "odf", "ods"):
        from verif.gen import odf
        if fmt.endswith("+rle"):
            doc2, opts = rle(doc)
            if base == "ods":
                return odf.ods(doc2, None, opts)
            return getattr(odf, base)(doc2, {"i1": (_png(), "png")}, opts)
        if base in ("ods", "odf"):
            return getattr(odf, base)(doc)
        return getattr(odf, base)(doc, {"i1": (_png(), "png")})
    if base in ("html", "mhtml", "epub"):
        from verif.gen import htmlfam
        if base == "epub":
            return htmlfam.epub([htmlfam.xhtml_page(htmlfam.html_body(doc, True, {"i1": "i1.png"}, unit=i), "t") for i in range(len(doc[2]))]
                                or [htmlfam.xhtml_page("", "t")], {"title": "t"})
        page = htmlfam.html_page(htmlfam.html_body(doc, False, {"i1": "i1.png"}))
        if base == "html":
            return page.encode("utf-8")
        return htmlfam.mhtml(page, {"mhtml": "quoted-printable", "mhtml+b64": "base64", "mhtml+7bit": "7bit"}[fmt])
    if base == "rtf":
        from verif.gen import rtf
        return rtf.rtf(doc, {"i1": (_png(), "png")})
    if base == "pdf":
        from verif.gen import pdfw
        return pdfw.pdf(doc)
    if base in ("txt", "md", "json", "csv"):
        from verif.gen import plain
        return {"txt": plain.txt, "md": plain.md, "json": plain.json_, "csv": plain.csv}[base](doc)
    if base in ("eml", "mbox"):
        from verif.gen import htmlfam, mail
        if fmt == "eml+html":
            if (doc[1] or {}):
                raise NotImplementedError("meta")
            return mail.eml({"structure": "html", "charset": "us-ascii", "cte": "7bit",
                             "body_html": htmlfam.html_page(htmlfam.html_body(doc)) + "\n"})
        if base == "eml":
            return mail.eml({"structure": "plain", "charset": "us-ascii", "cte": "7bit", "body_plain": _txt_body(doc)})
        specs = []
        for u in doc[2]:
            specs.append({"structure": "plain", "charset": "us-ascii", "cte": "7bit", "body_plain": _txt_body(["doc", doc[1], [u]])})
        return mail.mbox(specs)
    if base == "xls":
        from verif.gen import biff8
        return biff8.xls(doc)
    if base == "ppt":
        from verif.gen import pptbin
        return pptbin.ppt(doc, None, {"p_mode": "textbox"} if fmt == "ppt+textbox" else None)
    raise ValueError(fmt)


def _variant(fmt):
    """(base format, family, arguments) of a spelling-variant format name (V-family, see c02_variants), else None"""
    if "+" not in fmt:
        return None
    base, rest = fmt.split("+", 1)
    if rest.startswith("as:"):
        return base, "as", rest[3:]
    if rest.startswith("hdr:"):
        return base, "hdr", tuple(rest[4:].split(":"))
    if rest.startswith("u:"):
        return base, "u", tuple(rest[2:].split(":"))
    if rest in ("note", "nest", "hbody"):
        return base, rest, None
    return None


def _base_of(fmt):
    """the format whose writer spells the same document the ordinary way (None: the ordinary writer cannot express it)"""
    var = _variant(fmt)
    if not var or var[1] in ("note", "nest"):
        return None
    return var[0]


def _render_variant(var, doc):
    from verif.props import c02_variants as V
    base, fam, arg = var
    imgs = {"i1": (_png(), "png")}
    if fam == "as":
        from verif.gen import htmlfam
        if base == "epub":
            w = V.HtmlAs(arg, True, {"i1": "i1.png"})
            return htmlfam.epub([htmlfam.xhtml_page(w.body(doc, unit=i), "t") for i in range(len(doc[2]))]
                                or [htmlfam.xhtml_page("", "t")], {"title": "t"})
        if base != "html":
            raise ValueError(var)
        return htmlfam.html_page(V.HtmlAs(arg, False, {"i1": "i1.png"}).body(doc)).encode("utf-8")
    if fam == "hdr":
        from verif.gen import htmlfam
        page = htmlfam.html_page(htmlfam.html_body(doc, False, {"i1": "i1.png"}))
        return V.mhtml_spelled(page, arg[0], arg[1])
    if fam == "u":
        from verif.gen import rtf
        return V.rtf_respell(rtf.rtf(V.rtf_mark(doc, arg[1]), imgs), arg[0])
    if fam == "note":
        doc2, notes = V.split_cell_notes(doc)
        if base == "ods":
            from verif.gen import odf
            return V.ods_with_notes(odf.ods(doc2), notes)
        if base == "xlsx":
            from verif.gen import ooxml
            return V.xlsx_with_notes(ooxml.xlsx(doc2), notes)
        raise ValueError(var)
    if fam == "nest":
        return V.odf_draw_nested(base, doc, imgs)
    if fam == "hbody":
        return V.odt_hidden_bodies(doc, imgs)
    raise ValueError(var)


_READERS = {
    "docx": ("ms_modern.docx_extractor", "read_docx"), "pptx": ("ms_modern.pptx_extractor", "read_pptx"),
    "xlsx": ("ms_modern.xlsx_extractor", "read_xlsx"), "odt": ("open_office.odt_extractor", "read_odt"),
    "odp": ("open_office.odp_extractor", "read_odp"), "odg": ("open_office.odg_extractor", "read_odg"),
    "odf": ("open_office.odf_extractor", "read_odf"), "ods": ("open_office.ods_extractor", "read_ods"),
    "html": ("html_extractor", "read_html"), "mhtml": ("mhtml_extractor", "read_mhtml"), "epub": ("epub_extractor", "read_epub"),
    "rtf": ("ms_legacy.rtf_extractor", "read_rtf"), "pdf": ("pdf.pdf_extractor", "read_pdf"),
    "txt": ("plain_extractor", "read_plain_text"), "md": ("plain_extractor", "read_plain_text"),
    "json": ("plain_extractor", "read_plain_text"), "csv": ("plain_extractor", "read_plain_text"),
    "eml": ("mail.eml_email_extractor", "read_eml_format_mail"), "mbox": ("mail.mbox_email_extractor", "read_mbox_format_mail"),
    "xls": ("ms_legacy.xls_extractor", "read_xls"), "ppt": ("ms_legacy.ppt_extractor", "read_ppt"),
}


class ShortFileCharset(Exception):
    """a plain-text file shorter than 32 bytes was decoded with a guessed charset (documented as unreliable, not judged)"""


def _extract(fmt, data):
    """bytes -> (full text, table cell strings, full text asked for again). Read history of every evaluation (R-family):
    get_full_text(); every unit's get_text() through iterate_units(); every table through iterate_tables(); get_full_text() again -
    on the same result objects. The second full text is (exception, None) when asking again raises."""
    base = fmt.split("+")[0]
    mod, fn = _READERS[base]
    res = list(_rd(mod, fn)(io.BytesIO(data), "a." + base))
    text = _text_of(res)
    if base in ("txt", "md", "json", "csv") and len(data) < 32 and text.strip() != data.decode("utf-8").strip():
        # documented (read_plain_text docstring): "For very short files (< 32 bytes), detection may be unreliable"
        raise ShortFileCharset()
    tabs = _tables_of(res) if base in ("odp", "epub") else []
    for r in res:
        try:                      # what these calls return is the subject of C03 / C13; here they are only steps of the history
            for u in r.iterate_units():
                u.get_text()
            for t in r.iterate_tables():
                t.get_table()
        except Exception:  # noqa
            pass
    try:
        text2 = _text_of(res)
    except Exception as e:  # noqa - a data point
        text2 = (e, None)
    return text, tabs, text2


def _caps(fmt):
    base = fmt.split("+")[0]
    if base in ("docx", "pptx", "xlsx"):
        from verif.gen import ooxml
        c = {"docx": ooxml.CAPS_DOCX, "pptx": ooxml.CAPS_PPTX, "xlsx": ooxml.CAPS_XLSX}[base]
    elif base in ("odt", "odp", "odg", "odf", "ods"):
        from verif.gen import odf
        c = getattr(odf, "CAPS_" + base.upper())
    elif base in ("html", "mhtml"):
        from verif.gen import htmlfam
        c = htmlfam.CAPS_HTML
    elif base == "epub":
        from verif.gen import htmlfam
        c = htmlfam.CAPS_EPUB
    elif base == "rtf":
        from verif.gen import rtf
        c = rtf.CAPS_RTF
    elif base == "pdf":
        from verif.gen import pdfw
        c = set(pdfw.CAPS_PDF) - {"img"}          # the PDF writer embeds JPEG only; images are C14's subject
    elif base in ("txt", "md", "json", "csv"):
        from verif.gen import plain
        c = plain.CAPS_PLAIN[base]
    elif fmt == "eml+html":
        from verif.gen import htmlfam
        c = set(htmlfam.CAPS_HTML) - {"cref", "img"}
    elif base == "eml":
        from verif.gen import plain
        c = plain.CAPS_TXT
    elif base == "mbox":
        from verif.gen import plain
        c = plain.CAPS_TXT
    elif base == "xls":
        from verif.gen import biff8
        c = biff8.CAPS_XLS
    elif base == "ppt":
        from verif.gen import pptbin
        c = set(pptbin.CAPS_PPT) - {"img"}
    else:
        raise ValueError(fmt)
    c = frozenset(c) & (SUPPORTED | {"sheet"})
    if fmt.endswith("+nest"):
        c = c | {"box"}           # the variant's writer anchors text boxes inside the paragraphs of a drawing page
    return c


# clauses judged per format (documented-behaviour table, DESIGN section 1 / Appendix B)
def _clauses(fmt):
    base = fmt.split("+")[0]
    if base == "pdf":
        return ("lost", "dup", "order", "leak")
    if fmt == "eml+html":
        return ("lost", "dup", "order")        # get_full_text() is documented to be the raw body_html when there is no plain body
    return ALL_CLAUSES


SHEET_FORMATS = ("xlsx", "xlsx+inline", "ods", "ods+rle", "xls", "csv")
RLE_DOC_FORMATS = ("odt+rle", "odp+rle", "odg+rle")      # M-family only: tables with identical adjacent cells / rows, run-length encoded
ADM_FORMATS = ("docx", "docx+bsdt", "docx+pagebr", "docx+colbr", "pptx", "pptx+nooff", "odt", "odp", "odg", "odf", "html", "mhtml", "mhtml+b64", "epub", "rtf", "pdf", "txt", "md", "json",
               "csv", "eml", "eml+html", "mbox", "ppt", "ppt+textbox") + RLE_DOC_FORMATS
THOROUGH_ONLY = ("mhtml+b64", "xlsx+inline")
FORMATS = ADM_FORMATS + tuple(f for f in SHEET_FORMATS if f != "csv") + ("csv+sheet",)


def variant_formats(tier):
    """V-family: the spelling variants of the tier (names: <base>+as:<container> | <base>+as:split:<element> | mhtml+hdr:<cte>:<spelling> |
    rtf+u:<fallback spelling>:<all|second> | ods+note, xlsx+note (N-family) | odg+nest, odp+nest); see verif.props.c02_variants"""
    from verif.props import c02_variants as V
    q = tier == "quick"
    out = []
    for v in (V.HTML_BLOCK_QUICK if q else V.HTML_BLOCK):
        out += ["html+as:" + v, "epub+as:" + v]
    for v in (V.HTML_SPLIT_QUICK if q else V.HTML_SPLIT):
        out += ["html+as:split:" + v, "epub+as:split:" + v]
    for v in (V.HTML_BARE_QUICK if q else V.HTML_BARE):
        out += ["html+as:" + v, "epub+as:" + v]
    for cte in V.MIME_CTE:
        for v in (V.MIME_HDR_QUICK if q else V.MIME_HDR):
            out.append("mhtml+hdr:%s:%s" % (cte, v))
    for v in (V.RTF_U_QUICK if q else V.RTF_U):
        for scope in V.RTF_U_SCOPE:
            if q and scope == "second" and v != "hex":
                continue          # quick: the mixed scope (plain and escaped characters in one word) for one fallback spelling only
            out.append("rtf+u:%s:%s" % (v, scope))
    out += ["ods+note", "xlsx+note", "odg+nest", "odp+nest", "odt+hbody"]
    return tuple(out)


# variants that differ from their base format only on particular terms take the M-family of the base format's other variants for granted
NO_M_FAMILY_QUICK = ("docx+bsdt", "docx+pagebr", "docx+colbr", "pptx+nooff", "ppt+textbox")


# ====================================================================================================== enumeration

def _enumerator(caps, NB, W):
    """Budgeted enumeration of skeleton terms (tuples; token leaves carry no token yet).
    cost: every block, inline, list item and table cell costs 1."""
    atoms = [(a,) for a in ("t", "tab", "br", "ins", "del", "cref", "fn") if a in caps]

    @lru_cache(None)
    def inl(budget, di, db, inlink, inbox):
        out = []
        if budget < 1:
            return out
        for a in atoms:
            out.append((a, 1))
        if di > 0:
            if "a" in caps and not inlink:
                for s, c in inlseqs(budget - 1, W, di - 1, db, True, inbox):
                    if s:
                        out.append((("a", s), c + 1))
            if "sdt" in caps:
                for s, c in inlseqs(budget - 1, W, di - 1, db, inlink, inbox):
                    if s:
                        out.append((("sdt", s), c + 1))
        if "box" in caps and db > 0 and not inbox and not inlink:
            for s, c in blockseqs(budget - 1, NB, db - 1, False, False, True):
                if s:
                    out.append((("box", s), c + 1))
        return out

    @lru_cache(None)
    def inlseqs(budget, maxlen, di, db, inlink, inbox):
        out = [((), 0)]
        if maxlen == 0 or budget < 1:
            return out
        for x, c in inl(budget, di, db, inlink, inbox):
            for rest, rc in inlseqs(budget - c, maxlen - 1, di, db, inlink, inbox):
                out.append(((x,) + rest, c + rc))
        return out

    def seqs_of(elemfn, budget, maxlen):
        out = [((), 0)]
        if maxlen == 0 or budget < 1:
            return out
        for x, c in elemfn(budget):
            for rest, rc in seqs_of(elemfn, budget - c, maxlen - 1):
                out.append(((x,) + rest, c + rc))
        return out

    @lru_cache(None)
    def block(budget, di, db, initem, incell, inbox):
        out = []
        if budget < 1:
            return out
        for s, c in inlseqs(budget - 1, W, di, db, False, inbox):
            out.append((("p", s), c + 1))
        if "h" in caps:
            for s, c in inlseqs(budget - 1, W, di, db, False, inbox):
                out.append((("h", 1, s), c + 1))
        if "pb" in caps and not initem and not incell and not inbox:
            out.append((("pb",), 1))
        if db > 0:
            if "ul" in caps and (not initem or "ul-nested" in caps):
                def items(b):
                    return [(s, c + 1) for s, c in blockseqs(b - 1, NB, di, db - 1, True, incell, inbox) if s]
                for its, c in seqs_of(items, budget - 1, NB):
                    if its:
                        out.append((("ul", its), c + 1))
            if "tbl" in caps and (not incell or "tbl-nested" in caps):
                def cells(b):
                    return [(s, c + 1) for s, c in blockseqs(b - 1, NB, di, db - 1, initem, True, inbox)]

                def rows(b):
                    return [(r, c) for r, c in seqs_of(cells, b, NB) if r]
                for rws, c in seqs_of(rows, budget - 1, NB):
                    if rws:
                        out.append((("tbl", rws), c + 1))
        return out

    @lru_cache(None)
    def blockseqs(budget, maxlen, di, db, initem=False, incell=False, inbox=False):
        out = [((), 0)]
        if maxlen == 0 or budget < 1:
            return out
        for x, c in block(budget, di, db, initem, incell, inbox):
            for rest, rc in blockseqs(budget - c, maxlen - 1, di, db, initem, incell, inbox):
                out.append(((x,) + rest, c + rc))
        return out
    blockseqs.block = block
    return blockseqs


# S = size bound with the writer's full alphabet, SC = size bound with the core alphabet (CORE constructors only)
BOUNDS = {"quick": dict(S=4, SC=6, NB=2, W=2, DB=1, DI=1, U=2, R=2, C=2),
          "thorough": dict(S=5, SC=7, NB=3, W=3, DB=2, DI=2, U=3, R=3, C=3)}
# formats whose writers express only a small part of the alphabet get a larger size bound (more of the same family)
S_BONUS = {"csv": 2, "json": 3, "odf": 2, "pdf": 1}
CORE = {"unit", "multiunit", "p", "h", "ul", "ul-nested", "tbl", "tbl-nested", "t", "tab", "br", "pb"}


P_T = ("p", (("t",),))


def _s_iter(caps, b, S, k, n, min_cost):
    """documents of size min_cost..S over `caps`; the partition k of n is selected on the first block / first unit"""
    NB, W, DI, DB, U = b["NB"], b["W"], b["DI"], b["DB"], b["U"]
    bs = _enumerator(caps, NB, W)
    if k == 0 and min_cost <= 0:
        yield ((),)
    for j, (blk, c) in enumerate(bs.block(S, DI, DB, False, False, False)):
        if j % n != k:
            continue
        for rest, rc in bs(S - c, NB - 1, DI, DB):
            if c + rc >= min_cost:
                yield ((blk,) + rest,)
    if "multiunit" in caps and U > 1:
        def rec(prefix, used, left):
            for u, c in bs(S - used - 1, NB, DI, DB):
                cur = prefix + (u,)
                tot = used + 1 + c
                if tot >= min_cost:
                    yield cur
                if left > 1 and S - tot - 1 >= 0:
                    yield from rec(cur, tot, left - 1)
        for j, (u1, c1) in enumerate(bs(S - 1, NB, DI, DB)):
            if j % n != k:
                continue
            yield from rec((u1,), c1, U - 1)


def _s_family(fmt, tier, k=0, n=1):
    caps = _caps(fmt)
    b = BOUNDS[tier]
    bonus = S_BONUS.get(fmt, 0)
    yield from _s_iter(caps, b, b["S"] + bonus, k, n, 0)
    yield from _s_iter(caps & CORE, b, b["SC"] + bonus, k, n, b["S"] + bonus + 1)


def _inline_ctors(caps, tier):
    xs = [(a,) for a in ("t", "tab", "br", "ins", "del", "cref", "fn") if a in caps]
    if "a" in caps:
        xs.append(("a", (("t",),)))
    if "sdt" in caps:
        xs.append(("sdt", (("t",),)))
    if "box" in caps:
        xs.append(("box", (P_T,)))
    if tier == "thorough":
        if "a" in caps:
            xs.append(("a", (("t",), ("tab",), ("t",))))
            xs.append(("a", (("t",), ("br",), ("t",))))
            if "sdt" in caps:
                xs.append(("a", (("sdt", (("t",),)),)))
                xs.append(("sdt", (("a", (("t",),)),)))
        if "sdt" in caps:
            xs.append(("sdt", (("sdt", (("t",),)),)))
            xs.append(("sdt", (("t",), ("tab",), ("t",))))
        if "box" in caps:
            xs.append(("box", (P_T, P_T)))
    return xs


def _block_ctors(caps, ctx_flags):
    initem, incell, inbox = ctx_flags
    ys = [P_T, ("p", ())]
    if "h" in caps:
        ys.append(("h", 1, (("t",),)))
    if "ul" in caps and (not initem or "ul-nested" in caps):
        ys.append(("ul", ((P_T,),)))
        ys.append(("ul", ((P_T,), (P_T,))))
        ys.append(("ul", ((P_T, P_T),)))
    if "tbl" in caps and (not incell or "tbl-nested" in caps):
        ys.append(("tbl", (((P_T,),),)))
        ys.append(("tbl", (((P_T,), (P_T,)),)))
        ys.append(("tbl", (((P_T,),), ((P_T,),))))
        ys.append(("tbl", (((P_T,), (P_T,)), ((P_T,), (P_T,)))))
        ys.append(("tbl", (((),),)))
    if "pb" in caps and not (initem or incell or inbox):
        ys.append(("pb",))
    if "img" in caps:
        ys.append(("img",))
    return ys


def _contexts(caps, tier):
    """list of (name, wrap(blockseq) -> top-level blockseq, flags(initem, incell, inbox))"""
    ctx = [("body", lambda bs: bs, (False, False, False))]
    li = lambda bs: (("ul", (bs,)),)                    # noqa: E731
    cell = lambda bs: (("tbl", ((bs,),)),)              # noqa: E731
    box = lambda bs: (("p", (("box", bs),)),)           # noqa: E731
    if "ul" in caps:
        ctx.append(("li", li, (True, False, False)))
        if "ul-nested" in caps:
            ctx.append(("li2", lambda bs: li(li(bs)), (True, False, False)))
            ctx.append(("li-p-li", lambda bs: (("ul", ((P_T, ("ul", (bs,))),)),), (True, False, False)))
    if "tbl" in caps:
        ctx.append(("cell", cell, (False, True, False)))
        if "tbl-nested" in caps:
            ctx.append(("cell2", lambda bs: cell(cell(bs)), (False, True, False)))
    if "ul" in caps and "tbl" in caps:
        ctx.append(("li-in-cell", lambda bs: cell(li(bs)), (True, True, False)))
        ctx.append(("cell-in-li", lambda bs: li(cell(bs)), (True, True, False)))
    if "box" in caps:
        ctx.append(("box", box, (False, False, True)))
        if "tbl" in caps:
            ctx.append(("box-in-cell", lambda bs: cell(box(bs)), (False, True, True)))
            ctx.append(("cell-in-box", lambda bs: box(cell(bs)), (False, True, True)))
        if "ul" in caps:
            ctx.append(("li-in-box", lambda bs: box(li(bs)), (True, False, True)))
    if tier == "thorough":
        if "ul-nested" in caps:
            ctx.append(("li3", lambda bs: li(li(li(bs))), (True, False, False)))
        if "tbl-nested" in caps:
            ctx.append(("cell3", lambda bs: cell(cell(cell(bs))), (False, True, False)))
        if "tbl-nested" in caps and "ul" in caps:
            ctx.append(("cell-li-cell", lambda bs: cell(li(cell(bs))), (True, True, False)))
    return ctx


def _c_family(fmt, tier):
    caps = _caps(fmt)
    xs = _inline_ctors(caps, tier)
    T = ("t",)
    ctxs = _contexts(caps, tier)
    paras = []
    for x in xs:
        paras += [(x,), (T, x), (x, T), (T, x, T)]
    if tier == "thorough":
        base = [x for x in xs if x[0] != "box" or len(x[1]) == 1]
        for x in base:
            for y in base:
                paras += [(x, y), (T, x, y, T)]
        small = [x for x in _inline_ctors(caps, "quick") if x != T]
        for x in small:
            for y in small:
                for z in small:
                    paras.append((T, x, y, z, T))
    for name, wrap, flags in ctxs:
        for s in paras:
            if flags[2] and any(k[0] in ("box", "cref", "fn") for k in s):
                continue      # Word allows neither boxes nor comments nor footnotes inside a text box
            yield (wrap((("p", s),)),)
            if name == "body" and "h" in caps:
                for lvl in (1, 2, 3):
                    yield ((("h", lvl, s),),)
        for y in _block_ctors(caps, flags):
            for seq in ((y,), (P_T, y), (y, P_T), (P_T, y, P_T)):
                yield (wrap(seq),)
            if tier == "thorough":
                for y2 in _block_ctors(caps, flags):
                    yield (wrap((y, y2)),)
                    yield (wrap((P_T, y, y2, P_T)),)


def _e_family(fmt, tier):
    """documents with hidden extras: (units, meta, extras per unit)"""
    caps = _caps(fmt)
    kinds = [k for k in ("extra:notes", "extra:comments", "meta:header", "meta:footer") if k in caps]
    if not kinds:
        return
    bases = [((P_T,),), ((P_T, P_T),), ((),)]
    if "h" in caps:
        bases.append(((("h", 1, (("t",),)), P_T),))
    if "multiunit" in caps:
        bases += [((P_T,), (P_T,)), ((P_T,), ()), ((), (P_T,))]
    for base in bases:
        for mask in range(1, 1 << len(kinds)):
            chosen = [k for i, k in enumerate(kinds) if mask >> i & 1]
            unit_kinds = [k for k in chosen if k.startswith("extra:")]
            targets = range(len(base)) if unit_kinds else [0]
            for ui in targets:
                yield ("E", base, tuple(chosen), ui)
            if unit_kinds and len(base) > 1:
                yield ("E", base, tuple(chosen), -1)      # on every unit


def _g_family(tier):
    b = BOUNDS[tier]
    R, C = b["R"], b["C"]
    import itertools
    rows = []
    for n in range(1, C + 1):
        rows += list(itertools.product((0, 1), repeat=n))

    def grids(maxr, maxc):
        rs = [r for r in rows if len(r) <= maxc]
        for n in range(1, maxr + 1):
            yield from itertools.product(rs, repeat=n)
    for g in grids(R, C):
        yield (g,)
    yield ((),)                              # a sheet without cells
    if tier == "quick":
        small = list(grids(1, 2))
        for a in small:
            for c in small:
                yield (a, c)
    else:
        small = list(grids(2, 2))
        for a in small:
            for c in small:
                yield (a, c)
        tiny = list(grids(1, 2))
        for a in tiny:
            for c in tiny:
                for d in tiny:
                    yield (a, c, d)


# ---------------------------------------------------------------------------------------------- M-family (multiplicity)

# G = boxes (rows, cells per row, texts) of the spreadsheet grids: the union of the boxes is enumerated
M_BOUNDS = {"quick": dict(NBM=3, LM=3, UC=1, TR=2, TC=2, LT=4, G=((3, 2, 6),)),
            "thorough": dict(NBM=3, LM=4, UC=2, TR=3, TC=2, LT=5, G=((3, 2, 6), (3, 3, 4), (4, 2, 4)))}


def _rgs(n):
    """all restricted-growth strings of length n (= all partitions of n leaves into classes of equal text), identity last"""
    def rec(pre, m):
        if len(pre) == n:
            yield tuple(pre)
            return
        for v in range(1, m + 2):
            yield from rec(pre + [v], max(m, v))
    yield from rec([], 0)


def _m_carriers(caps, tier):
    """leaf carriers: (block skeleton, number of text leaves)"""
    T = ("t",)
    out = [(P_T, 1)]
    seps = [()] + [((x,),) for x in ("tab", "br") if x in caps]
    for sep in seps:
        out.append((("p", (T,) + sep + (T,)), 2))
    if "h" in caps:
        out.append((("h", 1, (T,)), 1))
    if "ul" in caps:
        for n in (1, 2, 3):
            out.append((("ul", ((P_T,),) * n), n))
        out.append((("ul", ((P_T, P_T),)), 2))
    if "tbl" in caps:
        shapes = [(1, 1), (1, 2), (2, 1)] + ([(3, 1)] if tier == "thorough" else [])
        for r, c in shapes:
            out.append((("tbl", (((P_T,),) * c,) * r), r * c))
    return out


def _m_units(caps, tier):
    """unit skeletons (tuple of unit block sequences) with their leaf counts, before texts are assigned"""
    mb = M_BOUNDS[tier]
    car = _m_carriers(caps, tier)

    def seqs(maxn, maxleaves):
        out = [((), 0)]
        if maxn == 0:
            return out
        for blk, n in car:
            if n <= maxleaves:
                for rest, rn in seqs(maxn - 1, maxleaves - n):
                    out.append(((blk,) + rest, n + rn))
        return out
    for sq, n in seqs(mb["NBM"], mb["LM"]):
        if n >= 2:
            yield (sq,), n
    if "multiunit" in caps:
        per_unit = [x for x in seqs(mb["UC"], mb["LM"] - 1) if x[1] >= 1]
        for a, na in per_unit:
            for b, nb in per_unit:
                if na + nb <= mb["LM"]:
                    yield (a, b), na + nb
    if "tbl" in caps:
        import itertools
        for r in range(1, mb["TR"] + 1):
            for c in range(1, mb["TC"] + 1):
                for fill in itertools.product((0, 1), repeat=r * c):
                    n = sum(fill)
                    if 2 <= n <= mb["LT"]:
                        rows = tuple(tuple((P_T,) if fill[i * c + j] else () for j in range(c)) for i in range(r))
                        yield ((("tbl", rows),),), n


def _m_family(fmt, tier):
    """(unit skeletons, text assignment) - every assignment in which at least one text occurs twice"""
    caps = _caps(fmt)
    seen = set()
    for units, n in _m_units(caps, tier):
        if units in seen:
            continue
        seen.add(units)
        for g in _rgs(n):
            if max(g) < n:
                yield ("M", units, g)


def _m_grids(tier, identity_too=False):
    """spreadsheet grids whose cells are 0 (empty) or the number of a text; at least one text occurs twice"""
    import itertools
    boxes = M_BOUNDS[tier]["G"]
    for nrows in range(1, max(b[0] for b in boxes) + 1):
        for shape in itertools.product(range(1, max(b[1] for b in boxes) + 1), repeat=nrows):
            ncell = sum(shape)
            for fill in itertools.product((0, 1), repeat=ncell):
                k = sum(fill)
                if k < 1 or not any(nrows <= b[0] and max(shape) <= b[1] and k <= b[2] for b in boxes):
                    continue
                for g in _rgs(k):
                    if max(g) == k and not identity_too:
                        continue
                    it = iter(g)
                    flat = [next(it) if f else 0 for f in fill]
                    rows, at = [], 0
                    for w in shape:
                        rows.append(tuple(flat[at:at + w]))
                        at += w
                    yield ("MG", tuple(rows))


N_BOUNDS = {"quick": (2, 2), "thorough": (3, 2)}


def _n_grids(tier):
    """N-family: every grid of <= R rows of 1..C cells, each cell empty (0), text (1), text with a comment (2) or empty with a comment
    (3), holding at least one comment"""
    import itertools
    R, C = N_BOUNDS[tier]
    rows = []
    for w in range(1, C + 1):
        rows += list(itertools.product((0, 1, 2, 3), repeat=w))
    for nr in range(1, R + 1):
        for g in itertools.product(rows, repeat=nr):
            if any(v >= 2 for row in g for v in row):
                yield ("NG", g)


def _h_family(fmt, tier):
    """H-family: every term of the QUICK C-family of the base format that holds a comment anchor / a tracked deletion, with the hidden
    text of every such anchor / deletion written as every body of _n_bodies(tier) (the same body for all of them)"""
    base = fmt.split("+")[0]
    seen = set()

    def has(x):
        return isinstance(x, tuple) and (x in (("cref",), ("del",)) or any(has(y) for y in x))

    def put(x, body):
        if x in (("cref",), ("del",)):
            return (x[0], body)
        if isinstance(x, tuple):
            return tuple(put(y, body) for y in x)
        return x
    terms = []
    for sk in _c_family(base, "quick"):
        if sk not in seen:
            seen.add(sk)
            if has(sk):
                terms.append(sk)
    for body in _n_bodies(tier):
        for sk in terms:
            yield put(sk, body)


# N-family, comment bodies: NP paragraphs at most, lists nested D deep at most, K blocks per block sequence, NI items per list at most;
# CELLS: the grids that carry them; PAIRS: also both comments of a two-comment grid carry a body, every pair of bodies of the quick tier
NB_BOUNDS = {"quick": dict(NP=2, D=2, K=2, NI=2, CELLS=2, PAIRS=False), "thorough": dict(NP=3, D=2, K=3, NI=2, CELLS=2, PAIRS=True)}
NB_PLAIN = (("p", (("t",),)),)
# the inline shapes of a comment paragraph other than one plain text
NB_INLINE = ((("t",), ("span", (("t",),))), (("span", (("t",),)),), (("t",), ("br",), ("t",)), (("t",), ("tab",), ("t",)),
             (("span", (("t",), ("br",), ("t",))),))


def _n_bodies(tier):
    """every comment body (block sequence) that is not one plain paragraph: <= NP paragraphs arranged in paragraphs and bulleted lists
    (<= K blocks per sequence, <= NI items per list, lists nested <= D deep), every paragraph one plain text; and every body of ONE
    paragraph (bare, in a list, in a nested list) with every inline shape of NB_INLINE"""
    b = NB_BOUNDS[tier]
    K, NI = b["K"], b["NI"]

    @lru_cache(None)
    def seqs(n, d, maxlen):
        """block sequences of exactly n paragraphs, <= maxlen blocks"""
        if n == 0:
            return ((),)
        if maxlen == 0:
            return ()
        out = []
        for k in range(1, n + 1):
            for first in blocks(k, d):
                for rest in seqs(n - k, d, maxlen - 1):
                    out.append((first,) + rest)
        return tuple(out)

    @lru_cache(None)
    def blocks(n, d):
        out = []
        if n == 1:
            out.append(("p", (("t",),)))
        if d > 0:
            for items in itemlists(n, d - 1, NI):
                out.append(("ul", items))
        return tuple(out)

    @lru_cache(None)
    def itemlists(n, d, maxitems):
        """tuples of 1..maxitems non-empty items (block sequences) holding exactly n paragraphs"""
        if n == 0:
            return ((),)
        if maxitems == 0:
            return ()
        out = []
        for k in range(1, n + 1):
            for first in seqs(k, d, K):
                for rest in itemlists(n - k, d, maxitems - 1):
                    out.append((first,) + rest)
        return tuple(out)

    out = []
    for n in range(1, b["NP"] + 1):
        for body in seqs(n, b["D"], K):
            if body != NB_PLAIN:
                out.append(body)

    def with_inl(x, inl):
        if x == ("p", (("t",),)):
            return ("p", inl)
        if isinstance(x, tuple):
            return tuple(with_inl(y, inl) for y in x)
        return x
    for body in seqs(1, b["D"], K):
        for inl in NB_INLINE:
            out.append(with_inl(body, inl))
    return out


def _nb_grids(tier):
    """N-family, comment bodies: every grid of <= CELLS cells in one row or one column, each cell empty (0), text (1), text with a comment
    (2) or empty with a comment (3), at least one comment - one comment at a time carrying every body of _n_bodies, the other comments one
    plain paragraph (thorough: also both comments of a grid carrying every pair of bodies of the quick tier).  Skeleton: ("NB", grid, bodies) - bodies[i] belongs to the i-th
    comment in row-major order (None: a plain paragraph)."""
    import itertools
    b = NB_BOUNDS[tier]
    bodies = _n_bodies(tier)
    for ncell in range(1, b["CELLS"] + 1):
        for kinds in itertools.product((0, 1, 2, 3), repeat=ncell):
            nc = sum(1 for v in kinds if v >= 2)
            if not nc:
                continue
            layouts = [(tuple(kinds),)] + ([tuple((v,) for v in kinds)] if ncell > 1 else [])
            assigns = [tuple(body if j == i else None for j in range(nc)) for i in range(nc) for body in bodies]
            if b["PAIRS"] and nc > 1:
                assigns += list(itertools.product(_n_bodies("quick"), repeat=nc))
            for g in layouts:
                for a in assigns:
                    yield ("NB", g, a)


# ---------------------------------------------------------------------------------------------- run-length encoding (ODF)

def _rle_rows(rows, t, cell_rep, row_rep):
    """rows of JSON cells -> rows in which a run of identical adjacent cells is one cell and a run of identical adjacent rows one row;
    the run lengths go to cell_rep ([t, row, cell, n]) / row_rep ([t, row, n]) in the form the ODF writer takes"""
    enc = []
    for row in rows:
        cells, reps = [], []
        for c in row:
            if cells and cells[-1] == c:
                reps[-1] += 1
            else:
                cells.append(c)
                reps.append(1)
        enc.append((cells, reps))
    out, rr = [], []
    for e in enc:
        if out and out[-1] == e:
            rr[-1] += 1
        else:
            out.append(e)
            rr.append(1)
    for r, ((cells, reps), n) in enumerate(zip(out, rr)):
        if n > 1:
            row_rep.append([t, r, n])
        for ci, k in enumerate(reps):
            if k > 1:
                cell_rep.append([t, r, ci, k])
    return [cells for cells, _ in out]


def rle(doc):
    """-> (document with run-length encoded tables / sheets, writer opts naming the repeat counts). Tables are numbered in document
    order, outermost first, over the ENCODED document (the order in which the writer meets them)."""
    cell_rep, row_rep = [], []
    units = doc[2]
    if units and units[0][0] == "sheet":
        new = [["sheet", sh[1], _rle_rows(sh[2], si, cell_rep, row_rep)] for si, sh in enumerate(units)]
        return ["doc", doc[1], new], {"cell_repeat": cell_rep, "row_repeat": row_rep}
    counter = [0]

    def inl(xs):
        out = []
        for x in xs:
            if x[0] == "box":
                out.append(["box", blocks(x[1])])
            elif x[0] == "a":
                out.append(["a", x[1], inl(x[2])])
            elif x[0] == "sdt":
                out.append(["sdt", inl(x[1])])
            else:
                out.append(x)
        return out

    def blocks(bs):
        out = []
        for b in bs:
            k = b[0]
            if k == "tbl":
                t = counter[0]
                counter[0] += 1
                rows = _rle_rows(b[1], t, cell_rep, row_rep)
                out.append(["tbl", [[blocks(c) for c in row] for row in rows]])
            elif k == "ul":
                out.append(["ul", [blocks(it) for it in b[1]]])
            elif k in ("p", "h"):
                out.append(list(b[:-1]) + [inl(b[-1])])
            else:
                out.append(b)
        return out
    new = [["unit", blocks(u[1])] + list(u[2:]) for u in units]
    return ["doc", doc[1], new], {"cell_repeat": cell_rep, "row_repeat": row_rep}


def _rle_changes(doc):
    o = rle(doc)[1]
    return bool(o["cell_repeat"] or o["row_repeat"])


# ---------------------------------------------------------------------------------------------- skeleton -> ADM with tokens

def _build_blocks(bs, tk, cls):
    out = []
    for b in bs:
        k = b[0]
        if k == "p":
            out.append(["p", _build_inl(b[1], tk, cls)])
        elif k == "h":
            out.append(["h", b[1], _build_inl(b[2], tk, "H" if cls == "B" else cls)])
        elif k == "ul":
            out.append(["ul", [_build_blocks(it, tk, "L" if cls in "BL" else cls) for it in b[1]]])
        elif k == "tbl":
            out.append(["tbl", [[_build_blocks(c, tk, "C") for c in row] for row in b[1]]])
        elif k == "pb":
            out.append(["pb"])
        elif k == "img":
            out.append(["img", "i1"])
        else:
            raise ValueError(k)
    return out


def _build_inl(xs, tk, cls):
    out = []
    for x in xs:
        k = x[0]
        if k == "t":
            out.append(["t", tk.new(cls)])
        elif k in ("tab", "br"):
            out.append([k])
        elif k == "ins":
            out.append(["ins", tk.new("I")])
        elif k in ("del", "cref") and len(x) > 1:
            # hidden text with a body of its own (H-family): [kind, first text leaf of the body, body]
            body = _build_note_body(x[1], tk, "D" if k == "del" else "M")
            out.append([k, _note_tokens(body)[0], body])
        elif k == "del":
            out.append(["del", tk.new("D")])
        elif k == "cref":
            out.append(["cref", tk.new("M")])
        elif k == "fn":
            out.append(["fn", tk.new("Z")])
        elif k == "a":
            out.append(["a", URL, _build_inl(x[1], tk, "K")])
        elif k == "sdt":
            out.append(["sdt", _build_inl(x[1], tk, "S")])
        elif k == "box":
            out.append(["box", _build_blocks(x[1], tk, "S")])
        else:
            raise ValueError(k)
    return out


def build_doc(skel, seed):
    """skeleton (tuple of unit block sequences | ("E", ...) | sheet grids) -> ADM document with fresh tokens"""
    if skel and skel[0] == "M":
        return _alias(build_doc(skel[1], seed), skel[2])
    tk = Tokens(seed)
    if skel and skel[0] == "E":
        _, base, chosen, ui = skel
        meta = {}
        units = []
        for i, bs in enumerate(base):
            blocks = _build_blocks(bs, tk, "B")
            ex = {}
            if ui == -1 or ui == i:
                if "extra:notes" in chosen:
                    ex["notes"] = [tk.new("P")]
                if "extra:comments" in chosen:
                    ex["comments"] = [tk.new("M")]
            units.append(["unit", blocks, ex])
        if "meta:header" in chosen:
            meta["header"] = tk.new("R")
        if "meta:footer" in chosen:
            meta["footer"] = tk.new("R")
        return ["doc", meta, units]
    return ["doc", {}, [["unit", _build_blocks(bs, tk, "B"), {}] for bs in skel]]


def _alias(doc, g):
    """give the i-th text leaf (document order) the token of the first leaf of its class g[i]"""
    rep = {}
    it = iter(g)

    def go(x):
        if isinstance(x, list):
            if len(x) == 2 and x[0] == "t" and isinstance(x[1], str):
                return ["t", rep.setdefault(next(it), x[1])]
            return [go(y) for y in x]
        return x
    out = go(doc)
    if next(it, None) is not None:
        raise AssertionError("text assignment longer than the number of text leaves")
    return out


def build_sheets_m(rows, seed):
    tk = Tokens(seed)
    name = tk.new("N")
    toks = {}
    grid = []
    for row in rows:
        grid.append([(["s", toks.get(v) or toks.setdefault(v, tk.new("C"))] if v else None) for v in row])
    return ["doc", {}, [["sheet", name, grid]]]


def _build_note_body(body, tk, cls="M"):
    """comment body skeleton -> JSON body (see verif.props.c02_variants.note_tokens), every text leaf a fresh token of class M"""
    def inl(xs):
        return [["t", tk.new(cls)] if x[0] == "t" else (["span", inl(x[1])] if x[0] == "span" else [x[0]]) for x in xs]

    def blocks(bs):
        return [["p", inl(b[1])] if b[0] == "p" else ["ul", [blocks(it) for it in b[1]]] for b in bs]
    return blocks(body)


def build_sheets(skel, seed):
    if skel and skel[0] == "MG":
        return build_sheets_m(skel[1], seed)
    if skel and skel[0] in ("NG", "NB"):
        tk = Tokens(seed)
        name = tk.new("N")
        bodies = list(skel[2]) if skel[0] == "NB" else None

        def note():
            body = bodies.pop(0) if bodies else None
            return tk.new("M") if body is None else _build_note_body(body, tk)
        mk = {0: lambda: None, 1: lambda: ["s", tk.new("C")], 2: lambda: ["s", tk.new("C"), {"note": note()}],
              3: lambda: ["n", note()]}
        return ["doc", {}, [["sheet", name, [[mk[v]() for v in row] for row in skel[1]]]]]
    tk = Tokens(seed)
    sheets = []
    for g in skel:
        name = tk.new("N")
        sheets.append(["sheet", name, [[(["s", tk.new("C")] if v else None) for v in row] for row in g]])
    return ["doc", {}, sheets]


def _has_block_sdt(doc):
    return any(b[0] == "p" and len(b[1]) == 1 and b[1][0][0] == "sdt" for u in doc[2] for b in u[1])


def _has_inline(x, kind):
    if isinstance(x, list):
        return (len(x) == 1 and x[0] == kind) or any(_has_inline(y, kind) for y in x)
    return False


def skeletons(fmt, tier, k=0, n=1):
    """The skeletons of partition k of n of the format's space, without duplicates. ('adm'|'sheet', skeleton)"""
    var = _variant(fmt)
    if var and var[1] == "note":
        import itertools
        for i, g in enumerate(itertools.chain(_n_grids(tier), _nb_grids(tier))):
            if i % n == k:
                yield ("sheet", g)
        return
    if var and var[1] == "hbody":
        i = 0
        for sk in _h_family(fmt, tier):
            if i % n == k:
                yield ("adm", sk)
            i += 1
        return
    if var:
        # V-family: the spelling variant over the C-family of its base format (every constructor in every 1-block context)
        cset, i = set(), 0
        for sk in _c_family(fmt, tier):
            if sk not in cset:
                cset.add(sk)
                if i % n == k:
                    yield ("adm", sk)
                i += 1
        return
    if fmt in ("xlsx", "xlsx+inline", "ods", "ods+rle", "xls", "csv+sheet"):
        seen = set()
        i = 0
        for g in _g_family(tier):
            if fmt == "csv+sheet" and len(g) != 1:
                continue
            if g not in seen:
                seen.add(g)
                if i % n == k:
                    yield ("sheet", g)
                i += 1
        for g in _m_grids(tier, identity_too=(fmt == "ods+rle")):
            if i % n == k:
                yield ("sheet", g)
            i += 1
        return
    i = 0
    if fmt in RLE_DOC_FORMATS:
        caps = _caps(fmt)
        useen = set()
        for units, nl in _m_units(caps, tier):
            if units in useen:
                continue
            useen.add(units)
            for g in _rgs(nl):
                if i % n == k:
                    yield ("adm", ("M", units, g))
                i += 1
        return
    cset = set()
    for sk in _c_family(fmt, tier):
        if sk not in cset:
            cset.add(sk)
            if i % n == k:
                yield ("adm", sk)
            i += 1
    for sk in _e_family(fmt, tier):
        if i % n == k:
            yield ("adm", sk)
        i += 1
    if not (tier == "quick" and fmt in NO_M_FAMILY_QUICK):
        for sk in _m_family(fmt, tier):
            if i % n == k:
                yield ("adm", sk)
            i += 1
    for sk in _s_family(fmt, tier, k, n):
        if sk not in cset:
            yield ("adm", sk)


def _has_ctor(x, kind):
    if isinstance(x, list):
        return (bool(x) and x[0] == kind) or any(_has_ctor(y, kind) for y in x)
    return False


def cases_for(fmt, tier, seed, k=0, n=1):
    var = _variant(fmt)
    for kind, sk in skeletons(fmt, tier, k, n):
        doc = build_sheets(sk, seed) if kind == "sheet" else build_doc(sk, seed)
        if fmt.endswith("+rle") and not _rle_changes(doc):
            continue          # the variant differs from its base format only where a table / sheet has identical adjacent cells or rows
        if fmt == "docx+bsdt" and not _has_block_sdt(doc):
            continue          # the variant differs from docx only where a top-level paragraph is one content control
        if fmt in ("docx+pagebr", "docx+colbr") and not _has_inline(doc, "br"):
            continue          # the variant differs from docx only where a run holds a break (w:br w:type="page" / "column")
        if fmt == "pptx+nooff" and not all(len(u[1]) >= 2 and all(b[0] == "p" for b in u[1]) for u in doc[2]):
            continue          # shapes without a position: only text boxes share one default sort key, so source order must survive
        if fmt == "ppt+textbox" and not any(b[0] == "p" for u in doc[2] for b in u[1]):
            continue          # the variant differs from ppt only where there is a paragraph
        if var and var[1] == "as":
            from verif.props import c02_variants as V
            if not V.html_variant_applies(var[2], doc):
                continue      # a spelling variant is run on the terms that hold the construct it spells differently
        if var and var[1] == "u" and not any(_has_ctor(doc[2], c) for c in ("t", "ins", "del")):
            continue
        if var and var[1] == "nest" and not _has_ctor(doc[2], "box"):
            continue
        yield doc


# ====================================================================================================== ground truth

def _note_tokens(note):
    from verif.props import c02_variants as V
    return V.note_tokens(note)


def sheet_truth(doc, fmt):
    """string cells are the visible text (row-major); first token of a sheet: unit boundary, first of a later row: row, else cell.
    Sheet names are documented decoration (class N): neither required nor forbidden."""
    vis, dc, hid = [], [], []
    for sh in doc[2]:
        dc.append(sh[1])
        first_in_sheet = True
        for row in sh[2]:
            first_in_row = True
            for cell in row:
                if cell is not None and cell[0] == "n":
                    hid.extend(_note_tokens(cell[1]))    # an empty cell that carries a comment
                    continue
                if cell is not None and len(cell) > 2 and (cell[2] or {}).get("note"):
                    hid.extend(_note_tokens(cell[2]["note"]))   # a cell comment (every text leaf of its body) is a comment: documented as excluded from the full text
                if cell is not None and cell[0] == "s":
                    vis.append((cell[1], "unit" if first_in_sheet else ("row" if first_in_row else "cell")))
                    first_in_sheet = False
                    first_in_row = False
    return {"visible": vis, "hidden": hid, "dontcare": dc, "tabletoks": set()}


def _visible(doc):
    """Ordered visible tokens with the boundary class to their predecessor - adm.truth's rules with one refinement: an
    anchored text box does not break the paragraph it is anchored in (text before and after the box is one run of text;
    only text inside the box is a paragraph of its own)."""
    rank = adm.BOUNDARY_RANK
    vis = []
    st = {"b": "unit"}

    def bump(b):
        if rank[b] > rank[st["b"]]:
            st["b"] = b

    def emit(tok):
        if tok[0] in adm.VISIBLE_CLASSES:
            vis.append((tok, st["b"]))
            st["b"] = "none"

    def inl(xs):
        for x in xs:
            k = x[0]
            if k in ("t", "ins"):
                emit(x[1])
            elif k in ("tab", "br"):
                bump(k)
            elif k == "a":
                inl(x[2])
            elif k == "sdt":
                inl(x[1])
            elif k == "box":
                outer, n0 = st["b"], len(vis)
                bump("para")
                blocks(x[1])
                if len(vis) == n0:
                    st["b"] = outer          # nothing visible inside: the surrounding run of text continues
                else:
                    bump("para")

    def blocks(bs):
        for b in bs:
            k = b[0]
            if k in ("p", "h"):
                bump("para")
                inl(b[-1])
                bump("para")
            elif k == "ul":
                for it in b[1]:
                    bump("para")
                    blocks(it)
                    bump("para")
            elif k == "tbl":
                for row in b[1]:
                    bump("row")
                    for cell in row:
                        bump("cell")
                        blocks(cell)
                        bump("cell")
                    bump("row")
            else:
                bump("para")
    for u in doc[2]:
        bump("unit")
        blocks(u[1])
        bump("unit")
    return vis


def truth_for(fmt, doc):
    base = fmt.split("+")[0]
    if doc[2] and doc[2][0][0] == "sheet":
        return sheet_truth(doc, fmt)
    tr = adm.truth(doc)
    vis = _visible(doc)
    if [t for t, _ in vis] != [t for t, _ in tr["visible"]]:
        raise AssertionError("C02 truth walker disagrees with adm.truth on the visible token sequence")
    tabletoks = set()
    if base in ("odp", "epub"):
        # documented: the tables of odp / epub are not part of the text, they are in iterate_tables()
        for grid in tr["tables"]:
            for row in grid:
                for cell in row:
                    tabletoks.update(cell)
    if base == "ppt" and len(set(t for t, _ in vis)) != len(vis):
        # the same rule as below, by position instead of by token (a text may occur several times)
        out = []
        for u in doc[2]:
            hi = next((i for i, b in enumerate(u[1]) if b[0] == "h"), None)
            if hi is None or not _visible(["doc", {}, [["unit", [u[1][hi]], {}]]]):
                out += _visible(["doc", {}, [["unit", u[1], {}]]])
                continue
            tv = _visible(["doc", {}, [["unit", [u[1][hi]], {}]]])
            rest = _visible(["doc", {}, [["unit", u[1][:hi] + u[1][hi + 1:], {}]]])
            if rest:
                rest[0] = (rest[0][0], "para")
            out += tv + rest
        vis = out
    elif base == "ppt":
        # documented: per slide title + body + other. The writer makes the first heading of a slide its title placeholder.
        out = []
        for ui, u in enumerate(doc[2]):
            toks = set(tr["units"][ui])
            uvis = [v for v in vis if v[0] in toks]
            title = None
            for b in u[1]:
                if b[0] == "h":
                    title = set(x[1] for x in b[2] if x[0] == "t")
                    break
            if title:
                tv = [v for v in uvis if v[0] in title]
                rest = [v for v in uvis if v[0] not in title]
                # boundaries after the move: the title is its own paragraph
                if tv:
                    tv[0] = (tv[0][0], "unit")
                if rest:
                    rest[0] = (rest[0][0], "para")
                uvis = tv + rest
            out += uvis
        vis = out
    hidden = list(tr["hidden"])
    for t in _hidden_body_tokens(doc[2]):
        if t not in hidden:
            hidden.append(t)
    return {"visible": vis, "hidden": hidden, "dontcare": list(tr["dontcare"]), "tabletoks": tabletoks,
            "tablecount": _table_token_counts(doc) if tabletoks else {}}


def _hidden_body_tokens(x):
    """text leaves of the bodies of [cref|del, first leaf, body] inlines (H-family)"""
    out = []
    if isinstance(x, list):
        if len(x) == 3 and x[0] in ("cref", "del") and isinstance(x[2], list):
            return _note_tokens(x[2])
        for y in x:
            out += _hidden_body_tokens(y)
    return out


def _table_token_counts(doc):
    """token -> number of its occurrences inside tables (each occurrence counted once, however deep)"""
    cnt = {}

    def inl(xs, intab):
        for x in xs:
            if x[0] in ("t", "ins"):
                if intab:
                    cnt[x[1]] = cnt.get(x[1], 0) + 1
            elif x[0] == "a":
                inl(x[2], intab)
            elif x[0] == "sdt":
                inl(x[1], intab)
            elif x[0] == "box":
                blocks(x[1], intab)

    def blocks(bs, intab):
        for b in bs:
            if b[0] in ("p", "h"):
                inl(b[-1], intab)
            elif b[0] == "ul":
                for it in b[1]:
                    blocks(it, intab)
            elif b[0] == "tbl":
                for row in b[1]:
                    for cell in row:
                        blocks(cell, True)
    for u in doc[2]:
        if u[0] == "unit":
            blocks(u[1], False)
    return cnt


# ====================================================================================================== oracle

_WS = re.compile(r"\s")
PPT_MASTER_LINES = ("Click to edit Master title style", "Click to edit Master text styles", "Second level", "Third level", "Fourth level",
                    "Fifth level")


def judge(fmt, doc, text, tabs, tr=None):
    """The six clauses of C02 on one extraction -> (list of (clause, message), outcome class).
    lost      a visible token occurs neither in get_full_text() (nor, for odp / epub table tokens, in an iterate_tables() cell)
    dup       a visible token occurs more than once in the text (odp / epub table tokens: more than once in text or in cells)
    order     first occurrences of the visible tokens are not in source order (ppt: documented title-first order)
    merged    two neighbours with a tab / line-break / paragraph / cell / row / unit boundary in the source, each present exactly
              once and in order, have no white-space character between them (csv: the field delimiter counts, raw content)
    leak      a hidden token (deleted text, comment, speaker note, header / footer) occurs in the text
    invented  text minus all source tokens (visible, hidden, don't care), minus link targets, minus note citation digits
              (documents with footnotes), minus the ppt master prompts still contains a letter or digit
    A text that the source holds n times (M-family) must occur exactly n times: fewer is `lost`, more is `dup`; when all counts agree
    the whole occurrence sequence is compared with the source sequence (`order`) and every judged boundary between neighbouring
    occurrences must contain white space (`merged`)."""
    tr = tr or truth_for(fmt, doc)
    clauses = _clauses(fmt)
    base = fmt.split("+")[0]
    fails = []
    occ = {}
    for m in TOK.finditer(text):
        occ.setdefault(m.group(0), []).append((m.start(), m.end()))
    tabocc = {}
    for i, c in enumerate(tabs):
        for m in TOK.finditer(c):
            tabocc.setdefault(m.group(0), []).append(i)
    vis = tr["visible"]
    tt = tr["tabletoks"]
    exp = {}
    for tok, _ in vis:
        exp[tok] = exp.get(tok, 0) + 1
    multi = len(exp) != len(vis)              # some text occurs several times in the source (M-family)
    tcount = tr.get("tablecount") or {}
    lost, dup = [], []
    for tok in exp:                           # insertion order = order of first occurrence in the source
        e = exp[tok]
        if tok in tt:
            n_text, n_tab = len(occ.get(tok, [])), len(tabocc.get(tok, []))
            e_tab = tcount.get(tok, e) if multi else e
            e_txt = e - e_tab                 # occurrences outside tables must be in the text; those inside tables in the text or in the cells
            if n_text < e_txt or (n_tab < e_tab and n_text < e):
                lost.append(tok)
            elif n_text > e or n_tab > e_tab:
                dup.append(tok)
        else:
            n = len(occ.get(tok, []))
            if n < e:
                lost.append(tok)
            elif n > e:
                dup.append(tok)
    abst = _abstractor(doc)

    def times(toks):
        return [(abst(t), "source x%d" % exp[t], "text x%d" % len(occ.get(t, []))) for t in toks]
    if lost and "lost" in clauses:
        if multi:
            fails.append(("lost", "visible text occurs fewer times in get_full_text()%s than in the source: %s in %r" % (
                " and iterate_tables()" if tt else "", times(lost), text[:300])))
        else:
            fails.append(("lost", "visible text %s missing from get_full_text()%s: %r" % (
                [abst(t) for t in lost], " and iterate_tables()" if tt else "", text[:300])))
    if dup and "dup" in clauses:
        if multi:
            fails.append(("dup", "visible text occurs more often than in the source: %s in %r%s" % (
                times(dup), text[:300], (" tables %r" % tabs[:12]) if tt else "")))
        else:
            fails.append(("dup", "visible text %s occurs more than once: %r%s" % (
                [abst(t) for t in dup], text[:300], (" tables %r" % tabs[:12]) if tt else "")))
    # with repeated texts: when every count agrees (and no token lives in iterate_tables()), the complete sequence of occurrences
    # is comparable with the source sequence position by position
    aligned = None
    if multi and not tt and not lost and not dup:
        aligned = sorted((p0, p1, t) for t in exp for p0, p1 in occ.get(t, []))
    # order: first occurrences, text tokens and table tokens separately
    if "order" in clauses:
        bad = None
        if aligned is not None:
            for (p0, p1, got), (want, _) in zip(aligned, vis):
                if got != want:
                    bad = (want, got)
                    break
            if bad:
                fails.append(("order", "occurrence sequence differs from the source: expected %s where %s stands: %r" % (
                    abst(bad[0]), abst(bad[1]), text[:300])))
                bad = None
                aligned = None
        else:
            seq = [(occ[t][0][0], t) for t in exp if t not in tt and t in occ]
            for (p1, t1), (p2, t2) in zip(seq, seq[1:]):
                if p2 < p1:
                    bad = (t1, t2)
                    break
            if bad is None and tt:
                seq = [(tabocc[t][0], t) for t in exp if t in tt and t in tabocc and t not in occ]
                for (p1, t1), (p2, t2) in zip(seq, seq[1:]):
                    if p2 < p1:
                        bad = (t1, t2)
                        break
        if bad:
            fails.append(("order", "%s precedes %s in the source but follows it in the output: %r" % (abst(bad[0]), abst(bad[1]), text[:300])))
    elif aligned is not None and [t for _, _, t in aligned] != [t for t, _ in vis]:
        aligned = None
    if "merged" in clauses:
        merged = []
        if aligned is not None:
            for (_, ea, a), (sb, _, b), (_, bnd) in zip(aligned, aligned[1:], vis[1:]):
                if bnd in JUDGED_BOUNDARIES and not _WS.search(text[ea:sb]):
                    if base == "csv" and "," in text[ea:sb]:
                        continue
                    merged.append((a, b, bnd))
        else:
            for (a, _), (b, bnd) in zip(vis, vis[1:]):
                if bnd not in JUDGED_BOUNDARIES or a in tt or b in tt:
                    continue
                if exp[a] != 1 or exp[b] != 1 or len(occ.get(a, [])) != 1 or len(occ.get(b, [])) != 1:
                    continue
                ea, sb = occ[a][0][1], occ[b][0][0]
                if ea <= sb and not _WS.search(text[ea:sb]):
                    if base == "csv" and "," in text[ea:sb]:
                        continue      # documented: csv returns the raw content; the field delimiter is the source's own separator
                    merged.append((a, b, bnd))
        if merged:
            fails.append(("merged", "neighbours separated by a %s boundary in the source have no white space between them: %s in %r" % (
                merged[0][2], [(abst(a), abst(b)) for a, b, _ in merged], text[:300])))
    if "leak" in clauses:
        leaked = [t for t in tr["hidden"] if t in occ]
        if leaked:
            fails.append(("leak", "hidden text %s appears in get_full_text(): %r" % ([abst(t) for t in leaked], text[:300])))
    if "invented" in clauses:
        residue = text
        known = set(t for t, _ in vis) | set(tr["hidden"]) | set(tr["dontcare"])
        residue = TOK.sub(lambda m: " " if m.group(0) in known else m.group(0), residue)
        residue = residue.replace(URL, " ")
        if base == "xlsx":
            # placeholder of an empty header cell: pinned by the repository's own golden test (test_read_xlsx_2) and listed in the
            # documented-behaviour table of DESIGN.md section 1 ("empty get_full_text header cells") - decoration, not judged
            residue = re.sub(r"Unnamed: \d+", " ", residue)
        if base == "ppt":
            for lit in PPT_MASTER_LINES:      # prompt texts of the master placeholders: present in the source file, not judged
                residue = residue.replace(lit, " ")
        if "fn" in _ctors(doc):
            residue = re.sub(r"\d+", " ", residue)     # note citation marks are in the source
        if re.search(r"[^\W_]", residue):
            fails.append(("invented", "output contains text that is neither in the source nor documented decoration: %r (full text %r)" % (
                " ".join(residue.split())[:200], text[:300])))
    outcome = ",".join(c for c, _ in fails) or "ok"
    return fails, outcome


def _ctors(doc):
    try:
        return adm.constructors(doc)
    except Exception:
        return set()


def _abstractor(doc):
    seen, counters = {}, {}

    def walk(x):
        if F.is_token(x):
            if x not in seen:
                c = x[0]
                counters[c] = counters.get(c, 0) + 1
                seen[x] = "%s#%d" % (c, counters[c])
        elif isinstance(x, (list, tuple)):
            for y in x:
                walk(y)
        elif isinstance(x, dict):
            for k in sorted(x):
                walk(x[k])
    walk(doc)
    return lambda t: "%s(%s)" % (seen.get(t, "?"), t)


def evaluate(fmt, doc):
    """-> (fails, outcome) ; outcome None = the writer cannot express the term.
    A spelling variant (V-family) is judged where the ordinary spelling of the same document passes: clauses that fail for the base
    format as well are the base format's findings and are reported there, once."""
    fails, oc = _evaluate1(fmt, doc)
    base = _base_of(fmt) if fails else None
    bases = [base] if base else []
    var = _variant(fmt)
    if base and var[1] == "as" and var[2].startswith("bare:") and var[2].count(":") == 2:
        # a combined spelling (bare text + sibling container) is judged where each of its two component spellings passes as well
        _, mode, cont = var[2].split(":")
        bases += ["%s+as:bare:%s" % (base, mode), "%s+as:%s" % (base, cont)]
    for b in bases:
        if not fails:
            break
        sig = _LAST["sig"]
        bfails, boc = _evaluate1(b, doc)
        _LAST["sig"] = sig
        shared = set(c for c, _ in bfails)
        if boc is not None and shared:
            fails = [(c, m) for c, m in fails if c not in shared]
            oc = ",".join(c for c, _ in fails) or "ok(base-format-finding)"
    return fails, oc


REREAD = "2nd get_full_text() (after iterate_units(), iterate_tables()): "


def _evaluate1(fmt, doc):
    try:
        data = _render(fmt, doc)
    except NotImplementedError:
        return [], None
    tr = truth_for(fmt, doc)
    try:
        text, tabs, text2 = _extract(fmt, data)
    except ShortFileCharset:
        return [], "short-file-charset-guess(not judged)"
    except Exception as e:  # noqa - a library exception is a data point
        if tr["visible"] and "lost" in _clauses(fmt):
            return [("lost", "extractor raised %s: %s - all visible text lost" % (type(e).__name__, str(e)[:200]))], "raises"
        return [], "raises-empty"
    _LAST["sig"] = _signature(text, tabs)
    fails, oc = judge(fmt, doc, text, tabs, tr)
    if text2 != text:
        # the same oracle on the text of the second request; clauses that already fail on the first are not repeated
        have = set(c for c, _ in fails)
        if isinstance(text2, tuple):
            if tr["visible"] and "lost" in _clauses(fmt) and "lost" not in have:
                fails.append(("lost", REREAD + "raised %s: %s" % (type(text2[0]).__name__, str(text2[0])[:160])))
        else:
            for c, m in judge(fmt, doc, text2, tabs, tr)[0]:
                if c not in have:
                    fails.append((c, REREAD + m))
        oc = ",".join(c for c, _ in fails) or "ok"
    return fails, oc


_LAST = {"sig": None}
_WSRUN = re.compile(r"\s+")


def _signature(text, tabs):
    """layout of an output: tokens -> T, white-space runs -> their strongest character; used only to count distinct outputs"""
    def ws(m):
        g = m.group(0)
        return "\n" if "\n" in g else ("\t" if "\t" in g else " ")
    lay = _WSRUN.sub(ws, TOK.sub("T", text)) + "|%d" % len(tabs)
    return zlib.crc32(lay.encode("utf-8", "replace")) * 4096 + (len(lay) & 4095)


def reexec(fmt, case):
    try:
        fails, oc = evaluate(fmt, case)
    except NotImplementedError:
        return []
    return fails


# ====================================================================================================== shrinking / embedding

def shrinks(doc):
    """Smaller well-formed ADM documents: drop a unit / block / inline / item / row / cell / extra / meta key, hoist the
    contents of a container in place of the container, turn a heading into a paragraph; last: give one occurrence of a
    repeated text a text of its own (a failure that survives this does not need the coincidence)."""
    yield from _shrinks_structural(doc)
    yield from _unalias(doc)


def _unalias(doc):
    """documents in which one later occurrence of a repeated text leaf is replaced by a fresh text"""
    used = set()

    def collect(x):
        if isinstance(x, str):
            used.add(x)
        elif isinstance(x, list):
            for y in x:
                collect(y)
        elif isinstance(x, dict):
            for v in x.values():
                collect(v)
    collect(doc)
    tk = Tokens(0)
    fresh = tk.new("B")
    while fresh in used:
        fresh = tk.new("B")
    paths, seen = [], set()

    def walk(x, path):
        if isinstance(x, list):
            if len(x) == 2 and x[0] in ("t", "s") and isinstance(x[1], str):
                if x[1] in seen:
                    paths.append(path)
                seen.add(x[1])
                return
            for i, y in enumerate(x):
                walk(y, path + (i,))
    walk(doc[2], ())

    def put(x, path):
        if not path:
            return [x[0], fresh]
        return x[:path[0]] + [put(x[path[0]], path[1:])] + x[path[0] + 1:]
    for pth in paths:
        yield ["doc", doc[1], put(doc[2], pth)]


def _shrinks_structural(doc):
    meta, units = doc[1] or {}, doc[2]
    if units and units[0][0] == "sheet":
        for i in range(len(units)):
            if len(units) > 1:
                yield ["doc", meta, units[:i] + units[i + 1:]]
        for i, sh in enumerate(units):
            grid = sh[2]
            for r in range(len(grid)):
                yield ["doc", meta, units[:i] + [["sheet", sh[1], grid[:r] + grid[r + 1:]]] + units[i + 1:]]
            for r, row in enumerate(grid):
                for c in range(len(row)):
                    yield ["doc", meta, units[:i] + [["sheet", sh[1], grid[:r] + [row[:c] + row[c + 1:]] + grid[r + 1:]]] + units[i + 1:]]
                    if row[c] is not None:
                        yield ["doc", meta, units[:i] + [["sheet", sh[1], grid[:r] + [row[:c] + [None] + row[c + 1:]] + grid[r + 1:]]] + units[i + 1:]]
                    if row[c] is not None and len(row[c]) > 2:
                        yield ["doc", meta, units[:i] + [["sheet", sh[1], grid[:r] + [row[:c] + [row[c][:2]] + row[c + 1:]] + grid[r + 1:]]] + units[i + 1:]]
                        yield ["doc", meta, units[:i] + [["sheet", sh[1], grid[:r] + [row[:c] + [["n", row[c][2]["note"]]] + row[c + 1:]] + grid[r + 1:]]] + units[i + 1:]]
                    if row[c] is not None and row[c][0] == "n":
                        for nt in _shrink_note(row[c][1]):
                            yield ["doc", meta, units[:i] + [["sheet", sh[1], grid[:r] + [row[:c] + [["n", nt]] + row[c + 1:]] + grid[r + 1:]]] + units[i + 1:]]
                    elif row[c] is not None and len(row[c]) > 2 and (row[c][2] or {}).get("note"):
                        for nt in _shrink_note(row[c][2]["note"]):
                            yield ["doc", meta, units[:i] + [["sheet", sh[1], grid[:r] + [row[:c] + [row[c][:2] + [dict(row[c][2], note=nt)]] + row[c + 1:]] + grid[r + 1:]]] + units[i + 1:]]
        return
    for k in sorted(meta):
        m = dict(meta)
        del m[k]
        yield ["doc", m, units]
    if len(units) > 1:
        for i in range(len(units)):
            yield ["doc", meta, units[:i] + units[i + 1:]]
    for i, u in enumerate(units):
        ex = (u[2] if len(u) > 2 else None) or {}
        for k in sorted(ex):
            e2 = dict(ex)
            del e2[k]
            yield ["doc", meta, units[:i] + [["unit", u[1], e2]] + units[i + 1:]]
        for bs in _shrink_blocks(u[1]):
            yield ["doc", meta, units[:i] + [["unit", bs, ex]] + units[i + 1:]]


def _shrink_note(note):
    """smaller comments: a body that is one plain paragraph becomes that text; drop a block / an item / an inline, hoist the blocks of a
    list item in place of the list, the inlines of a span in place of the span"""
    if isinstance(note, str):
        return
    if len(note) == 1 and note[0][0] == "p" and len(note[0][1]) == 1 and note[0][1][0][0] == "t":
        yield note[0][1][0][1]
        return

    def inl(xs):
        for i, x in enumerate(xs):
            if len(xs) > 1:
                yield xs[:i] + xs[i + 1:]
            if x[0] == "span":
                yield xs[:i] + x[1] + xs[i + 1:]
                for y in inl(x[1]):
                    yield xs[:i] + [["span", y]] + xs[i + 1:]

    def has_text(xs):
        return any(x[0] == "t" or (x[0] == "span" and has_text(x[1])) for x in xs)

    def blocks(bs, top):
        for i, b in enumerate(bs):
            if len(bs) > 1:
                yield bs[:i] + bs[i + 1:]
            if b[0] == "p":
                for y in inl(b[1]):
                    if has_text(y):
                        yield bs[:i] + [["p", y]] + bs[i + 1:]
            else:
                for j, it in enumerate(b[1]):
                    yield bs[:i] + it + bs[i + 1:]
                    if len(b[1]) > 1:
                        yield bs[:i] + [["ul", b[1][:j] + b[1][j + 1:]]] + bs[i + 1:]
                    for y in blocks(it, False):
                        if y:
                            yield bs[:i] + [["ul", b[1][:j] + [y] + b[1][j + 1:]]] + bs[i + 1:]
    for y in blocks(note, True):
        if y:
            yield y


def _shrink_blocks(bs):
    for i in range(len(bs)):
        yield bs[:i] + bs[i + 1:]
    for i, b in enumerate(bs):
        k = b[0]
        pre, post = bs[:i], bs[i + 1:]
        if k == "h":
            yield pre + [["p", b[2]]] + post
            if b[1] != 1:
                yield pre + [["h", 1, b[2]]] + post
            for s in _shrink_inl(b[2]):
                yield pre + [["h", b[1], s]] + post
        elif k == "p":
            for s in _shrink_inl(b[1]):
                yield pre + [["p", s]] + post
            for x in b[1]:
                if x[0] == "box":
                    yield pre + x[1] + post
        elif k == "ul":
            items = b[1]
            yield pre + [blk for it in items for blk in it] + post        # hoist
            for j in range(len(items)):
                if len(items) > 1:
                    yield pre + [["ul", items[:j] + items[j + 1:]]] + post
            for j, it in enumerate(items):
                for s in _shrink_blocks(it):
                    if s:
                        yield pre + [["ul", items[:j] + [s] + items[j + 1:]]] + post
        elif k == "tbl":
            rows = b[1]
            yield pre + [blk for row in rows for c in row for blk in c] + post      # hoist
            for j in range(len(rows)):
                if len(rows) > 1:
                    yield pre + [["tbl", rows[:j] + rows[j + 1:]]] + post
            for j, row in enumerate(rows):
                for c in range(len(row)):
                    if len(row) > 1:
                        yield pre + [["tbl", rows[:j] + [row[:c] + row[c + 1:]] + rows[j + 1:]]] + post
                for c, cell in enumerate(row):
                    for s in _shrink_blocks(cell):
                        yield pre + [["tbl", rows[:j] + [row[:c] + [s] + row[c + 1:]] + rows[j + 1:]]] + post


def _shrink_inl(xs):
    for i in range(len(xs)):
        yield xs[:i] + xs[i + 1:]
    for i, x in enumerate(xs):
        k = x[0]
        pre, post = xs[:i], xs[i + 1:]
        if k == "ins":
            yield pre + [["t", x[1]]] + post         # a plain run instead of a tracked insertion
        elif k in ("cref", "del") and len(x) > 2:
            for nt in _shrink_note(x[2]):
                yield pre + [[k, nt] if isinstance(nt, str) else [k, _note_tokens(nt)[0], nt]] + post
        elif k == "a":
            yield pre + x[2] + post
            for s in _shrink_inl(x[2]):
                yield pre + [["a", x[1], s]] + post
        elif k == "sdt":
            yield pre + x[1] + post
            for s in _shrink_inl(x[1]):
                yield pre + [["sdt", s]] + post
        elif k == "box":
            for s in _shrink_blocks(x[1]):
                if s:
                    yield pre + [["box", s]] + post


def _leaf_eq(a, b):
    if F.is_token(a) and F.is_token(b):
        ca, cb = a[0], b[0]
        va, vb = ca in adm.VISIBLE_CLASSES, cb in adm.VISIBLE_CLASSES
        return (va and vb) or ca == cb
    if isinstance(a, int) and isinstance(b, int) and not isinstance(a, bool) and a == 1:
        return True               # heading level 1 in a minimal shape stands for any level
    return a == b


def _repeats_a_text(case):
    seen = set()

    def go(x):
        if isinstance(x, list):
            if len(x) == 2 and x[0] in ("t", "s", "ins") and isinstance(x[1], str):
                if x[1] in seen:
                    return True
                seen.add(x[1])
                return False
            return any(go(y) for y in x)
        return False
    return go(case)


def embeds(small, big):
    """Sub-term (homeomorphic) embedding of ADM documents: `small` is obtainable from `big` by deleting nodes and hoisting
    children. Visible token classes are interchangeable (the class only records the context of a text leaf); a minimal
    shape in which one text occurs several times only accounts for cases in which some text occurs several times."""
    if _repeats_a_text(small) and not _repeats_a_text(big):
        return False
    return _embeds(small, big)


def _embeds(small, big):
    if small is None:
        return True
    if isinstance(small, dict):
        if isinstance(big, dict):
            if all(k in big and _embeds(v, big[k]) for k, v in small.items()):
                return True
            return any(_embeds(small, v) for v in big.values())
        if isinstance(big, (list, tuple)):
            return any(_embeds(small, v) for v in big)
        return False
    if isinstance(small, (list, tuple)):
        if isinstance(big, (list, tuple)):
            i = 0
            for b in big:
                if i < len(small) and _embeds(small[i], b):
                    i += 1
            if i == len(small):
                return True
            return any(_embeds(small, b) for b in big)
        if isinstance(big, dict):
            return any(_embeds(small, v) for v in big.values())
        return False
    if isinstance(big, (list, tuple)):
        return any(_embeds(small, b) for b in big)
    if isinstance(big, dict):
        return any(_embeds(small, v) for v in big.values())
    return _leaf_eq(small, big)


def fingerprint_view(case):
    """visible token classes are context labels only: B/H/C/L/K/S/I all count as one class in a fingerprint"""
    def go(x):
        if F.is_token(x) and x[0] in "HCLKSI":
            return "B" + x[1:]
        if isinstance(x, list):
            return [go(y) for y in x]
        if isinstance(x, dict):
            return {k: go(v) for k, v in x.items()}
        return x
    return go(case)


# ====================================================================================================== run

def _part(arg):
    tier, fmt, k, n, seed = arg
    ev = skipped = trans = 0
    fails = []
    outcomes = {}
    samples = []
    sigs = set()
    for i, doc in enumerate(cases_for(fmt, tier, seed, k, n)):
        try:
            _LAST["sig"] = None
            f, oc = evaluate(fmt, doc)
            if _LAST["sig"] is not None:
                sigs.add(_LAST["sig"])
        except Exception as e:  # noqa - harness-side problem with one case: report it, do not crash the sweep
            fails.append(("harness", fmt, doc, "harness exception %s: %s" % (type(e).__name__, str(e)[:300])))
            continue
        if oc is None:
            skipped += 1
            continue
        ev += 1
        outcomes[oc] = outcomes.get(oc, 0) + 1
        for clause, msg in f:
            fails.append((clause, fmt, doc, msg[:240]))
        if len(samples) < 1 and i >= 7 and k == 0:
            try:
                txt = _extract(fmt, _render(fmt, doc))[0]
            except Exception as e:  # noqa
                txt = "raised %s" % type(e).__name__
            samples.append({"fmt": fmt, "case": doc, "full_text": txt[:200], "outcome": oc})
    return {"ev": ev, "skipped": skipped, "fails": fails, "outcomes": outcomes, "samples": samples, "sigs": sigs}


def _partitions(fmt, tier):
    big = {"docx": 64, "odt": 64, "rtf": 64, "pptx": 32, "odp": 32, "odg": 32, "epub": 32, "csv": 32,
           "xlsx": 32, "xlsx+inline": 32, "xls": 32, "ods": 32, "ods+rle": 32, "csv+sheet": 16}
    mid = ("html", "mhtml", "mhtml+b64", "md", "txt", "eml", "eml+html", "mbox", "ppt", "ppt+textbox", "pdf")
    n = big.get(fmt, 16 if fmt in mid else 2)
    if _variant(fmt):
        n = 2 if tier == "quick" else 8
    if tier == "quick":
        n = max(2, n // 8)
    return n


def run(ctx):
    args = []
    for fmt in FORMATS + variant_formats(ctx.tier):
        if ctx.quick and fmt in THOROUGH_ONLY:
            continue
        n = _partitions(fmt, ctx.tier)
        args += [(ctx.tier, fmt, k, n, ctx.seed) for k in range(n)]
    random.Random(ctx.seed).shuffle(args)
    res = P.run_all(MODULE, "_part", args, n=ctx.ncpu, hard_timeout=3000)
    ev = skipped = 0
    fails, herr, samples = [], [], []
    outcomes, per_fmt, sigs = {}, {}, {}
    for (st, r, _), a in zip(res, args):
        if st != "done":
            herr.append("partition %r failed: %s: %s" % (a, st, str(r)[-600:]))
            continue
        ev += r["ev"]
        skipped += r["skipped"]
        pf = per_fmt.setdefault(a[1], {"evaluated": 0, "inexpressible": 0, "failing": 0})
        pf["evaluated"] += r["ev"]
        pf["inexpressible"] += r["skipped"]
        pf["failing"] += len(r["fails"])
        for f in r["fails"]:
            if f[0] == "harness":
                herr.append("%s %s: %s" % (f[1], json.dumps(f[2])[:300], f[3]))
            else:
                fails.append(tuple(f))
        for k_, v in r["outcomes"].items():
            key = "%s:%s" % (a[1], k_)
            outcomes[key] = outcomes.get(key, 0) + v
        samples += r["samples"]
        sigs.setdefault(a[1], set()).update(r["sigs"])
    samples = sorted(samples, key=lambda s: (s["fmt"], json.dumps(s["case"])))
    picked = []
    for s in samples:
        if s["fmt"] not in [p["fmt"] for p in picked]:
            picked.append(s)
    b = BOUNDS[ctx.tier]
    fam = {"V (spelling variants)": sum(v["evaluated"] for f_, v in per_fmt.items() if _variant(f_) and _variant(f_)[1] not in ("note", "hbody")),
           "N (cell comments, comment bodies)": sum(v["evaluated"] for f_, v in per_fmt.items() if _variant(f_) and _variant(f_)[1] == "note"),
           "H (hidden bodies: odt annotations / tracked deletions)": sum(v["evaluated"] for f_, v in per_fmt.items() if _variant(f_) and _variant(f_)[1] == "hbody"),
           "S C E M G (base formats and writer variants)": sum(v["evaluated"] for f_, v in per_fmt.items() if not _variant(f_)),
           "R (second full text judged)": ev}
    for f_, v in sigs.items():
        per_fmt[f_]["distinct_output_layouts"] = len(v)
    cov = {"evaluations": ev, "distinct_nontrivial": sum(len(v) for v in sigs.values()), "outcome_classes": len(outcomes), "exhaustive": True, "inexpressible_terms_skipped": skipped,
           "rule": "every ADM term of the S-, C-, E-, M-, H- (documents; H = comment / tracked-deletion bodies) and G-, M-, N- (spreadsheets; N = cell comments and their bodies) families within the tier bounds (M = every assignment "
                   "of texts to the leaves of a small document / grid in which a text occurs several times, also run-length encoded for ODF), restricted to each "
                   "writer's CAPS, rendered by the reference writer - and, for the C-family, by every spelling variant of the V-family (HTML / EPUB containers, "
                   "anonymous text (paragraphs as bare text nodes in front of / directly after sibling block elements) and inline markup inside words, MIME header spellings of MHTML parts, RTF \\uN fallback spellings, text boxes nested in ODF drawing paragraphs) - "
                   "and extracted by the real extractor; every extraction is read twice (full text, units, tables, full text again) and both full texts are judged; evaluations = (format, term) pairs "
                   "extracted and judged on all applicable clauses; distinct_nontrivial = distinct (format, output layout) pairs observed, a layout "
                   "being the extracted text with tokens abstracted to T and every white-space run to its strongest character; outcome_classes = "
                   "distinct (format, set of failed clauses)",
           "bounds": dict(b, S_bonus=S_BONUS, M_family=M_BOUNDS[ctx.tier], N_family=dict(zip(("R", "C"), N_BOUNDS[ctx.tier]), comment_bodies=dict(NB_BOUNDS[ctx.tier], bodies=len(_n_bodies(ctx.tier)),
                                                                                                      inline_shapes=len(NB_INLINE) + 1)),
                          H_family=dict(terms="quick C-family terms of odt with a comment anchor / tracked deletion", bodies=len(_n_bodies(ctx.tier))),
                          V_family=list(variant_formats(ctx.tier)), V_family_terms="C-family of the base format",
                          R_family="get_full_text, iterate_units/get_text, iterate_tables/get_table, get_full_text - on every evaluation"),
           "families": fam, "per_format": per_fmt, "outcomes": dict(sorted(outcomes.items())), "samples": picked[:6]}
    return {"coverage": cov, "failures": fails, "harness_errors": herr, "assumptions": ASSUMPTIONS}


ASSUMPTIONS = [
    "a second get_full_text() on the same result (after iterate_units() / iterate_tables()) is judged like the first: the statement speaks "
    "of get_full_text(), not of its first evaluation",
    "spelling variants are equivalent sources: MIME tokens, parameter names and header field names are case-insensitive and headers may be "
    "folded / reordered (RFC 2045 5.1, 6.1; RFC 5322 2.2); a \\uN escape is followed by \\ucN fallback characters (default 1), each a plain "
    "character or a \\'xx byte, and a blank after the number is the delimiter of the control word (RTF 1.9.1, Unicode RTF); phrasing elements "
    "(b, i, span, a ...) do not separate words; caption, th, figcaption, dt, dd, blockquote, pre, div ... hold visible body text; "
    "a text node that is a sibling of block-level elements (in front of the first child element, or directly after the end tag of a table, list, "
    "paragraph, heading ...) is an anonymous block of its own: visible body text, separated from its siblings like a paragraph",
    "a spelling variant is judged only on clauses that hold for the base spelling of the same term (shared failures belong to the base format)",
    "the text of a spreadsheet cell comment is a comment (hidden class): it must not appear in get_full_text()",
    "every text leaf of the body of a comment (paragraphs, list items at any depth, spans) is comment text, and every text leaf of the body "
    "of a tracked deletion is deleted text: hidden, whatever the block structure of the body (ODF 1.2 part 1, 14.1, 5.5.4)",
    "a cell / row carrying table:number-columns-repeated / table:number-rows-repeated stands for that many identical adjacent cells / rows "
    "(ODF 1.2 part 1, definitions of these attributes): its text is in the source that many times",
    "footnote bodies, hyperlink targets and sheet names are class Z / decoration: neither required nor forbidden, removed before `invented`",
    "digits are not judged by `invented` in documents with a footnote (the citation mark is in the source)",
    "PDF is judged for lost/dup/order/leak only; e-mail with only an HTML body (raw body_html is the documented full text) for lost/dup/order only",
    "odp / epub table text is looked up in iterate_tables() cells as well as in the text",
    "neighbouring text runs of one paragraph (boundary class none) may or may not be separated",
    "formulas (math) and image alt texts are not generated here (C19 / C14)",
    "ppt: per documented `title + body + other` order the first heading of a slide is expected first; the prompt texts of the master "
    "placeholders (present in every real .ppt) are in the source and are not judged by `invented`",
    "xlsx: the `Unnamed: <n>` placeholder of an empty header cell is treated as decoration (pinned by the repository's golden test)",
    "csv: the field delimiter counts as separation (documented: raw content is returned)",
    "plain-text files shorter than 32 bytes that the charset detector mis-decodes are not judged (documented as unreliable)",
    "text before and after an anchored text box belongs to one run of text; only the text inside the box is a paragraph of its own",
    "html comments are generated as the HTML rendering of a comment (class M, must not leak); ins/del are not generated for HTML",
]
