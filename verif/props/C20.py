"""C20 - built-in AES == FIPS-197 AES (ECB/CBC), wrapper pads/unpads, length rejection.

Decomposed into finite domains that are enumerated completely (tables, GF multiplication, ShiftRows positions,
MixColumns columns, key schedule families, AESAVS-style block families, mode drivers, wrapper message lengths,
argument-length lattice, round-key-cache use sequences, call histories with rejected calls). Reference: verif/ref/aes.py
(written from the FIPS-197 definitions) plus hard-coded FIPS-197 App. C / SP 800-38A vectors.

Public surface vs. internals.  The verdict-carrying black-box families (blocks, modes, lengths, wrapper, cache, history) use only
the four public functions aes_{ecb,cbc}_{encrypt,decrypt} and patch_pypdf_fallback_aes()/CryptAES.  The component families
(tables, gfmul, shiftrows, mixcolumns, keyschedule) need hooks into private names (_SBOX, _MUL*, _gf_mul, _shift_rows, ...);
every such hook is OPTIONAL: a name that a refactoring removed is skipped and listed in coverage["hooks_absent"] (the black-box
families still judge the cipher), it is never a harness error.  State-carrying helpers accept both conventions (mutate the
state in place / return the new state).

Histories start from a FRESH module instance (the module's source executed into a new module object; for the large `history`
family a clone of a pristine instance when `_make_plan` proves that equivalent: plain functions re-created over new globals, plain
data copied, locks renewed, imports shared - else the source is executed), so "state" is whatever the implementation keeps between
calls - no private cache name is touched; the only private peek left is the optional size bound of `_ROUND_KEY_CACHE` when that
name exists.

Family `cache`  : every key-use sequence of length L (quick 5 / thorough 7) over 5 valid keys (3 x 128, 192, 256 bit: one more
                  than the 4 schedule slots); every step (= every prefix) must equal the uncached reference result.
Family `history`: every sequence of length L over a CALL alphabet that contains REJECTED calls, judged at every step:
                  a call with legal arguments must return the reference result whatever was called (and rejected) before, a call
                  with a wrong-length key / data / IV must raise ValueError whatever was called (and accepted or rejected) before.
                  call = (function, key, argument shape);  functions: the 4 public ones;
                  quick   : keys {k16a, k24, k32} legal + {b0 (empty), b15p (k16a minus last byte), b17x (k16a plus one byte),
                            b48x (k32 followed by k16a)} illegal; shapes: ok | 15-byte data (with k16a) | 15-byte IV (CBC, k16a)
                            = 34 calls, L = 3  (39304 histories, all their prefixes judged)
                  thorough: quick alphabet with L = 4 (1336336 histories) and the wide alphabet with L = 3: legal {k16a, k16b,
                            k24, k32}, illegal {b0, b1, b15p, b17x, b23p, b25x, b33x, b48x}, short data / short IV with each
                            legal key = 72 calls (373248 histories).
                  Key bytes are derived from VERIF_SEED (spelling only); cases name keys symbolically.
Family `patterns`: the mode drivers on messages whose 16-byte blocks are RELATED to each other.  Alphabet: every equality pattern
                  among the blocks = every set partition of the block positions (restricted-growth strings; ECB: the n message blocks,
                  CBC: IV + n message blocks, so the IV may equal a block) x side {in: the pattern is the call's input (plaintext blocks
                  for encrypt, CIPHERTEXT blocks for decrypt), out: the pattern is the expected output, the input being the reference
                  inverse} x the 4 public functions x 3 key sizes x symbol assignment (all symbols distinct data blocks | symbol 0 =
                  all-zero block; thorough also all-FF and 00..01).  Oracle: result == reference (verif/ref/aes.py block function,
                  memoised, driven in ECB / CBC here).
                  quick   : ECB 0..5 blocks (76 patterns), CBC IV + 0..4 blocks (75 patterns), 2 assignments  = 3624 cases
                  thorough: ECB 0..7 blocks (1156 patterns), CBC IV + 0..6 blocks (1155 patterns), 4 assignments = 110928 cases
Family `ivs`    : aes_cbc_{encrypt,decrypt} x 3 key sizes x message of 0..2 (thorough 0..3) blocks - the EMPTY message included - x every
                  IV of the IV alphabet {zero, FF..FF, each single bit (128), each single FF byte (16)} (thorough: + every byte value
                  1..254 at every byte position).  quick 146 IVs = 2628 cases, thorough 4210 IVs = 101040 cases.
Family `long`   : the mode drivers on LONG messages (position- / length-dependent behaviour: buffering, segmenting, chunk thresholds).
                  4 public functions x 3 key sizes x every block count of the length alphabet; data = pairwise distinct non-periodic
                  blocks (block i = (i + 1 + 7919 * seed) * odd constant mod 2^128), fixed non-zero IV.  Oracle: result == reference
                  (SP 800-38A chaining over verif/ref/aes.py, memoised) AND the inverse function applied to the library's result gives the
                  input back.  Because the whole output is compared, the longest message judges the chaining at EVERY block position up
                  to the bound; the many lengths judge length-dependent path switches.
                  quick   : every block count 0..40 and {2^k - 1, 2^k, 2^k + 1 : k = 3..9} (max 513 blocks = 8 KiB) = 53 lengths, 636 cases
                  thorough: every block count 0..520 and {2^k - 1, 2^k, 2^k + 1 : k = 3..13} (max 8193 blocks = 128 KiB) = 533 lengths, 6396 cases
Family `wraplong`: the stream wrapper CryptAES(key).encrypt / .decrypt on long messages: 3 key sizes x every BYTE length
                  {2^k - 1, 2^k, 2^k + 1 : k = 7..12} (max 4097 bytes = 258 blocks; thorough k = 7..15); same oracle as `wrapper` (IV + PKCS#7-padded length, reference
                  decryption of the library's ciphertext = message + padding, decrypt(encrypt(m)) == m, decrypt of a reference
                  ciphertext == m).
Every black-box family (blocks, modes, wrapper, patterns, ivs, long, wraplong, cache, history): a call with LEGAL arguments that raises an exception of
                  any type is a failure of clause `raises` (never a harness error).
"""
from __future__ import annotations

import itertools
import os
import random
import types

from verif.mc import pool as P
from verif.ref import aes as R

LEVEL = "exploration"
MOD = "sharepoint2text.parsing.extractors.pdf._pypdf_aes_fallback"


def _m():
    import importlib
    return importlib.import_module(MOD)


_CODE = None
_PLAN = None      # None = not analysed yet, False = module not clonable (always execute the source), else (pristine dict, recipe)


def _exec_fresh():
    global _CODE
    base = _m()
    if _CODE is None:
        with open(base.__file__, "rb") as f:
            _CODE = compile(f.read(), base.__file__, "exec")
    mod = types.ModuleType(base.__name__)
    mod.__file__ = base.__file__
    mod.__package__ = base.__package__
    exec(_CODE, mod.__dict__)
    return mod


def _plain(v, depth=0):
    """deeply plain data (no objects that could carry code or references into a module)"""
    if v is None or isinstance(v, (bool, int, float, str, bytes)):
        return True
    if depth > 6:
        return False
    if isinstance(v, (tuple, list, set, frozenset, bytearray)):
        return isinstance(v, bytearray) or all(_plain(x, depth + 1) for x in v)
    if isinstance(v, dict):      # includes OrderedDict
        return all(_plain(k, depth + 1) and _plain(x, depth + 1) for k, x in v.items())
    return False


def _frozen(v, depth=0):
    """deeply immutable plain data"""
    if v is None or isinstance(v, (bool, int, float, str, bytes)):
        return True
    return depth < 6 and isinstance(v, (tuple, frozenset)) and all(_frozen(x, depth + 1) for x in v)


def _cp(v):
    """copy of deeply plain data (what copy.deepcopy gives, without its per-element bookkeeping)"""
    if _frozen(v):
        return v
    if isinstance(v, list):
        return [_cp(x) for x in v]
    if isinstance(v, tuple):
        return tuple(_cp(x) for x in v)
    if isinstance(v, (set, bytearray)):
        return type(v)(v)
    import copy
    c = copy.copy(v)            # dict / OrderedDict: keys are hashable, hence immutable plain data
    for k in c:
        c[k] = _cp(c[k])
    return c


def _make_plan():
    """Decide once per process whether a fresh instance can be produced by CLONING a pristine (never called) instance instead of
    executing the source again (1 ms): every global must be (a) a plain function of this module without closure / attributes /
    mutable defaults -> re-created over the new globals, (b) deeply plain data -> deep-copied when mutable, (c) a lock -> a new
    lock, (d) an object that belongs to another module (imports) -> shared, exactly as a re-import would share it.  Anything else
    (classes defined here, wrapped functions, containers holding functions, ...) -> not clonable, the source is executed."""
    import threading
    pristine = _exec_fresh()
    d = pristine.__dict__
    lock_t, rlock_t = type(threading.Lock()), type(threading.RLock())
    recipe = []
    for name, v in d.items():
        if name == "__builtins__" or (name.startswith("__") and name.endswith("__")):
            recipe.append((name, "share"))
        elif isinstance(v, types.FunctionType):
            if v.__globals__ is not d:
                recipe.append((name, "share"))
            elif v.__closure__ is None and not v.__dict__ and _plain(v.__defaults__) and _plain(v.__kwdefaults__) \
                    and all(not isinstance(x, (list, dict, set, bytearray)) for x in (v.__defaults__ or ())) \
                    and all(not isinstance(x, (list, dict, set, bytearray)) for x in (v.__kwdefaults__ or {}).values()):
                recipe.append((name, "func"))
            else:
                return False
        elif isinstance(v, lock_t):
            recipe.append((name, "lock"))
        elif isinstance(v, rlock_t):
            recipe.append((name, "rlock"))
        elif isinstance(v, types.ModuleType):
            recipe.append((name, "share"))
        elif _plain(v):
            recipe.append((name, "share" if _frozen(v) else "slice" if isinstance(v, list) and all(_frozen(x) for x in v) else "copy"))
        elif (isinstance(v, type) and v.__module__ != d.get("__name__")) or isinstance(v, types.BuiltinFunctionType) \
                or type(v).__module__ in ("typing", "__future__", "collections.abc"):
            recipe.append((name, "share"))      # imported class / builtin / typing alias / __future__ feature (stateless, shared by any re-import)
        else:
            return False
    return d, recipe


def fresh():
    """A new instance of the AES module in its import-time state: the module's source executed into a new module object, or
    (same result, 30x cheaper) a clone of a pristine instance when `_make_plan` proves the module clonable.
    VERIF_C20_EXEC_FRESH=1 forces execution of the source."""
    global _PLAN
    if _PLAN is None:
        _PLAN = False if os.environ.get("VERIF_C20_EXEC_FRESH") else _make_plan()
    if _PLAN is False:
        return _exec_fresh()
    import threading
    d, recipe = _PLAN
    mod = types.ModuleType(d["__name__"])
    nd = mod.__dict__
    for name, how in recipe:
        v = d[name]
        if how == "share":
            nd[name] = v
        elif how == "slice":
            nd[name] = v[:]
        elif how == "copy":
            nd[name] = _cp(v)
        elif how == "func":
            f = types.FunctionType(v.__code__, nd, v.__name__, v.__defaults__, None)
            f.__kwdefaults__ = dict(v.__kwdefaults__) if v.__kwdefaults__ else None
            f.__qualname__ = v.__qualname__
            f.__doc__ = v.__doc__
            f.__annotations__ = v.__annotations__
            f.__module__ = v.__module__
            nd[name] = f
        elif how == "lock":
            nd[name] = threading.Lock()
        else:
            nd[name] = threading.RLock()
    return mod


_ABSENT = set()


def _hook(m, name):
    """optional private hook: None (and recorded) when the implementation no longer has it"""
    v = getattr(m, name, None)
    if v is None:
        _ABSENT.add(name)
    return v


def _apply(f, state):
    """run a state transformation that either mutates `state` in place or returns the new state"""
    r = f(state)
    return list(state) if r is None else list(r)


def _seed():
    try:
        return int(os.environ.get("VERIF_SEED", "0") or 0)
    except ValueError:
        return 0


def h(b):
    try:
        return bytes(b).hex()
    except Exception:  # noqa  (a result of an unexpected type is printed, never a harness error)
        return repr(b)[:80]


_NO = object()     # "the call raised" marker returned by _try (never equal to any result)


def _try(fails, case, what, f, *args):
    """A call with LEGAL arguments: its result, or _NO after recording a `raises` failure - an exception of any type on a valid
    call violates the property, it is never a harness error."""
    try:
        return f(*args)
    except Exception as e:  # noqa
        fails.append(("raises", case, f"{what} raised {type(e).__name__}: {e} (arguments are legal)"))
        return _NO


# ------------------------------------------------------------------ families (each returns (evals, fails, outcomes))


def fam_tables(tier):
    m = _m()
    ev = 0
    fails = []
    outs = set()
    tabs = (("sbox", "_SBOX", lambda i: R.SBOX[i]), ("inv_sbox", "_INV_SBOX", lambda i: R.INV_SBOX[i]),
            ("mul2", "_MUL2", lambda i: R.gmul(i, 2)), ("mul3", "_MUL3", lambda i: R.gmul(i, 3)), ("mul9", "_MUL9", lambda i: R.gmul(i, 9)),
            ("mul11", "_MUL11", lambda i: R.gmul(i, 11)), ("mul13", "_MUL13", lambda i: R.gmul(i, 13)), ("mul14", "_MUL14", lambda i: R.gmul(i, 14)))
    for name, attr, expf in tabs:
        tab = _hook(m, attr)
        if tab is None:
            continue
        ev += 1
        if len(tab) != 256:
            fails.append(("table", ["table", name, "len"], f"{name} has {len(tab)} entries"))
        for i in range(min(256, len(tab))):
            ev += 1
            got, exp = tab[i], expf(i)
            outs.add((name, got))
            if got != exp:
                fails.append(("table", ["table", name, i], f"{name}[{i:#x}] = {got:#x}, FIPS-197 gives {exp:#x}"))
    xt = _hook(m, "_xtime")
    if xt is not None:
        for i in range(256):
            ev += 1
            got, exp = xt(i), R.gmul(i, 2)
            outs.add(("xtime", got))
            if got != exp:
                fails.append(("table", ["table", "xtime", i], f"xtime[{i:#x}] = {got:#x}, FIPS-197 gives {exp:#x}"))
    rcon = _hook(m, "_RCON")
    if rcon is not None:
        rc = 1
        for i in range(1, 15):
            ev += 1
            if i >= len(rcon) or rcon[i] != rc:
                fails.append(("table", ["table", "rcon", i], f"RCON[{i}] = {rcon[i] if i < len(rcon) else None!r}, expected {rc:#x}"))
            rc = R.gmul(rc, 2)
    rot = _hook(m, "_rot_word")
    if rot is not None:
        for w in ([0, 1, 2, 3], [255, 0, 128, 7], [0x53, 0xCA, 0x10, 0xFE]):
            ev += 2
            if list(rot(list(w))) != w[1:] + w[:1]:
                fails.append(("table", ["table", "rot_word", w], f"_rot_word({w})"))
    sub = _hook(m, "_sub_word")
    if sub is not None:
        for b in range(256):
            ev += 1
            if list(sub([b, b ^ 0xFF, (b * 7) & 0xFF, (b + 1) & 0xFF])) != [R.SBOX[b], R.SBOX[b ^ 0xFF], R.SBOX[(b * 7) & 0xFF], R.SBOX[(b + 1) & 0xFF]]:
                fails.append(("table", ["table", "sub_word", b], f"_sub_word wrong for byte {b}"))
    return ev, fails, outs


def fam_gfmul(tier):
    m = _m()
    ev = 0
    fails = []
    outs = set()
    gf = _hook(m, "_gf_mul")
    if gf is None:
        return ev, fails, outs
    for a in range(256):
        for b in range(256):
            ev += 1
            g = gf(a, b)
            if g != R.gmul(a, b):
                fails.append(("gfmul", ["gfmul", a, b], f"_gf_mul({a},{b}) = {g}, expected {R.gmul(a, b)}"))
        outs.add(gf(a, 0x53))
    return ev, fails, outs


def fam_shiftrows(tier):
    m = _m()
    ev = 0
    fails = []
    outs = set()
    sr = _hook(m, "_shift_rows")
    isr = _hook(m, "_inv_shift_rows")
    for p in range(16):
        for v in range(1, 256):
            s = [0] * 16
            s[p] = v
            if sr is not None:
                exp = R._shift_rows(s)
                got = _apply(sr, list(s))
                ev += 1
                outs.add(tuple(i for i, x in enumerate(got) if x))
                if got != exp:
                    fails.append(("shiftrows", ["shift_rows", p, v], f"ShiftRows moves byte at {p} to {[i for i, x in enumerate(got) if x]}, expected {[i for i, x in enumerate(exp) if x]}"))
            if isr is not None:
                exp = R._inv_shift_rows(s)
                got = _apply(isr, list(s))
                ev += 1
                if got != exp:
                    fails.append(("shiftrows", ["inv_shift_rows", p, v], f"InvShiftRows moves byte at {p} wrongly"))
            if sr is not None and isr is not None:
                got = _apply(isr, _apply(sr, list(s)))
                ev += 1
                if got != s:
                    fails.append(("shiftrows", ["shift_inverse", p, v], "InvShiftRows(ShiftRows(s)) != s"))
    if sr is not None:
        full = list(range(16))
        got = _apply(sr, list(full))
        ev += 1
        if got != R._shift_rows(full):
            fails.append(("shiftrows", ["shift_rows", "full", 0], "ShiftRows on 0..15"))
    return ev, fails, outs


def _mix_check(m, cols, fails, outs):
    """cols: list of 4 columns (each 4 ints) -> one state; returns the number of component evaluations made"""
    mc = _hook(m, "_mix_columns")
    imc = _hook(m, "_inv_mix_columns")
    s = sum(cols, [])
    n = 0
    got = None
    if mc is not None:
        n += 4
        got = _apply(mc, list(s))
        exp = sum((R.mix_column(c) for c in cols), [])
        if got != exp:
            for k in range(4):
                if got[4 * k:4 * k + 4] != exp[4 * k:4 * k + 4]:
                    fails.append(("mixcolumns", ["mix_columns", k] + cols[k], f"MixColumns(col {cols[k]}) in position {k} = {got[4 * k:4 * k + 4]}, expected {exp[4 * k:4 * k + 4]}"))
                    break
        outs.add(hash(tuple(got)) & 0xFFFF)
    if imc is not None:
        n += 4
        got2 = _apply(imc, list(s))
        exp2 = sum((R.inv_mix_column(c) for c in cols), [])
        if got2 != exp2:
            for k in range(4):
                if got2[4 * k:4 * k + 4] != exp2[4 * k:4 * k + 4]:
                    fails.append(("mixcolumns", ["inv_mix_columns", k] + cols[k], f"InvMixColumns(col {cols[k]}) = {got2[4 * k:4 * k + 4]}, expected {exp2[4 * k:4 * k + 4]}"))
                    break
    if got is not None and imc is not None:
        back = _apply(imc, list(got))
        if back != s:
            fails.append(("mixcolumns", ["mix_inverse", 0] + cols[0], "InvMixColumns(MixColumns(s)) != s"))
    return n // 2 if (mc is not None and imc is not None) else n


def fam_mix_small(arg):
    """all single-byte columns (in every state column position) and all two-byte columns"""
    m = _m()
    ev = 0
    fails = []
    outs = set()
    part, nparts = arg
    cols = []
    for pos in range(4):
        for v in range(256):
            c = [0, 0, 0, 0]
            c[pos] = v
            cols.append(c)
    for pa, pb in itertools.combinations(range(4), 2):
        for va in range(1, 256):
            for vb in range(1, 256):
                c = [0, 0, 0, 0]
                c[pa] = va
                c[pb] = vb
                cols.append(c)
    cols = cols[part::nparts]
    # place each column in each of the four state positions over the run (rotating), 4 columns per call
    for i in range(0, len(cols), 4):
        chunk = cols[i:i + 4]
        while len(chunk) < 4:
            chunk.append([0, 0, 0, 0])
        rot = (i // 4) % 4
        chunk = chunk[rot:] + chunk[:rot]
        ev += _mix_check(m, chunk, fails, outs)
    return ev, fails, outs


def fam_mix_full(arg):
    """whole 2^32 column domain, slice a0 in [lo, hi)"""
    m = _m()
    lo, hi = arg
    ev = 0
    fails = []
    outs = set()
    g2 = [R.gmul(x, 2) for x in range(256)]
    g3 = [R.gmul(x, 3) for x in range(256)]
    mix = _hook(m, "_mix_columns")
    if mix is None:
        return ev, fails, outs
    for a0 in range(lo, hi):
        for a1 in range(256):
            e0 = g2[a0] ^ g3[a1]
            e1 = a0 ^ g2[a1]
            e2 = a0 ^ a1
            e3 = g3[a0] ^ a1
            for a2 in range(256):
                f0 = e0 ^ a2
                f1 = e1 ^ g3[a2]
                f2 = e2 ^ g2[a2]
                f3 = e3 ^ a2
                for a3 in range(0, 256, 4):
                    s = [a0, a1, a2, a3, a0, a1, a2, a3 + 1, a0, a1, a2, a3 + 2, a0, a1, a2, a3 + 3]
                    r = mix(s)
                    if r is not None:
                        s = r
                    for k in range(4):
                        b = a3 + k
                        if s[4 * k] != f0 ^ b or s[4 * k + 1] != f1 ^ b or s[4 * k + 2] != f2 ^ g3[b] or s[4 * k + 3] != f3 ^ g2[b]:
                            if len(fails) < 50:
                                fails.append(("mixcolumns", ["mix_columns", k, a0, a1, a2, b], f"MixColumns({[a0, a1, a2, b]}) wrong"))
                ev += 256
        outs.add(a0)
    return ev, fails, outs


KEYSIZES = (16, 24, 32)


def key_family(n):
    ks = [bytes(n)]
    for bit in range(n * 8):
        k = bytearray(n)
        k[bit // 8] = 0x80 >> (bit % 8)
        ks.append(bytes(k))
    for b in range(256):
        ks.append(bytes([b]) * n)
    ks.append(bytes(range(n)))
    return ks


def fam_keyschedule(tier):
    m = _m()
    ev = 0
    fails = []
    outs = set()
    ek = _hook(m, "_expand_key")
    if ek is None:      # the same key families are judged black-box by fam_blocks ("varkey")
        return ev, fails, outs
    for n in KEYSIZES:
        for k in key_family(n):
            ev += 1
            got = ek(k)
            exp = R.expand_key(k)
            outs.add(bytes(got[-1]))
            if [bytes(x) for x in got] != exp:
                fails.append(("keyschedule", ["expand_key", n * 8, h(k)], f"AES-{n * 8} key schedule of {h(k)} differs from FIPS-197 (first bad round key {[i for i, (a, b) in enumerate(zip(got, exp)) if bytes(a) != b][:1]})"))
    return ev, fails, outs


def fam_blocks(tier):
    m = _m()
    ev = 0
    fails = []
    outs = set()

    def one(key, pt, tag):
        nonlocal ev
        ev += 1
        bits = len(key) * 8
        exp = R.encrypt_block(pt, key)
        got = _try(fails, ["encrypt", bits, tag], f"AES-{bits} encrypt key={h(key)} pt={h(pt)}", m.aes_ecb_encrypt, key, pt)
        if got is not _NO:
            outs.add(h(got))
            if got != exp:
                fails.append(("block", ["encrypt", bits, tag], f"AES-{bits} encrypt key={h(key)} pt={h(pt)} gives {h(got)}, FIPS-197 gives {h(exp)}"))
        back = _try(fails, ["decrypt", bits, tag], f"AES-{bits} decrypt key={h(key)} ct={h(exp)}", m.aes_ecb_decrypt, key, exp)
        if back is not _NO and back != pt:
            fails.append(("block", ["decrypt", bits, tag], f"AES-{bits} decrypt key={h(key)} ct={h(exp)} gives {h(back)}, expected {h(pt)}"))
    for n in KEYSIZES:
        zero = bytes(n)
        for bit in range(128):          # VarTxt
            pt = bytearray(16)
            pt[bit // 8] = 0x80 >> (bit % 8)
            one(zero, bytes(pt), "vartxt")
        for b in range(256):            # GFSbox-style: every byte value in every column position
            one(zero, bytes([b]) * 16, "gfsbox")
            one(bytes(range(n)), bytes([(b + i) & 0xFF for i in range(16)]), "gfsbox2")
        for k in key_family(n):         # VarKey / KeySbox
            one(k, bytes(16), "varkey")
    for kx, px, cx in R.FIPS197_C:
        ev += 1
        k, p, c = bytes.fromhex(kx), bytes.fromhex(px), bytes.fromhex(cx)
        case = ["fips197", len(k) * 8, "appendixC"]
        e, d = _try(fails, case, "FIPS-197 App. C encrypt", m.aes_ecb_encrypt, k, p), _try(fails, case, "FIPS-197 App. C decrypt", m.aes_ecb_decrypt, k, c)
        if (e is not _NO and e != c) or (d is not _NO and d != p):
            fails.append(("block", case, f"FIPS-197 Appendix C vector for AES-{len(k) * 8} fails"))
        assert R.encrypt_block(p, k) == c, "reference AES broken"
    pt = bytes.fromhex(R.SP800_38A_PT)
    iv = bytes.fromhex(R.SP800_38A_IV)
    for kx, cx in R.SP800_38A_ECB:
        ev += 1
        k, c = bytes.fromhex(kx), bytes.fromhex(cx)
        case = ["sp800-38a", "ecb", len(k) * 8]
        e, d = _try(fails, case, "SP 800-38A ECB encrypt", m.aes_ecb_encrypt, k, pt), _try(fails, case, "SP 800-38A ECB decrypt", m.aes_ecb_decrypt, k, c)
        if (e is not _NO and e != c) or (d is not _NO and d != pt):
            fails.append(("modes", case, f"SP 800-38A ECB-AES{len(k) * 8} vector fails"))
    for kx, cx in R.SP800_38A_CBC:
        ev += 1
        k, c = bytes.fromhex(kx), bytes.fromhex(cx)
        case = ["sp800-38a", "cbc", len(k) * 8]
        e, d = _try(fails, case, "SP 800-38A CBC encrypt", m.aes_cbc_encrypt, k, iv, pt), _try(fails, case, "SP 800-38A CBC decrypt", m.aes_cbc_decrypt, k, iv, c)
        if (e is not _NO and e != c) or (d is not _NO and d != pt):
            fails.append(("modes", case, f"SP 800-38A CBC-AES{len(k) * 8} vector fails"))
    return ev, fails, outs


def _msg(n, salt=0):
    return bytes(((i * 37 + salt * 101 + 11) & 0xFF) for i in range(n))


def fam_modes(tier):
    m = _m()
    ev = 0
    fails = []
    outs = set()
    for n in KEYSIZES:
        key = _msg(n, 3)
        for ivs in (0, 1):
            iv = bytes(16) if ivs == 0 else _msg(16, 9)
            for blocks in range(0, 5):
                for salt in range(4):
                    data = _msg(16 * blocks, salt)
                    ev += 1
                    tag = f"AES-{n * 8}, {'zero' if ivs == 0 else 'non-zero'} IV, {blocks} blocks"
                    e = _try(fails, ["ecb_encrypt", n * 8, blocks], f"ECB encrypt ({tag})", m.aes_ecb_encrypt, key, data)
                    if e is not _NO:
                        outs.add(h(e))
                        if e != R.ecb_encrypt(key, data):
                            fails.append(("modes", ["ecb_encrypt", n * 8, blocks], f"ECB encrypt of {blocks} blocks differs"))
                        d = _try(fails, ["ecb_roundtrip", n * 8, blocks], f"ECB decrypt of the library's ciphertext ({tag})", m.aes_ecb_decrypt, key, e)
                        if d is not _NO and d != data:
                            fails.append(("modes", ["ecb_roundtrip", n * 8, blocks], f"ECB decrypt(encrypt(x)) != x for {blocks} blocks"))
                    d = _try(fails, ["ecb_decrypt", n * 8, blocks], f"ECB decrypt of the reference ciphertext ({tag})", m.aes_ecb_decrypt, key, R.ecb_encrypt(key, data))
                    if d is not _NO and d != data:
                        fails.append(("modes", ["ecb_decrypt", n * 8, blocks], f"ECB decrypt of reference ciphertext differs ({blocks} blocks)"))
                    c = _try(fails, ["cbc_encrypt", n * 8, blocks], f"CBC encrypt ({tag})", m.aes_cbc_encrypt, key, iv, data)
                    if c is not _NO:
                        if c != R.cbc_encrypt(key, iv, data):
                            fails.append(("modes", ["cbc_encrypt", n * 8, blocks], f"CBC encrypt of {blocks} blocks differs"))
                        d = _try(fails, ["cbc_roundtrip", n * 8, blocks], f"CBC decrypt of the library's ciphertext ({tag})", m.aes_cbc_decrypt, key, iv, c)
                        if d is not _NO and d != data:
                            fails.append(("modes", ["cbc_roundtrip", n * 8, blocks], f"CBC decrypt(encrypt(x)) != x for {blocks} blocks"))
                    d = _try(fails, ["cbc_decrypt", n * 8, blocks], f"CBC decrypt of the reference ciphertext ({tag})", m.aes_cbc_decrypt, key, iv, R.cbc_encrypt(key, iv, data))
                    if d is not _NO and d != data:
                        fails.append(("modes", ["cbc_decrypt", n * 8, blocks], f"CBC decrypt of reference ciphertext differs ({blocks} blocks)"))
                    # inputs must not be modified and memoryview/bytearray inputs accepted
                    ba = bytearray(data)
                    c2 = _try(fails, ["cbc_bytearray", n * 8, blocks], f"CBC encrypt of a bytearray ({tag})", m.aes_cbc_encrypt, key, iv, ba)
                    if c2 is not _NO and (c2 != R.cbc_encrypt(key, iv, data) or bytes(ba) != data):
                        fails.append(("modes", ["cbc_bytearray", n * 8, blocks], "bytearray input handled differently / modified"))
    return ev, fails, outs


def fam_lengths(tier):
    m = _m()
    ev = 0
    fails = []
    outs = set()
    good_key = _msg(16, 1)
    iv = bytes(16)
    for klen in range(0, 41):
        key = _msg(klen, 5)
        for fn, call in (("aes_ecb_encrypt", lambda: m.aes_ecb_encrypt(key, bytes(16))), ("aes_ecb_decrypt", lambda: m.aes_ecb_decrypt(key, bytes(16))),
                         ("aes_cbc_encrypt", lambda: m.aes_cbc_encrypt(key, iv, bytes(16))), ("aes_cbc_decrypt", lambda: m.aes_cbc_decrypt(key, iv, bytes(16)))):
            ev += 1
            try:
                call()
                ok = True
            except ValueError:
                ok = False
            except Exception as e:  # noqa
                fails.append(("lengths", ["keylen", fn, klen], f"{fn} with {klen}-byte key raised {type(e).__name__}, not ValueError"))
                continue
            outs.add((fn, ok))
            if ok != (klen in (16, 24, 32)):
                fails.append(("lengths", ["keylen", fn, klen], f"{fn} with {klen}-byte key: accepted={ok}"))
    for dlen in range(0, 65):
        data = _msg(dlen)
        for fn, call in (("aes_ecb_encrypt", lambda: m.aes_ecb_encrypt(good_key, data)), ("aes_ecb_decrypt", lambda: m.aes_ecb_decrypt(good_key, data)),
                         ("aes_cbc_encrypt", lambda: m.aes_cbc_encrypt(good_key, iv, data)), ("aes_cbc_decrypt", lambda: m.aes_cbc_decrypt(good_key, iv, data))):
            ev += 1
            try:
                r = call()
                ok = True
            except ValueError:
                ok = False
            except Exception as e:  # noqa
                fails.append(("lengths", ["datalen", fn, dlen], f"{fn} with {dlen}-byte data raised {type(e).__name__}, not ValueError"))
                continue
            if ok != (dlen % 16 == 0):
                fails.append(("lengths", ["datalen", fn, dlen], f"{fn} with {dlen}-byte data: accepted={ok}"))
            elif ok and len(r) != dlen:
                fails.append(("lengths", ["datalen", fn, dlen], f"{fn} returned {len(r)} bytes for {dlen}"))
    for ivlen in range(0, 33):
        for fn in ("aes_cbc_encrypt", "aes_cbc_decrypt"):
            ev += 1
            try:
                getattr(m, fn)(good_key, bytes(ivlen), bytes(32))
                ok = True
            except ValueError:
                ok = False
            except Exception as e:  # noqa
                fails.append(("lengths", ["ivlen", fn, ivlen], f"{fn} with {ivlen}-byte IV raised {type(e).__name__}"))
                continue
            if ok != (ivlen == 16):
                fails.append(("lengths", ["ivlen", fn, ivlen], f"{fn} with {ivlen}-byte IV: accepted={ok}"))
    return ev, fails, outs


def fam_wrapper(tier):
    m = _m()
    ev = 0
    fails = []
    outs = set()
    applied = _try(fails, ["patch", "notapplied", 0], "patch_pypdf_fallback_aes()", m.patch_pypdf_fallback_aes)
    if applied is _NO:
        return 1, fails, outs
    if not applied:
        return 1, [("wrapper", ["patch", "notapplied", 0], "patch_pypdf_fallback_aes() returned False: no fallback provider")], outs
    import pypdf._crypt_providers._fallback as fb
    import pypdf._encryption as enc
    import pypdf._crypt_providers as prov
    if enc.CryptAES is not fb.CryptAES or prov.CryptAES is not fb.CryptAES or enc.aes_cbc_decrypt is not m.aes_cbc_decrypt:
        fails.append(("wrapper", ["patch", "bindings", 0], "pypdf bindings not all patched"))
    _try(fails, ["patch", "again", 0], "second patch_pypdf_fallback_aes()", m.patch_pypdf_fallback_aes)   # idempotent
    for n in KEYSIZES:
        key = _msg(n, 7)
        for ln in range(0, 65):
            msg = _msg(ln, n)
            ev += 1
            c = fb.CryptAES(key)
            ct = _try(fails, ["encrypt_len", n * 8, ln], f"CryptAES(AES-{n * 8} key).encrypt({ln} bytes)", c.encrypt, msg)
            ct2 = _try(fails, ["encrypt_len", n * 8, ln], f"CryptAES(AES-{n * 8} key).encrypt({ln} bytes), second call", c.encrypt, msg)
            if ct is _NO or ct2 is _NO:
                continue
            padn = 16 - ln % 16
            if not isinstance(ct, (bytes, bytearray)) or len(ct) != 16 + ln + padn:
                fails.append(("wrapper", ["encrypt_len", n * 8, ln], f"encrypt({ln} bytes) gives {len(ct) if hasattr(ct, '__len__') else type(ct).__name__} bytes, expected IV + {ln + padn}"))
                continue
            ivx = ct[:16]
            if ivx == ct2[:16]:
                fails.append(("wrapper", ["fresh_iv", n * 8, ln], "two encryptions used the same IV"))
            plain = R.cbc_decrypt(key, ivx, ct[16:])
            outs.add((ln, plain[-1]))
            if plain != msg + bytes([padn]) * padn:
                fails.append(("wrapper", ["encrypt_pad", n * 8, ln], f"ciphertext of a {ln}-byte message decrypts (reference) to {h(plain[-16:])}: wrong PKCS#7 padding / data"))
            try:
                back = c.decrypt(ct)
            except Exception as e:  # noqa
                back = None
                fails.append(("wrapper", ["roundtrip", n * 8, ln % 16], f"decrypt(encrypt(m)) raised {type(e).__name__}: {e} for len {ln}"))
            if back is not None and back != msg:
                fails.append(("wrapper", ["roundtrip", n * 8, ln % 16], f"decrypt(encrypt(m)) != m for len {ln}: got {h(back)[:80]}"))
            # reference-produced ciphertext (every padding byte value 1..16 occurs over ln = 0..64)
            iv = _msg(16, ln)
            rct = iv + R.cbc_encrypt(key, iv, msg + bytes([padn]) * padn)
            try:
                back = fb.CryptAES(key).decrypt(rct)
            except Exception as e:  # noqa
                fails.append(("wrapper", ["decrypt_ref", n * 8, ln % 16], f"decrypt of reference ciphertext (len {ln}, pad {padn}) raised {type(e).__name__}: {e}"))
                continue
            if back != msg:
                fails.append(("wrapper", ["decrypt_ref", n * 8, ln % 16], f"decrypt of reference ciphertext (len {ln}, pad {padn}) returns {h(back)[:80]}"))
    # wrong key lengths are rejected through the wrapper too (every key length 0..40, both directions, each call made twice in a row)
    msg = _msg(21, 4)
    for klen in range(0, 41):
        key = _msg(klen, 6)
        legal = klen in KEYSIZES
        iv = _msg(16, klen)
        blob = iv + (R.cbc_encrypt(key, iv, msg + bytes([11]) * 11) if legal else _msg(32, klen))
        for fn, arg in (("encrypt", msg), ("decrypt", blob)):
            for rep in (1, 2):
                ev += 1
                try:
                    r = getattr(fb.CryptAES(key), fn)(arg)
                    ok = True
                except ValueError:
                    ok = False
                except Exception as e:  # noqa
                    fails.append(("wrapper", ["wrap_keylen", fn, klen], f"CryptAES({klen}-byte key).{fn} raised {type(e).__name__}, not ValueError"))
                    continue
                outs.add((fn, ok))
                if ok != legal:
                    fails.append(("wrapper", ["wrap_keylen", fn, klen], f"CryptAES({klen}-byte key).{fn} (call {rep}): accepted={ok}"))
                elif ok and fn == "decrypt" and r != msg:
                    fails.append(("wrapper", ["wrap_keylen", fn, klen], f"CryptAES({klen}-byte key).decrypt of a reference ciphertext returns {h(r)[:80]}"))
    return ev, fails, outs


# ------------------------------------------------------------------ block-relation patterns and IV alphabet (mode drivers, black-box)


class _Ref:
    """ECB / CBC over the reference block cipher with the block results memoised per (direction, key, block): the reference costs
    1-2 ms per block and the pattern families reuse the same blocks / chain prefixes thousands of times."""

    def __init__(self):
        self.memo = {}

    def enc(self, key, blk):
        k = (0, key, blk)
        if k not in self.memo:
            self.memo[k] = R.encrypt_block(blk, key)
        return self.memo[k]

    def dec(self, key, blk):
        k = (1, key, blk)
        if k not in self.memo:
            self.memo[k] = R.decrypt_block(blk, key)
        return self.memo[k]

    def run(self, fn, key, iv, data):
        blocks = [data[i:i + 16] for i in range(0, len(data), 16)]
        if fn == "aes_ecb_encrypt":
            return b"".join(self.enc(key, b) for b in blocks)
        if fn == "aes_ecb_decrypt":
            return b"".join(self.dec(key, b) for b in blocks)
        out = []
        prev = iv
        for b in blocks:
            if fn == "aes_cbc_encrypt":
                prev = self.enc(key, bytes(x ^ y for x, y in zip(b, prev)))
                out.append(prev)
            else:
                out.append(bytes(x ^ y for x, y in zip(self.dec(key, b), prev)))
                prev = b
        return b"".join(out)


_INVERSE = {"aes_ecb_encrypt": "aes_ecb_decrypt", "aes_ecb_decrypt": "aes_ecb_encrypt",
            "aes_cbc_encrypt": "aes_cbc_decrypt", "aes_cbc_decrypt": "aes_cbc_encrypt"}
ASSIGN_Q = ("det", "zero0")
ASSIGN_T = ("det", "zero0", "ff0", "lo0")
SIDES = ("in", "out")


def rgs(n):
    """all restricted-growth strings of length n = all set partitions of n positions = all equality patterns among n blocks"""
    def go(prefix, mx):
        if len(prefix) == n:
            yield list(prefix)
            return
        for v in range(mx + 2):
            yield from go(prefix + [v], max(mx, v))
    if n == 0:
        yield []
    else:
        yield from go([0], 0)


def _renorm(pat):
    names = {}
    return [names.setdefault(v, len(names)) for v in pat]


def _sym_block(assign, sym):
    """the 16-byte value of pattern symbol `sym`: distinct pseudo-data blocks; symbol 0 optionally the all-zero / all-FF / 00..01 block
    (distinct from every data block by construction of _msg: an arithmetic progression with odd step)"""
    if sym == 0 and assign != "det":
        return {"zero0": bytes(16), "ff0": b"\xff" * 16, "lo0": bytes(15) + b"\x01"}[assign]
    return _msg(16, 40 + sym + _seed())


def _pattern_key(bits):
    return _msg(bits // 8, 13 + _seed())


def run_pattern(m, ref, fn, bits, side, assign, pat):
    """One pattern case -> [(clause, msg)].  fn ECB: `pat` are the symbols of the n message blocks; fn CBC: pat[0] is the IV's symbol,
    pat[1:] the message blocks (so the IV may equal a message block).  side "in": the pattern is the call's INPUT (plaintext blocks
    for encrypt, ciphertext blocks for decrypt); side "out": the pattern is the call's expected OUTPUT (the input is the reference
    inverse of it).  The result must be the reference result (hence decrypt inverts encrypt on these messages)."""
    key = _pattern_key(bits)
    cbc = "cbc" in fn
    if cbc and not pat:
        return []
    blocks = [_sym_block(assign, v) for v in pat]
    iv = blocks[0] if cbc else None
    body = b"".join(blocks[1:] if cbc else blocks)
    if side == "in":
        data, exp = body, ref.run(fn, key, iv, body)
    else:
        data, exp = ref.run(_INVERSE[fn], key, iv, body), body
    desc = f"{fn}(AES-{bits} key, {'IV ' + h(iv) + ', ' if cbc else ''}{len(data) // 16} blocks; block pattern {''.join(map(str, pat))} on the {'input' if side == 'in' else 'output'}, symbol 0 = {assign})"
    try:
        got = getattr(m, fn)(key, iv, data) if cbc else getattr(m, fn)(key, data)
    except Exception as e:  # noqa
        return [("raises", f"{desc} raised {type(e).__name__}: {e} (arguments are legal)")]
    if got != exp:
        bad = [i for i in range(len(exp) // 16) if not isinstance(got, (bytes, bytearray)) or got[16 * i:16 * i + 16] != exp[16 * i:16 * i + 16]]
        return [("modes", f"{desc} returns {h(got)[:160]}, FIPS-197/SP 800-38A give {h(exp)[:160]} (wrong blocks {bad}, {len(got) if hasattr(got, '__len__') else '?'} bytes)")]
    return []


def fam_patterns(arg):
    """every equality pattern among the blocks of a message (all set partitions of the block positions; CBC: of IV + blocks) up to
    `maxpos` positions x the given functions x sides x symbol assignments, for one key size"""
    mode, bits, maxpos, fns, assigns = arg
    m = _m()
    ref = _Ref()
    ev = 0
    fails = []
    outs = set()
    for npos in range(1 if mode == "cbc" else 0, maxpos + 1):
        for pat in rgs(npos):
            for fn in fns:
                for side in SIDES:
                    for assign in assigns:
                        ev += 1
                        for clause, msg in run_pattern(m, ref, fn, bits, side, assign, pat):
                            fails.append((clause, ["pattern", fn, bits, side, assign, list(pat)], msg))
            outs.add((mode, tuple(pat)))
    return ev, fails, outs


def iv_alphabet(tier):
    """IV names: zero, ff, every single set bit, every single FF byte; thorough: every byte value at every byte position"""
    names = ["zero", "ff"] + [f"bit:{b}" for b in range(128)] + [f"byte:{p}" for p in range(16)]
    if tier != "quick":
        names += [f"val:{p}:{v}" for p in range(16) for v in range(1, 255)]
    return names


def _iv_value(name):
    if name == "zero":
        return bytes(16)
    if name == "ff":
        return b"\xff" * 16
    parts = name.split(":")
    iv = bytearray(16)
    if parts[0] == "bit":
        iv[int(parts[1]) // 8] = 0x80 >> (int(parts[1]) % 8)
    elif parts[0] == "byte":
        iv[int(parts[1])] = 0xFF
    else:
        iv[int(parts[1])] = int(parts[2])
    return bytes(iv)


def run_iv(m, ref, fn, bits, name, nblocks):
    key = _pattern_key(bits)
    iv = _iv_value(name)
    data = _msg(16 * nblocks, 60 + _seed())
    exp = ref.run(fn, key, iv, data)
    desc = f"{fn}(AES-{bits} key, IV {h(iv)}, {nblocks} blocks)"
    try:
        got = getattr(m, fn)(key, iv, data)
    except Exception as e:  # noqa
        return [("raises", f"{desc} raised {type(e).__name__}: {e} (arguments are legal)")]
    if got != exp:
        return [("modes", f"{desc} returns {h(got)[:96]}, SP 800-38A gives {h(exp)[:96]}")]
    return []


def fam_ivs(arg):
    """CBC with every IV of the IV alphabet x message lengths 0..maxblocks blocks (the EMPTY message included) x both directions"""
    bits, tier, maxblocks = arg
    m = _m()
    ref = _Ref()
    ev = 0
    fails = []
    outs = set()
    for name in iv_alphabet(tier):
        for nblocks in range(maxblocks + 1):
            for fn in FNS[2:]:
                ev += 1
                for clause, msg in run_iv(m, ref, fn, bits, name, nblocks):
                    fails.append((clause, ["iv", fn, bits, name, nblocks], msg))
        outs.add(name)
    return ev, fails, outs


# ------------------------------------------------------------------ long messages (position- / length-dependent behaviour), black-box

_LONG_MULT = 0x9E3779B97F4A7C15F39CC0605CEDC835      # odd: i -> i * _LONG_MULT mod 2^128 is a bijection, so all blocks are distinct
LONG_MAX = 8193


def long_lengths(tier):
    """block counts: every count 0..C and the neighbours of every power of two 2^3..2^K"""
    c, k = (40, 9) if tier == "quick" else (520, 13)
    return sorted(set(range(c + 1)) | {(1 << e) + d for e in range(3, k + 1) for d in (-1, 0, 1)})


def wraplong_lengths(tier):
    """byte lengths of wrapper messages: the neighbours of every power of two 2^7..2^K"""
    k = 12 if tier == "quick" else 15
    return sorted({(1 << e) + d for e in range(7, k + 1) for d in (-1, 0, 1)})


_LONG_DATA = {}


def _long_data(nbytes):
    """the first `nbytes` bytes of the long-message data stream (pairwise distinct 16-byte blocks, no period)"""
    s = _seed()
    have = _LONG_DATA.get(s, b"")
    if len(have) < nbytes:
        nb = (nbytes + 15) // 16
        have = b"".join((((i + 1 + 7919 * s) * _LONG_MULT) & ((1 << 128) - 1)).to_bytes(16, "big") for i in range(nb))
        _LONG_DATA[s] = have
    return have[:nbytes]


def _long_iv():
    return _msg(16, 70 + _seed())


def run_long(m, ref, fn, bits, nblocks):
    """One long-message case -> [(clause, msg)]: fn(key, [iv,] first nblocks blocks of the data stream) == reference, and the inverse
    function gives the input back."""
    key = _pattern_key(bits)
    cbc = "cbc" in fn
    iv = _long_iv() if cbc else None
    data = _long_data(16 * nblocks)
    exp = ref.run(fn, key, iv, data)
    desc = f"{fn}(AES-{bits} key, {'IV ' + h(iv) + ', ' if cbc else ''}{nblocks} distinct blocks = {16 * nblocks} bytes)"
    try:
        got = getattr(m, fn)(key, iv, data) if cbc else getattr(m, fn)(key, data)
    except Exception as e:  # noqa
        return [("raises", f"{desc} raised {type(e).__name__}: {e} (arguments are legal)")]
    if got != exp:
        ok = isinstance(got, (bytes, bytearray))
        bad = [i for i in range(nblocks) if not ok or got[16 * i:16 * i + 16] != exp[16 * i:16 * i + 16]]
        return [("modes", f"{desc}: result differs from FIPS-197/SP 800-38A in {len(bad)} block(s), first wrong block index {bad[:1]} "
                          f"({len(got) if hasattr(got, '__len__') else '?'} bytes returned, {len(exp)} expected)")]
    inv = _INVERSE[fn]
    try:
        back = getattr(m, inv)(key, iv, got) if cbc else getattr(m, inv)(key, got)
    except Exception as e:  # noqa
        return [("raises", f"{inv} applied to the result of {desc} raised {type(e).__name__}: {e} (arguments are legal)")]
    if back != data:
        return [("modes", f"{inv} does not invert {desc}")]
    return []


def fam_long(arg):
    """one function x one key size x every block count of `lengths`"""
    bits, fn, lengths = arg
    m = _m()
    ref = _Ref()
    ev = 0
    fails = []
    outs = set()
    for nb in lengths:
        ev += 1
        for clause, msg in run_long(m, ref, fn, bits, nb):
            fails.append((clause, ["long", fn, bits, nb], msg))
        outs.add(nb)
    return ev, fails, outs


def _wrap_provider(m):
    if not m.patch_pypdf_fallback_aes():
        return None
    import pypdf._crypt_providers._fallback as fb
    return fb


def run_wraplong(m, ref, bits, ln):
    """CryptAES on the first `ln` bytes of the data stream -> [(clause, msg)] (oracle of family `wrapper`)"""
    try:
        fb = _wrap_provider(m)
    except Exception as e:  # noqa
        return [("raises", f"patch_pypdf_fallback_aes() raised {type(e).__name__}: {e}")]
    if fb is None:
        return [("wrapper", "patch_pypdf_fallback_aes() returned False: no fallback provider")]
    key = _pattern_key(bits)
    msg = _long_data(ln)
    padn = 16 - ln % 16
    padded = msg + bytes([padn]) * padn
    desc = f"CryptAES(AES-{bits} key) on a {ln}-byte message"
    out = []
    try:
        c = fb.CryptAES(key)
        ct = c.encrypt(msg)
    except Exception as e:  # noqa
        ct = None
        out.append(("raises", f"{desc}: encrypt raised {type(e).__name__}: {e} (arguments are legal)"))
    if ct is not None:
        if not isinstance(ct, (bytes, bytearray)) or len(ct) != 16 + len(padded):
            out.append(("wrapper", f"{desc}: encrypt gives {len(ct) if hasattr(ct, '__len__') else type(ct).__name__} bytes, expected IV + {len(padded)}"))
        else:
            plain = R.cbc_decrypt(key, bytes(ct[:16]), bytes(ct[16:]))
            if plain != padded:
                bad = [i for i in range(len(padded) // 16) if plain[16 * i:16 * i + 16] != padded[16 * i:16 * i + 16]]
                out.append(("wrapper", f"{desc}: the ciphertext decrypts (reference) to something else than message + PKCS#7 padding "
                                       f"({len(bad)} wrong block(s), first {bad[:1]})"))
            try:
                back = c.decrypt(ct)
                if back != msg:
                    out.append(("wrapper", f"{desc}: decrypt(encrypt(m)) != m ({len(back) if hasattr(back, '__len__') else '?'} bytes returned)"))
            except Exception as e:  # noqa
                out.append(("wrapper", f"{desc}: decrypt(encrypt(m)) raised {type(e).__name__}: {e}"))
    iv = _long_iv()
    rct = iv + ref.run("aes_cbc_encrypt", key, iv, padded)
    try:
        back = fb.CryptAES(key).decrypt(rct)
        if back != msg:
            out.append(("wrapper", f"{desc}: decrypt of the reference ciphertext (pad {padn}) returns {len(back) if hasattr(back, '__len__') else '?'} bytes != message"))
    except Exception as e:  # noqa
        out.append(("wrapper", f"{desc}: decrypt of the reference ciphertext (pad {padn}) raised {type(e).__name__}: {e}"))
    return out


def fam_wraplong(arg):
    bits, lengths = arg
    m = _m()
    ref = _Ref()
    ev = 0
    fails = []
    outs = set()
    for ln in lengths:
        ev += 1
        for clause, msg in run_wraplong(m, ref, bits, ln):
            fails.append((clause, ["wraplong", bits, ln], msg))
        outs.add(ln)
    return ev, fails, outs


# ------------------------------------------------------------------ histories (state between calls), black-box, from a fresh module


def _cache_keys():
    s = _seed()
    return [bytes([(i + 1 + s) & 0xFF]) * 16 for i in range(3)] + [bytes([(9 + s) & 0xFF]) * 24, bytes([(7 + s) & 0xFF]) * 32]


def _run_cache_seq(seq, keys, pt, exp):
    """one key-use sequence from a fresh module (always the executed source, never the clone); returns [(clause, case, msg)]"""
    fm = _exec_fresh()
    out = []
    for j, ki in enumerate(seq):
        try:
            got = fm.aes_ecb_encrypt(keys[ki], pt)
        except Exception as e:  # noqa
            out.append(("cache", ["cache", list(seq[:j + 1])], f"key-use sequence {tuple(seq[:j + 1])} raised {type(e).__name__}: {e}"))
            break
        if got != exp[ki]:
            out.append(("cache", ["cache", list(seq[:j + 1])], f"after key-use sequence {tuple(seq[:j + 1])} the ciphertext is wrong"))
            break
    cache = getattr(fm, "_ROUND_KEY_CACHE", None)     # optional peek: bounded memo
    n = None
    if cache is not None and hasattr(cache, "__len__"):
        n = len(cache)
        cap = getattr(fm, "_ROUND_KEY_CACHE_MAX", 4)
        if isinstance(cap, int) and n > max(cap, 4):
            out.append(("cache", ["cache_size", list(seq)], f"cache holds {n} > {max(cap, 4)} keys"))
    return out, n


def fam_cache(arg):
    """all key-use sequences of length L over 5 keys starting with `prefix` (every prefix judged): results equal the uncached computation"""
    L, prefix = arg
    keys = _cache_keys()
    pt = _msg(16, 2)
    exp = [R.encrypt_block(pt, k) for k in keys]
    ev = 0
    fails = []
    seen = set()
    outs = set()
    for rest in itertools.product(range(5), repeat=L - len(prefix)):
        seq = tuple(prefix) + rest
        ev += 1
        res, n = _run_cache_seq(seq, keys, pt, exp)
        outs.add((n, len(set(seq))))
        for c, cs, msg in res:
            k = repr(cs)
            if k not in seen:
                seen.add(k)
                fails.append((c, cs, msg))
    return ev, fails, outs


FNS = ("aes_ecb_encrypt", "aes_ecb_decrypt", "aes_cbc_encrypt", "aes_cbc_decrypt")
LEGAL_Q = ("k16a", "k24", "k32")
ILLEGAL_Q = ("b0", "b15p", "b17x", "b48x")
LEGAL_T = ("k16a", "k16b", "k24", "k32")
ILLEGAL_T = ("b0", "b1", "b15p", "b17x", "b23p", "b25x", "b33x", "b48x")


def _hist_keys():
    s = _seed()
    k = {"k16a": _msg(16, 21 + s), "k16b": _msg(16, 22 + s), "k24": _msg(24, 23 + s), "k32": _msg(32, 24 + s)}
    k.update({"b0": b"", "b1": _msg(1, 25 + s), "b15p": k["k16a"][:15], "b17x": k["k16a"] + _msg(1, 26 + s), "b23p": k["k24"][:23],
              "b25x": k["k24"] + _msg(1, 27 + s), "b33x": k["k32"] + _msg(1, 28 + s), "b48x": k["k32"] + k["k16a"]})
    return k


def hist_alphabet(name):
    """call tokens [fn, key name, shape]; shape: ok | data15 (15-byte data) | iv15 (15-byte IV, CBC only)"""
    legal, illegal, short_with = (LEGAL_Q, ILLEGAL_Q, ("k16a",)) if name == "quick" else (LEGAL_T, ILLEGAL_T, LEGAL_T)
    toks = [[fn, k, "ok"] for fn in FNS for k in legal + illegal]
    toks += [[fn, k, "data15"] for fn in FNS for k in short_with]
    toks += [[fn, k, "iv15"] for fn in FNS[2:] for k in short_with]
    return toks


def _hist_expect(tok, keys):
    """-> (args, expected) ; expected = None for 'must raise ValueError', else the reference result"""
    fn, kn, shape = tok
    key = keys[kn]
    s = _seed()
    data = _msg(15 if shape == "data15" else 16, 31 + s)
    iv = _msg(15 if shape == "iv15" else 16, 32 + s)
    args = (key, iv, data) if "cbc" in fn else (key, data)
    if len(key) not in KEYSIZES or shape != "ok":
        return args, None
    ref = {"aes_ecb_encrypt": R.ecb_encrypt, "aes_ecb_decrypt": R.ecb_decrypt, "aes_cbc_encrypt": R.cbc_encrypt, "aes_cbc_decrypt": R.cbc_decrypt}[fn]
    return args, ref(*args)


def _run_history(seq, table):
    """seq: list of tokens; table: {token tuple: (args, expected)}. From a fresh module; stops at the first failing step.
    returns (clause, case, msg) or None"""
    fm = fresh()

    def bad(j, text):
        pre = [list(t) for t in seq[:j + 1]]
        return ("history", ["history", pre], f"step {j + 1} of {[' '.join(t) for t in pre]}: {text}")
    for j, tok in enumerate(seq):
        args, exp = table[tuple(tok)]
        try:
            got = getattr(fm, tok[0])(*args)
        except ValueError as e:
            if exp is not None:
                return bad(j, f"legal call raised ValueError: {e}")
            continue
        except Exception as e:  # noqa
            return bad(j, f"raised {type(e).__name__} ({e}), " + ("not ValueError" if exp is None else "arguments are legal"))
        if exp is None:
            return bad(j, f"call with a wrong-length {'key' if tok[2] == 'ok' else tok[2]} was accepted (returned {h(got)[:32]})")
        if got != exp:
            return bad(j, f"returned {h(got)[:32]}, FIPS-197 gives {h(exp)[:32]}")
    return None


def fam_history(arg):
    """all call histories of length L over alphabet `name` that start with `prefix` (token indices)"""
    name, L, prefix = arg
    toks = hist_alphabet(name)
    keys = _hist_keys()
    table = {tuple(t): _hist_expect(t, keys) for t in toks}
    ev = 0
    fails = []
    bad_prefixes = set()
    outs = set()
    for rest in itertools.product(range(len(toks)), repeat=L - len(prefix)):
        idx = tuple(prefix) + rest
        if any(idx[:n] in bad_prefixes for n in range(1, L + 1)):
            continue
        ev += 1
        seq = [toks[i] for i in idx]
        r = _run_history(seq, table)
        outs.add(tuple(table[tuple(t)][1] is None for t in seq))
        if r is not None:
            bad_prefixes.add(idx[:len(r[1][1])])
            fails.append(r)
    return ev, fails, outs


FAMS = {"tables": fam_tables, "gfmul": fam_gfmul, "shiftrows": fam_shiftrows, "mix_small": fam_mix_small, "mix_full": fam_mix_full,
        "keyschedule": fam_keyschedule, "blocks": fam_blocks, "modes": fam_modes, "lengths": fam_lengths, "wrapper": fam_wrapper,
        "cache": fam_cache, "history": fam_history, "patterns": fam_patterns, "ivs": fam_ivs, "long": fam_long, "wraplong": fam_wraplong}


def _task(arg):
    name, a = arg
    _ABSENT.clear()
    ev, fails, outs = FAMS[name](a)
    return {"name": name, "ev": ev, "fails": fails[:500], "nfails": len(fails), "outs": len(outs), "absent": sorted(_ABSENT)}


_REEXEC_REF = _Ref()      # reference block results are a pure function of (key, block): shared by the re-executions of long cases


def reexec(fmt, case):
    """Re-run the case (histories: exactly that sequence from a fresh module; others: the family the case belongs to)."""
    if case[0] == "history":
        seq = [list(t) for t in case[1]]
        if not seq:
            return []
        keys = _hist_keys()
        known = {tuple(t) for t in hist_alphabet("quick") + hist_alphabet("thorough")}
        if any(tuple(t) not in known for t in seq):
            return []
        table = {tuple(t): _hist_expect(t, keys) for t in seq}
        r = _run_history(seq, table)
        return [(r[0], r[2])] if r is not None and r[1][1] == seq else []
    if case[0] == "pattern":
        _, fn, bits, side, assign, pat = case
        if fn not in FNS or bits not in (128, 192, 256) or side not in SIDES or assign not in ASSIGN_T or list(pat) != _renorm(pat):
            return []
        return run_pattern(_m(), _Ref(), fn, bits, side, assign, list(pat))
    if case[0] == "iv":
        _, fn, bits, name, nblocks = case
        if fn not in FNS[2:] or bits not in (128, 192, 256) or name not in set(iv_alphabet("thorough")) or not 0 <= nblocks <= 8:
            return []
        return run_iv(_m(), _Ref(), fn, bits, name, nblocks)
    if case[0] == "long":
        _, fn, bits, nb = case
        if fn not in FNS or bits not in (128, 192, 256) or not isinstance(nb, int) or not 0 <= nb <= LONG_MAX:
            return []
        return run_long(_m(), _REEXEC_REF, fn, bits, nb)
    if case[0] == "wraplong":
        _, bits, ln = case
        if bits not in (128, 192, 256) or not isinstance(ln, int) or not 0 <= ln <= 16 * LONG_MAX:
            return []
        return run_wraplong(_m(), _REEXEC_REF, bits, ln)
    if case[0] in ("cache", "cache_size"):
        seq = list(case[1])
        if not seq:
            return []
        keys = _cache_keys()
        pt = _msg(16, 2)
        res, _ = _run_cache_seq(seq, keys, pt, [R.encrypt_block(pt, k) for k in keys])
        return [(c, msg) for c, cs, msg in res if cs == case]
    fam = {"table": "tables", "gfmul": "gfmul", "shift_rows": "shiftrows", "inv_shift_rows": "shiftrows", "shift_inverse": "shiftrows",
           "expand_key": "keyschedule", "encrypt": "blocks", "decrypt": "blocks", "fips197": "blocks", "sp800-38a": "blocks",
           "keylen": "lengths", "datalen": "lengths", "ivlen": "lengths",
           "mix_columns": None, "inv_mix_columns": None, "mix_inverse": None}.get(case[0], "__")
    if fam is None:
        m = _m()
        fails = []
        col = case[2:6]
        k = case[1]
        cols = [[0, 0, 0, 0]] * 4
        cols = [list(c) for c in cols]
        cols[k] = list(col)
        _mix_check(m, cols, fails, set())
        return [(c, msg) for c, cs, msg in fails]
    if fam == "__":
        fam = {"ecb_encrypt": "modes", "ecb_roundtrip": "modes", "cbc_encrypt": "modes", "cbc_roundtrip": "modes", "cbc_decrypt": "modes",
               "cbc_bytearray": "modes", "ecb_decrypt": "modes"}.get(case[0], "wrapper")
    ev, fails, _ = FAMS[fam]("quick")
    return [(c, msg) for c, cs, msg in fails if cs == case]


def shrinks(case):
    """histories / key-use sequences: drop one step (later steps first, so that the failing last step is kept as long as possible)"""
    if case[0] in ("history", "cache", "cache_size") and isinstance(case[1], list):
        seq = case[1]
        for i in range(len(seq) - 2, -1, -1):
            yield [case[0], seq[:i] + seq[i + 1:]]
    if case[0] == "pattern":
        # drop one block (never the IV position of a CBC pattern), later blocks first; then the plainest symbol assignment / key size
        _, fn, bits, side, assign, pat = case
        for i in range(len(pat) - 1, 0 if "cbc" in fn else -1, -1):
            yield ["pattern", fn, bits, side, assign, _renorm(pat[:i] + pat[i + 1:])]
        if assign != "det":
            yield ["pattern", fn, bits, side, "det", pat]
        if bits != 128:
            yield ["pattern", fn, 128, side, assign, pat]
    if case[0] == "iv":
        _, fn, bits, name, nblocks = case
        for nb in range(nblocks):
            yield ["iv", fn, bits, name, nb]
        if bits != 128:
            yield ["iv", fn, 128, name, nblocks]
    if case[0] == "long":
        # shorter message: half, three quarters, one block less; then the smallest key size
        _, fn, bits, nb = case
        for c in sorted({nb // 2, nb * 3 // 4, nb - 1}):
            if 0 <= c < nb:
                yield ["long", fn, bits, c]
        if bits != 128:
            yield ["long", fn, 128, nb]
    if case[0] == "wraplong":
        _, bits, ln = case
        for c in sorted({ln // 2, ln * 3 // 4, ln - 16, ln - 1}):
            if 0 <= c < ln:
                yield ["wraplong", bits, c]
        if bits != 128:
            yield ["wraplong", 128, ln]
    return


def _hist_view(steps):
    """what identifies a history finding: per step the argument shape and WHICH key (legal / wrong-length, numbered by first use);
    function names and the concrete wrong length stay in the case but not in the fingerprint"""
    names = {}
    out = []
    for fn, kn, shape in steps:
        if kn not in names:
            cls = "legal" if kn.startswith("k") else "wrong"
            names[kn] = f"{cls}#{sum(1 for v in names.values() if v.startswith(cls)) + 1}"
        out.append([names[kn], shape])
    return out


def fingerprint_view(case):
    if case and case[0] == "history":
        return ["history", _hist_view(case[1])]
    if case and case[0] == "pattern":       # key size and symbol spelling stay in the case, not in the fingerprint
        return ["pattern", case[1], case[3], case[5]]
    if case and case[0] == "iv":            # the IV class (zero / ff / bit / byte / val), not the position
        return ["iv", case[1], case[3].split(":")[0], case[4]]
    if case and case[0] == "long":          # function and minimal failing length; the key size stays in the case
        return ["long", case[1], case[3]]
    if case and case[0] == "wraplong":
        return ["wraplong", case[2]]
    return case


def embeds(small, big):
    if small[0] != big[0]:
        return False
    if small[0] == "history":
        # same kind of failing last call, and the earlier calls of `small` occur (as the same pattern) in order in `big`
        a, b = small[1], big[1]
        if not a or not b or len(a) > len(b):
            return False
        va = _hist_view(a)
        for pick in itertools.combinations(range(len(b) - 1), len(a) - 1):
            if _hist_view([b[i] for i in pick] + [b[-1]]) == va:
                return True
        return False
    if small[0] == "pattern":
        # same function and side, and the equality pattern of `small` occurs among some of the positions of `big` (CBC: IV kept)
        if small[1] != big[1] or small[3] != big[3] or len(small[5]) > len(big[5]):
            return False
        a, b = small[5], big[5]
        lead = 1 if "cbc" in small[1] else 0
        for pick in itertools.combinations(range(lead, len(b)), len(a) - lead):
            if _renorm([b[i] for i in range(lead)] + [b[i] for i in pick]) == a:
                return True
        return False
    if small[0] == "iv":
        return small[1] == big[1] and small[3].split(":")[0] == big[3].split(":")[0] and small[4] <= big[4]
    if small[0] == "long":                  # same function, a message at least as long
        return small[1] == big[1] and small[3] <= big[3]
    if small[0] == "wraplong":
        return small[2] <= big[2]
    return small[0] != "table" or small[1] == big[1]


def run(ctx):
    tasks = [("tables", ctx.tier), ("gfmul", ctx.tier), ("shiftrows", ctx.tier), ("keyschedule", ctx.tier), ("blocks", ctx.tier),
             ("modes", ctx.tier), ("lengths", ctx.tier), ("wrapper", ctx.tier)]
    nparts = 16
    tasks += [("mix_small", (k, nparts)) for k in range(nparts)]
    L = 5 if ctx.quick else 7
    if ctx.quick:
        tasks += [("cache", (L, (first,))) for first in range(5)]
    else:
        tasks += [("cache", (L, pre)) for pre in itertools.product(range(5), repeat=3)]
    nq = len(hist_alphabet("quick"))
    nt = len(hist_alphabet("thorough"))
    HL = 3 if ctx.quick else 4
    if ctx.quick:
        tasks += [("history", ("quick", 3, (a,))) for a in range(nq)]
        hist_bounds = {"alphabet": f"quick ({nq} calls)", "length": 3, "histories": nq ** 3}
    else:
        tasks += [("history", ("quick", 4, (a, b))) for a in range(nq) for b in range(nq)]
        tasks += [("history", ("thorough", 3, (a,))) for a in range(nt)]
        hist_bounds = {"alphabet": f"quick ({nq} calls) at length 4 + wide ({nt} calls) at length 3", "length": HL, "histories": nq ** 4 + nt ** 3}
    # block-equality patterns (all set partitions of the block positions) and the IV alphabet
    pmax = 5 if ctx.quick else 7
    assigns = ASSIGN_Q if ctx.quick else ASSIGN_T
    for bits in (128, 192, 256):
        if ctx.quick:
            tasks += [("patterns", ("ecb", bits, pmax, FNS[:2], assigns)), ("patterns", ("cbc", bits, pmax, FNS[2:], assigns))]
        else:
            tasks += [("patterns", ("ecb" if "ecb" in fn else "cbc", bits, pmax, (fn,), (a,))) for fn in FNS for a in assigns]
        tasks.append(("ivs", (bits, ctx.tier, 2 if ctx.quick else 3)))
    npat = {"ecb": sum(1 for n in range(0, pmax + 1) for _ in rgs(n)), "cbc": sum(1 for n in range(1, pmax + 1) for _ in rgs(n))}
    pat_bounds = {"ecb_blocks": f"0..{pmax}", "cbc_blocks": f"IV + 0..{pmax - 1}", "patterns_ecb": npat["ecb"], "patterns_cbc": npat["cbc"],
                  "sides": list(SIDES), "symbol_assignments": list(assigns), "key_sizes": [128, 192, 256],
                  "cases": (npat["ecb"] + npat["cbc"]) * 2 * len(SIDES) * len(assigns) * 3}
    iv_bounds = {"ivs": len(iv_alphabet(ctx.tier)), "alphabet": "zero, ff, 128 single bits, 16 single FF bytes" + ("" if ctx.quick else ", 16 x 254 single byte values"),
                 "message_blocks": f"0..{2 if ctx.quick else 3}", "functions": list(FNS[2:]), "key_sizes": [128, 192, 256]}
    ll = long_lengths(ctx.tier)
    wl = wraplong_lengths(ctx.tier)
    for bits in (128, 192, 256):
        tasks += [("long", (bits, fn, tuple(ll))) for fn in FNS]
        tasks.append(("wraplong", (bits, tuple(wl))))
    long_bounds = {"block_counts": f"every 0..{40 if ctx.quick else 520} and 2^k-1, 2^k, 2^k+1 for k = 3..{9 if ctx.quick else 13}", "lengths": len(ll),
                   "max_blocks": ll[-1], "functions": list(FNS), "key_sizes": [128, 192, 256], "cases": len(ll) * len(FNS) * 3,
                   "data": "pairwise distinct non-periodic blocks, fixed non-zero IV", "oracle": "== reference, inverse function restores the input"}
    wraplong_bounds = {"byte_lengths": f"2^k-1, 2^k, 2^k+1 for k = 7..{12 if ctx.quick else 15}", "lengths": len(wl), "max_bytes": wl[-1],
                       "key_sizes": [128, 192, 256], "cases": len(wl) * 3}
    if not ctx.quick:
        tasks += [("mix_full", (a, a + 2)) for a in range(0, 256, 2)]
    random.Random(ctx.seed).shuffle(tasks)
    res = P.run_all("verif.props.C20", "_task", tasks, n=ctx.ncpu, hard_timeout=7200)
    ev = 0
    fails = []
    per = {}
    outs = 0
    herr = []
    absent = set()
    for (st, r, _), t in zip(res, tasks):
        if st != "done":
            herr.append(f"task {t} failed: {st}: {str(r)[-500:]}")
            continue
        ev += r["ev"]
        per[r["name"]] = per.get(r["name"], 0) + r["ev"]
        outs += r["outs"]
        absent.update(r.get("absent", []))
        fails += [(c, "aes", cs, msg) for c, cs, msg in r["fails"]]
    cov = {"evaluations": ev, "distinct_nontrivial": outs,
           "rule": "complete enumeration of each finite component domain: 8 tables x 256 (+RCON, RotWord, SubWord), 65536 GF products, "
                   "16 positions x 255 values for (Inv)ShiftRows, all 1- and 2-byte MixColumns columns (quick) / all 2^32 columns (thorough), "
                   "key schedules of all single-bit and byte-repeated keys for 128/192/256, VarTxt/GFSbox/VarKey block families vs the "
                   "reference, FIPS-197 App. C + SP 800-38A ECB/CBC, drivers for 0..4 blocks, wrapper for every message length 0..64 x 3 "
                   "key sizes and every key length 0..40, key lengths 0..40 / data lengths 0..64 / IV lengths 0..32, all key-use sequences of "
                   "length L over 5 legal keys from a fresh module (every prefix judged), all call histories of length H over a call alphabet "
                   "with legal and rejected calls (4 functions x legal / wrong-length keys, short data, short IV) from a fresh module, every "
                   "step judged (legal -> reference result, illegal -> ValueError); every equality pattern among the blocks of a message "
                   "(all set partitions of the block positions, CBC: of IV + blocks) on the input or on the expected output of each of the "
                   "4 functions x 3 key sizes x symbol assignments (symbol 0 = data / zero / FF / 00..01 block); CBC with every IV of an IV "
                   "alphabet x 0..k blocks (the empty message included); the 4 mode drivers on long messages of pairwise distinct blocks for every "
                   "block count 0..C and the neighbours of every power of two up to 2^K (+ inverse function restores the input), the stream "
                   "wrapper on byte lengths next to every power of two 2^7..2^K; a valid call that raises ANY exception is a `raises` failure in "
                   "every black-box family; distinct_nontrivial = distinct observed outputs summed "
                   "over families",
           "per_family": per, "exhaustive": True,
           "bounds": {"mixcolumns": "2-byte columns" if ctx.quick else "2^32", "cache_sequence_length": L, "history": hist_bounds,
                      "patterns": pat_bounds, "ivs": iv_bounds, "long": long_bounds, "wraplong": wraplong_bounds},
           "hooks_absent": sorted(absent),
           "samples": [{"family": "blocks", "case": "AES-192 key=00..17 pt=00112233.. -> dda97ca4864cdfe06eaf70a0ec0d7191 (FIPS-197 C.2)"},
                       {"family": "wrapper", "case": "CryptAES(key).encrypt(37-byte msg) -> 16-byte IV + 48 bytes; reference CBC decrypt ends in 0b x 11"},
                       {"family": "cache", "case": "key-use sequence (0,1,2,3,4,0): eviction of key 0 then re-expansion"},
                       {"family": "patterns", "case": "aes_ecb_decrypt, pattern 0012 on the input: ciphertext blocks A|A|B|C -> D(A)|D(A)|D(B)|D(C)"},
                       {"family": "ivs", "case": "aes_cbc_decrypt(key, IV = bit 127 only, b'') -> b''"},
                       {"family": "long", "case": "aes_cbc_encrypt(AES-192 key, IV, 257 distinct blocks) == SP 800-38A chain of 257 blocks; aes_cbc_decrypt restores the input"},
                       {"family": "wraplong", "case": "CryptAES(key).encrypt(4096-byte msg) -> IV + 4112 bytes (257 blocks, pad 10 x 16)"},
                       {"family": "history", "case": "aes_ecb_encrypt k16a ok ; aes_cbc_decrypt b17x ok (ValueError) ; aes_ecb_decrypt b17x ok (ValueError again)"}]}
    return {"coverage": cov, "failures": fails, "harness_errors": herr,
            "assumptions": ["reference AES (verif/ref/aes.py) is itself validated against the hard-coded FIPS-197/SP 800-38A vectors in the same run",
                            "round functions have no data-dependent control flow, so table/linear-layer exhaustiveness + wiring vectors determine the cipher",
                            "a fresh execution of the module source is the implementation's initial state (histories are replayed from it)",
                            "private component hooks are optional: names listed in hooks_absent were not judged component-wise in this run"]}
