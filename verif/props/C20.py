"""C20 - built-in AES == FIPS-197 AES (ECB/CBC), wrapper pads/unpads, length rejection.

Decomposed into finite domains that are enumerated completely (tables, GF multiplication, ShiftRows positions,
MixColumns columns, key schedule families, AESAVS-style block families, mode drivers, wrapper message lengths,
argument-length lattice, round-key-cache use sequences, call histories with rejected calls). Reference: verif/ref/aes.py
(written from the FIPS-197 definitions) plus hard-coded FIPS-197 App. C / SP 800-38A vectors.

Public surface vs. internals.  The verdict-carrying black-box families (blocks, modes, lengths, wrapper, cache, history) use only
the four public functions aes_{ecb,cbc}_{encrypt,decrypt} and patch_pypdf_fallback_aes()/CryptAES.  The component families
(tables, gfmul, shiftrows, mixcolumns, keyschedule) need hooks into private names (_SBOX, _MUL*, _gf_mul, _shift_rows, ...);
every such hook is OPTIONAL: a name that a refactoring removed is skipped and listed in coverage["hooks_absent"] (the black-box
families still judge the cipher), it is never a harness error.  State-carrying helpers accept both conventions (mutate the
state in place / return the new state).

Histories start from a FRESH module instance (the module's source executed into a new module object; for the large `history`
family a clone of a pristine instance when `_make_plan` proves that equivalent: plain functions re-created over new globals, plain
data copied, locks renewed, imports shared - else the source is executed), so "state" is whatever the implementation keeps between
calls - no private cache name is touched; the only private peek left is the optional size bound of `_ROUND_KEY_CACHE` when that
name exists.

Family `cache`  : every key-use sequence of length L (quick 5 / thorough 7) over 5 valid keys (3 x 128, 192, 256 bit: one more
                  than the 4 schedule slots); every step (= every prefix) must equal the uncached reference result.
Family `history`: every sequence of length L over a CALL alphabet that contains REJECTED calls, judged at every step:
                  a call with legal arguments must return the reference result whatever was called (and rejected) before, a call
                  with a wrong-length key / data / IV must raise ValueError whatever was called (and accepted or rejected) before.
                  call = (function, key, argument shape);  functions: the 4 public ones;
                  quick   : keys {k16a, k24, k32} legal + {b0 (empty), b15p (k16a minus last byte), b17x (k16a plus one byte),
                            b48x (k32 followed by k16a)} illegal; shapes: ok | 15-byte data (with k16a) | 15-byte IV (CBC, k16a)
                            = 34 calls, L = 3  (39304 histories, all their prefixes judged)
                  thorough: quick alphabet with L = 4 (1336336 histories) and the wide alphabet with L = 3: legal {k16a, k16b,
                            k24, k32}, illegal {b0, b1, b15p, b17x, b23p, b25x, b33x, b48x}, short data / short IV with each
                            legal key = 72 calls (373248 histories).
                  Key bytes are derived from VERIF_SEED (spelling only); cases name keys symbolically.
"""
from __future__ import annotations

import itertools
import os
import random
import types

from verif.mc import pool as P
from verif.ref import aes as R

LEVEL = "exploration"
MOD = "sharepoint2text.parsing.extractors.pdf._pypdf_aes_fallback"


def _m():
    import importlib
    return importlib.import_module(MOD)


_CODE = None
_PLAN = None      # None = not analysed yet, False = module not clonable (always execute the source), else (pristine dict, recipe)


def _exec_fresh():
    global _CODE
    base = _m()
    if _CODE is None:
        with open(base.__file__, "rb") as f:
            _CODE = compile(f.read(), base.__file__, "exec")
    mod = types.ModuleType(base.__name__)
    mod.__file__ = base.__file__
    mod.__package__ = base.__package__
    exec(_CODE, mod.__dict__)
    return mod


def _plain(v, depth=0):
    """deeply plain data (no objects that could carry code or references into a module)"""
    if v is None or isinstance(v, (bool, int, float, str, bytes)):
        return True
    if depth > 6:
        return False
    if isinstance(v, (tuple, list, set, frozenset, bytearray)):
        return isinstance(v, bytearray) or all(_plain(x, depth + 1) for x in v)
    if isinstance(v, dict):      # includes OrderedDict
        return all(_plain(k, depth + 1) and _plain(x, depth + 1) for k, x in v.items())
    return False


def _frozen(v, depth=0):
    """deeply immutable plain data"""
    if v is None or isinstance(v, (bool, int, float, str, bytes)):
        return True
    return depth < 6 and isinstance(v, (tuple, frozenset)) and all(_frozen(x, depth + 1) for x in v)


def _cp(v):
    """copy of deeply plain data (what copy.deepcopy gives, without its per-element bookkeeping)"""
    if _frozen(v):
        return v
    if isinstance(v, list):
        return [_cp(x) for x in v]
    if isinstance(v, tuple):
        return tuple(_cp(x) for x in v)
    if isinstance(v, (set, bytearray)):
        return type(v)(v)
    import copy
    c = copy.copy(v)            # dict / OrderedDict: keys are hashable, hence immutable plain data
    for k in c:
        c[k] = _cp(c[k])
    return c


def _make_plan():
    """Decide once per process whether a fresh instance can be produced by CLONING a pristine (never called) instance instead of
    executing the source again (1 ms): every global must be (a) a plain function of this module without closure / attributes /
    mutable defaults -> re-created over the new globals, (b) deeply plain data -> deep-copied when mutable, (c) a lock -> a new
    lock, (d) an object that belongs to another module (imports) -> shared, exactly as a re-import would share it.  Anything else
    (classes defined here, wrapped functions, containers holding functions, ...) -> not clonable, the source is executed."""
    import threading
    pristine = _exec_fresh()
    d = pristine.__dict__
    lock_t, rlock_t = type(threading.Lock()), type(threading.RLock())
    recipe = []
    for name, v in d.items():
        if name == "__builtins__" or (name.startswith("__") and name.endswith("__")):
            recipe.append((name, "share"))
        elif isinstance(v, types.FunctionType):
            if v.__globals__ is not d:
                recipe.append((name, "share"))
            elif v.__closure__ is None and not v.__dict__ and _plain(v.__defaults__) and _plain(v.__kwdefaults__) \
                    and all(not isinstance(x, (list, dict, set, bytearray)) for x in (v.__defaults__ or ())) \
                    and all(not isinstance(x, (list, dict, set, bytearray)) for x in (v.__kwdefaults__ or {}).values()):
                recipe.append((name, "func"))
            else:
                return False
        elif isinstance(v, lock_t):
            recipe.append((name, "lock"))
        elif isinstance(v, rlock_t):
            recipe.append((name, "rlock"))
        elif isinstance(v, types.ModuleType):
            recipe.append((name, "share"))
        elif _plain(v):
            recipe.append((name, "share" if _frozen(v) else "slice" if isinstance(v, list) and all(_frozen(x) for x in v) else "copy"))
        elif (isinstance(v, type) and v.__module__ != d.get("__name__")) or isinstance(v, types.BuiltinFunctionType) \
                or type(v).__module__ in ("typing", "__future__", "collections.abc"):
            recipe.append((name, "share"))      # imported class / builtin / typing alias / __future__ feature (stateless, shared by any re-import)
        else:
            return False
    return d, recipe


def fresh():
    """A new instance of the AES module in its import-time state: the module's source executed into a new module object, or
    (same result, 30x cheaper) a clone of a pristine instance when `_make_plan` proves the module clonable.
    VERIF_C20_EXEC_FRESH=1 forces execution of the source."""
    global _PLAN
    if _PLAN is None:
        _PLAN = False if os.environ.get("VERIF_C20_EXEC_FRESH") else _make_plan()
    if _PLAN is False:
        return _exec_fresh()
    import threading
    d, recipe = _PLAN
    mod = types.ModuleType(d["__name__"])
    nd = mod.__dict__
    for name, how in recipe:
        v = d[name]
        if how == "share":
            nd[name] = v
        elif how == "slice":
            nd[name] = v[:]
        elif how == "copy":
            nd[name] = _cp(v)
        elif how == "func":
            f = types.FunctionType(v.__code__, nd, v.__name__, v.__defaults__, None)
            f.__kwdefaults__ = dict(v.__kwdefaults__) if v.__kwdefaults__ else None
            f.__qualname__ = v.__qualname__
            f.__doc__ = v.__doc__
            f.__annotations__ = v.__annotations__
            f.__module__ = v.__module__
            nd[name] = f
        elif how == "lock":
            nd[name] = threading.Lock()
        else:
            nd[name] = threading.RLock()
    return mod


_ABSENT = set()


def _hook(m, name):
    """optional private hook: None (and recorded) when the implementation no longer has it"""
    v = getattr(m, name, None)
    if v is None:
        _ABSENT.add(name)
    return v


def _apply(f, state):
    """run a state transformation that either mutates `state` in place or returns the new state"""
    r = f(state)
    return list(state) if r is None else list(r)


def _seed():
    try:
        return int(os.environ.get("VERIF_SEED", "0") or 0)
    except ValueError:
        return 0


def h(b):
    return bytes(b).hex()


# ------------------------------------------------------------------ families (each returns (evals, fails, outcomes))


def fam_tables(tier):
    m = _m()
    ev = 0
    fails = []
    outs = set()
    tabs = (("sbox", "_SBOX", lambda i: R.SBOX[i]), ("inv_sbox", "_INV_SBOX", lambda i: R.INV_SBOX[i]),
            ("mul2", "_MUL2", lambda i: R.gmul(i, 2)), ("mul3", "_MUL3", lambda i: R.gmul(i, 3)), ("mul9", "_MUL9", lambda i: R.gmul(i, 9)),
            ("mul11", "_MUL11", lambda i: R.gmul(i, 11)), ("mul13", "_MUL13", lambda i: R.gmul(i, 13)), ("mul14", "_MUL14", lambda i: R.gmul(i, 14)))
    for name, attr, expf in tabs:
        tab = _hook(m, attr)
        if tab is None:
            continue
        ev += 1
        if len(tab) != 256:
            fails.append(("table", ["table", name, "len"], f"{name} has {len(tab)} entries"))
        for i in range(min(256, len(tab))):
            ev += 1
            got, exp = tab[i], expf(i)
            outs.add((name, got))
            if got != exp:
                fails.append(("table", ["table", name, i], f"{name}[{i:#x}] = {got:#x}, FIPS-197 gives {exp:#x}"))
    xt = _hook(m, "_xtime")
    if xt is not None:
        for i in range(256):
            ev += 1
            got, exp = xt(i), R.gmul(i, 2)
            outs.add(("xtime", got))
            if got != exp:
                fails.append(("table", ["table", "xtime", i], f"xtime[{i:#x}] = {got:#x}, FIPS-197 gives {exp:#x}"))
    rcon = _hook(m, "_RCON")
    if rcon is not None:
        rc = 1
        for i in range(1, 15):
            ev += 1
            if i >= len(rcon) or rcon[i] != rc:
                fails.append(("table", ["table", "rcon", i], f"RCON[{i}] = {rcon[i] if i < len(rcon) else None!r}, expected {rc:#x}"))
            rc = R.gmul(rc, 2)
    rot = _hook(m, "_rot_word")
    if rot is not None:
        for w in ([0, 1, 2, 3], [255, 0, 128, 7], [0x53, 0xCA, 0x10, 0xFE]):
            ev += 2
            if list(rot(list(w))) != w[1:] + w[:1]:
                fails.append(("table", ["table", "rot_word", w], f"_rot_word({w})"))
    sub = _hook(m, "_sub_word")
    if sub is not None:
        for b in range(256):
            ev += 1
            if list(sub([b, b ^ 0xFF, (b * 7) & 0xFF, (b + 1) & 0xFF])) != [R.SBOX[b], R.SBOX[b ^ 0xFF], R.SBOX[(b * 7) & 0xFF], R.SBOX[(b + 1) & 0xFF]]:
                fails.append(("table", ["table", "sub_word", b], f"_sub_word wrong for byte {b}"))
    return ev, fails, outs


def fam_gfmul(tier):
    m = _m()
    ev = 0
    fails = []
    outs = set()
    gf = _hook(m, "_gf_mul")
    if gf is None:
        return ev, fails, outs
    for a in range(256):
        for b in range(256):
            ev += 1
            g = gf(a, b)
            if g != R.gmul(a, b):
                fails.append(("gfmul", ["gfmul", a, b], f"_gf_mul({a},{b}) = {g}, expected {R.gmul(a, b)}"))
        outs.add(gf(a, 0x53))
    return ev, fails, outs


def fam_shiftrows(tier):
    m = _m()
    ev = 0
    fails = []
    outs = set()
    sr = _hook(m, "_shift_rows")
    isr = _hook(m, "_inv_shift_rows")
    for p in range(16):
        for v in range(1, 256):
            s = [0] * 16
            s[p] = v
            if sr is not None:
                exp = R._shift_rows(s)
                got = _apply(sr, list(s))
                ev += 1
                outs.add(tuple(i for i, x in enumerate(got) if x))
                if got != exp:
                    fails.append(("shiftrows", ["shift_rows", p, v], f"ShiftRows moves byte at {p} to {[i for i, x in enumerate(got) if x]}, expected {[i for i, x in enumerate(exp) if x]}"))
            if isr is not None:
                exp = R._inv_shift_rows(s)
                got = _apply(isr, list(s))
                ev += 1
                if got != exp:
                    fails.append(("shiftrows", ["inv_shift_rows", p, v], f"InvShiftRows moves byte at {p} wrongly"))
            if sr is not None and isr is not None:
                got = _apply(isr, _apply(sr, list(s)))
                ev += 1
                if got != s:
                    fails.append(("shiftrows", ["shift_inverse", p, v], "InvShiftRows(ShiftRows(s)) != s"))
    if sr is not None:
        full = list(range(16))
        got = _apply(sr, list(full))
        ev += 1
        if got != R._shift_rows(full):
            fails.append(("shiftrows", ["shift_rows", "full", 0], "ShiftRows on 0..15"))
    return ev, fails, outs


def _mix_check(m, cols, fails, outs):
    """cols: list of 4 columns (each 4 ints) -> one state; returns the number of component evaluations made"""
    mc = _hook(m, "_mix_columns")
    imc = _hook(m, "_inv_mix_columns")
    s = sum(cols, [])
    n = 0
    got = None
    if mc is not None:
        n += 4
        got = _apply(mc, list(s))
        exp = sum((R.mix_column(c) for c in cols), [])
        if got != exp:
            for k in range(4):
                if got[4 * k:4 * k + 4] != exp[4 * k:4 * k + 4]:
                    fails.append(("mixcolumns", ["mix_columns", k] + cols[k], f"MixColumns(col {cols[k]}) in position {k} = {got[4 * k:4 * k + 4]}, expected {exp[4 * k:4 * k + 4]}"))
                    break
        outs.add(hash(tuple(got)) & 0xFFFF)
    if imc is not None:
        n += 4
        got2 = _apply(imc, list(s))
        exp2 = sum((R.inv_mix_column(c) for c in cols), [])
        if got2 != exp2:
            for k in range(4):
                if got2[4 * k:4 * k + 4] != exp2[4 * k:4 * k + 4]:
                    fails.append(("mixcolumns", ["inv_mix_columns", k] + cols[k], f"InvMixColumns(col {cols[k]}) = {got2[4 * k:4 * k + 4]}, expected {exp2[4 * k:4 * k + 4]}"))
                    break
    if got is not None and imc is not None:
        back = _apply(imc, list(got))
        if back != s:
            fails.append(("mixcolumns", ["mix_inverse", 0] + cols[0], "InvMixColumns(MixColumns(s)) != s"))
    return n // 2 if (mc is not None and imc is not None) else n


def fam_mix_small(arg):
    """all single-byte columns (in every state column position) and all two-byte columns"""
    m = _m()
    ev = 0
    fails = []
    outs = set()
    part, nparts = arg
    cols = []
    for pos in range(4):
        for v in range(256):
            c = [0, 0, 0, 0]
            c[pos] = v
            cols.append(c)
    for pa, pb in itertools.combinations(range(4), 2):
        for va in range(1, 256):
            for vb in range(1, 256):
                c = [0, 0, 0, 0]
                c[pa] = va
                c[pb] = vb
                cols.append(c)
    cols = cols[part::nparts]
    # place each column in each of the four state positions over the run (rotating), 4 columns per call
    for i in range(0, len(cols), 4):
        chunk = cols[i:i + 4]
        while len(chunk) < 4:
            chunk.append([0, 0, 0, 0])
        rot = (i // 4) % 4
        chunk = chunk[rot:] + chunk[:rot]
        ev += _mix_check(m, chunk, fails, outs)
    return ev, fails, outs


def fam_mix_full(arg):
    """whole 2^32 column domain, slice a0 in [lo, hi)"""
    m = _m()
    lo, hi = arg
    ev = 0
    fails = []
    outs = set()
    g2 = [R.gmul(x, 2) for x in range(256)]
    g3 = [R.gmul(x, 3) for x in range(256)]
    mix = _hook(m, "_mix_columns")
    if mix is None:
        return ev, fails, outs
    for a0 in range(lo, hi):
        for a1 in range(256):
            e0 = g2[a0] ^ g3[a1]
            e1 = a0 ^ g2[a1]
            e2 = a0 ^ a1
            e3 = g3[a0] ^ a1
            for a2 in range(256):
                f0 = e0 ^ a2
                f1 = e1 ^ g3[a2]
                f2 = e2 ^ g2[a2]
                f3 = e3 ^ a2
                for a3 in range(0, 256, 4):
                    s = [a0, a1, a2, a3, a0, a1, a2, a3 + 1, a0, a1, a2, a3 + 2, a0, a1, a2, a3 + 3]
                    r = mix(s)
                    if r is not None:
                        s = r
                    for k in range(4):
                        b = a3 + k
                        if s[4 * k] != f0 ^ b or s[4 * k + 1] != f1 ^ b or s[4 * k + 2] != f2 ^ g3[b] or s[4 * k + 3] != f3 ^ g2[b]:
                            if len(fails) < 50:
                                fails.append(("mixcolumns", ["mix_columns", k, a0, a1, a2, b], f"MixColumns({[a0, a1, a2, b]}) wrong"))
                ev += 256
        outs.add(a0)
    return ev, fails, outs


KEYSIZES = (16, 24, 32)


def key_family(n):
    ks = [bytes(n)]
    for bit in range(n * 8):
        k = bytearray(n)
        k[bit // 8] = 0x80 >> (bit % 8)
        ks.append(bytes(k))
    for b in range(256):
        ks.append(bytes([b]) * n)
    ks.append(bytes(range(n)))
    return ks


def fam_keyschedule(tier):
    m = _m()
    ev = 0
    fails = []
    outs = set()
    ek = _hook(m, "_expand_key")
    if ek is None:      # the same key families are judged black-box by fam_blocks ("varkey")
        return ev, fails, outs
    for n in KEYSIZES:
        for k in key_family(n):
            ev += 1
            got = ek(k)
            exp = R.expand_key(k)
            outs.add(bytes(got[-1]))
            if [bytes(x) for x in got] != exp:
                fails.append(("keyschedule", ["expand_key", n * 8, h(k)], f"AES-{n * 8} key schedule of {h(k)} differs from FIPS-197 (first bad round key {[i for i, (a, b) in enumerate(zip(got, exp)) if bytes(a) != b][:1]})"))
    return ev, fails, outs


def fam_blocks(tier):
    m = _m()
    ev = 0
    fails = []
    outs = set()

    def one(key, pt, tag):
        nonlocal ev
        ev += 1
        exp = R.encrypt_block(pt, key)
        got = m.aes_ecb_encrypt(key, pt)
        outs.add(got)
        if got != exp:
            fails.append(("block", ["encrypt", len(key) * 8, tag], f"AES-{len(key) * 8} encrypt key={h(key)} pt={h(pt)} gives {h(got)}, FIPS-197 gives {h(exp)}"))
        back = m.aes_ecb_decrypt(key, exp)
        if back != pt:
            fails.append(("block", ["decrypt", len(key) * 8, tag], f"AES-{len(key) * 8} decrypt key={h(key)} ct={h(exp)} gives {h(back)}, expected {h(pt)}"))
    for n in KEYSIZES:
        zero = bytes(n)
        for bit in range(128):          # VarTxt
            pt = bytearray(16)
            pt[bit // 8] = 0x80 >> (bit % 8)
            one(zero, bytes(pt), "vartxt")
        for b in range(256):            # GFSbox-style: every byte value in every column position
            one(zero, bytes([b]) * 16, "gfsbox")
            one(bytes(range(n)), bytes([(b + i) & 0xFF for i in range(16)]), "gfsbox2")
        for k in key_family(n):         # VarKey / KeySbox
            one(k, bytes(16), "varkey")
    for kx, px, cx in R.FIPS197_C:
        ev += 1
        k, p, c = bytes.fromhex(kx), bytes.fromhex(px), bytes.fromhex(cx)
        if m.aes_ecb_encrypt(k, p) != c or m.aes_ecb_decrypt(k, c) != p:
            fails.append(("block", ["fips197", len(k) * 8, "appendixC"], f"FIPS-197 Appendix C vector for AES-{len(k) * 8} fails"))
        assert R.encrypt_block(p, k) == c, "reference AES broken"
    pt = bytes.fromhex(R.SP800_38A_PT)
    iv = bytes.fromhex(R.SP800_38A_IV)
    for kx, cx in R.SP800_38A_ECB:
        ev += 1
        k, c = bytes.fromhex(kx), bytes.fromhex(cx)
        if m.aes_ecb_encrypt(k, pt) != c or m.aes_ecb_decrypt(k, c) != pt:
            fails.append(("modes", ["sp800-38a", "ecb", len(k) * 8], f"SP 800-38A ECB-AES{len(k) * 8} vector fails"))
    for kx, cx in R.SP800_38A_CBC:
        ev += 1
        k, c = bytes.fromhex(kx), bytes.fromhex(cx)
        if m.aes_cbc_encrypt(k, iv, pt) != c or m.aes_cbc_decrypt(k, iv, c) != pt:
            fails.append(("modes", ["sp800-38a", "cbc", len(k) * 8], f"SP 800-38A CBC-AES{len(k) * 8} vector fails"))
    return ev, fails, outs


def _msg(n, salt=0):
    return bytes(((i * 37 + salt * 101 + 11) & 0xFF) for i in range(n))


def fam_modes(tier):
    m = _m()
    ev = 0
    fails = []
    outs = set()
    for n in KEYSIZES:
        key = _msg(n, 3)
        for ivs in (0, 1):
            iv = bytes(16) if ivs == 0 else _msg(16, 9)
            for blocks in range(0, 5):
                for salt in range(4):
                    data = _msg(16 * blocks, salt)
                    ev += 1
                    e = m.aes_ecb_encrypt(key, data)
                    outs.add(e)
                    if e != R.ecb_encrypt(key, data):
                        fails.append(("modes", ["ecb_encrypt", n * 8, blocks], f"ECB encrypt of {blocks} blocks differs"))
                    if m.aes_ecb_decrypt(key, e) != data:
                        fails.append(("modes", ["ecb_roundtrip", n * 8, blocks], f"ECB decrypt(encrypt(x)) != x for {blocks} blocks"))
                    c = m.aes_cbc_encrypt(key, iv, data)
                    if c != R.cbc_encrypt(key, iv, data):
                        fails.append(("modes", ["cbc_encrypt", n * 8, blocks], f"CBC encrypt of {blocks} blocks differs"))
                    if m.aes_cbc_decrypt(key, iv, c) != data:
                        fails.append(("modes", ["cbc_roundtrip", n * 8, blocks], f"CBC decrypt(encrypt(x)) != x for {blocks} blocks"))
                    if m.aes_cbc_decrypt(key, iv, R.cbc_encrypt(key, iv, data)) != data:
                        fails.append(("modes", ["cbc_decrypt", n * 8, blocks], f"CBC decrypt of reference ciphertext differs ({blocks} blocks)"))
                    # inputs must not be modified and memoryview/bytearray inputs accepted
                    ba = bytearray(data)
                    if m.aes_cbc_encrypt(key, iv, ba) != c or bytes(ba) != data:
                        fails.append(("modes", ["cbc_bytearray", n * 8, blocks], "bytearray input handled differently / modified"))
    return ev, fails, outs


def fam_lengths(tier):
    m = _m()
    ev = 0
    fails = []
    outs = set()
    good_key = _msg(16, 1)
    iv = bytes(16)
    for klen in range(0, 41):
        key = _msg(klen, 5)
        for fn, call in (("aes_ecb_encrypt", lambda: m.aes_ecb_encrypt(key, bytes(16))), ("aes_ecb_decrypt", lambda: m.aes_ecb_decrypt(key, bytes(16))),
                         ("aes_cbc_encrypt", lambda: m.aes_cbc_encrypt(key, iv, bytes(16))), ("aes_cbc_decrypt", lambda: m.aes_cbc_decrypt(key, iv, bytes(16)))):
            ev += 1
            try:
                call()
                ok = True
            except ValueError:
                ok = False
            except Exception as e:  # noqa
                fails.append(("lengths", ["keylen", fn, klen], f"{fn} with {klen}-byte key raised {type(e).__name__}, not ValueError"))
                continue
            outs.add((fn, ok))
            if ok != (klen in (16, 24, 32)):
                fails.append(("lengths", ["keylen", fn, klen], f"{fn} with {klen}-byte key: accepted={ok}"))
    for dlen in range(0, 65):
        data = _msg(dlen)
        for fn, call in (("aes_ecb_encrypt", lambda: m.aes_ecb_encrypt(good_key, data)), ("aes_ecb_decrypt", lambda: m.aes_ecb_decrypt(good_key, data)),
                         ("aes_cbc_encrypt", lambda: m.aes_cbc_encrypt(good_key, iv, data)), ("aes_cbc_decrypt", lambda: m.aes_cbc_decrypt(good_key, iv, data))):
            ev += 1
            try:
                r = call()
                ok = True
            except ValueError:
                ok = False
            except Exception as e:  # noqa
                fails.append(("lengths", ["datalen", fn, dlen], f"{fn} with {dlen}-byte data raised {type(e).__name__}, not ValueError"))
                continue
            if ok != (dlen % 16 == 0):
                fails.append(("lengths", ["datalen", fn, dlen], f"{fn} with {dlen}-byte data: accepted={ok}"))
            elif ok and len(r) != dlen:
                fails.append(("lengths", ["datalen", fn, dlen], f"{fn} returned {len(r)} bytes for {dlen}"))
    for ivlen in range(0, 33):
        for fn in ("aes_cbc_encrypt", "aes_cbc_decrypt"):
            ev += 1
            try:
                getattr(m, fn)(good_key, bytes(ivlen), bytes(32))
                ok = True
            except ValueError:
                ok = False
            except Exception as e:  # noqa
                fails.append(("lengths", ["ivlen", fn, ivlen], f"{fn} with {ivlen}-byte IV raised {type(e).__name__}"))
                continue
            if ok != (ivlen == 16):
                fails.append(("lengths", ["ivlen", fn, ivlen], f"{fn} with {ivlen}-byte IV: accepted={ok}"))
    return ev, fails, outs


def fam_wrapper(tier):
    m = _m()
    ev = 0
    fails = []
    outs = set()
    if not m.patch_pypdf_fallback_aes():
        return 1, [("wrapper", ["patch", "notapplied", 0], "patch_pypdf_fallback_aes() returned False: no fallback provider")], outs
    import pypdf._crypt_providers._fallback as fb
    import pypdf._encryption as enc
    import pypdf._crypt_providers as prov
    if enc.CryptAES is not fb.CryptAES or prov.CryptAES is not fb.CryptAES or enc.aes_cbc_decrypt is not m.aes_cbc_decrypt:
        fails.append(("wrapper", ["patch", "bindings", 0], "pypdf bindings not all patched"))
    m.patch_pypdf_fallback_aes()   # idempotent
    for n in KEYSIZES:
        key = _msg(n, 7)
        for ln in range(0, 65):
            msg = _msg(ln, n)
            ev += 1
            c = fb.CryptAES(key)
            ct = c.encrypt(msg)
            ct2 = c.encrypt(msg)
            padn = 16 - ln % 16
            if len(ct) != 16 + ln + padn:
                fails.append(("wrapper", ["encrypt_len", n * 8, ln], f"encrypt({ln} bytes) gives {len(ct)} bytes, expected IV + {ln + padn}"))
                continue
            ivx = ct[:16]
            if ivx == ct2[:16]:
                fails.append(("wrapper", ["fresh_iv", n * 8, ln], "two encryptions used the same IV"))
            plain = R.cbc_decrypt(key, ivx, ct[16:])
            outs.add((ln, plain[-1]))
            if plain != msg + bytes([padn]) * padn:
                fails.append(("wrapper", ["encrypt_pad", n * 8, ln], f"ciphertext of a {ln}-byte message decrypts (reference) to {h(plain[-16:])}: wrong PKCS#7 padding / data"))
            try:
                back = c.decrypt(ct)
            except Exception as e:  # noqa
                back = None
                fails.append(("wrapper", ["roundtrip", n * 8, ln % 16], f"decrypt(encrypt(m)) raised {type(e).__name__}: {e} for len {ln}"))
            if back is not None and back != msg:
                fails.append(("wrapper", ["roundtrip", n * 8, ln % 16], f"decrypt(encrypt(m)) != m for len {ln}: got {len(back)} bytes"))
            # reference-produced ciphertext (every padding byte value 1..16 occurs over ln = 0..64)
            iv = _msg(16, ln)
            rct = iv + R.cbc_encrypt(key, iv, msg + bytes([padn]) * padn)
            try:
                back = fb.CryptAES(key).decrypt(rct)
            except Exception as e:  # noqa
                fails.append(("wrapper", ["decrypt_ref", n * 8, ln % 16], f"decrypt of reference ciphertext (len {ln}, pad {padn}) raised {type(e).__name__}: {e}"))
                continue
            if back != msg:
                fails.append(("wrapper", ["decrypt_ref", n * 8, ln % 16], f"decrypt of reference ciphertext (len {ln}, pad {padn}) returns {len(back)} bytes"))
    # wrong key lengths are rejected through the wrapper too (every key length 0..40, both directions, each call made twice in a row)
    msg = _msg(21, 4)
    for klen in range(0, 41):
        key = _msg(klen, 6)
        legal = klen in KEYSIZES
        iv = _msg(16, klen)
        blob = iv + (R.cbc_encrypt(key, iv, msg + bytes([11]) * 11) if legal else _msg(32, klen))
        for fn, arg in (("encrypt", msg), ("decrypt", blob)):
            for rep in (1, 2):
                ev += 1
                try:
                    r = getattr(fb.CryptAES(key), fn)(arg)
                    ok = True
                except ValueError:
                    ok = False
                except Exception as e:  # noqa
                    fails.append(("wrapper", ["wrap_keylen", fn, klen], f"CryptAES({klen}-byte key).{fn} raised {type(e).__name__}, not ValueError"))
                    continue
                outs.add((fn, ok))
                if ok != legal:
                    fails.append(("wrapper", ["wrap_keylen", fn, klen], f"CryptAES({klen}-byte key).{fn} (call {rep}): accepted={ok}"))
                elif ok and fn == "decrypt" and r != msg:
                    fails.append(("wrapper", ["wrap_keylen", fn, klen], f"CryptAES({klen}-byte key).decrypt of a reference ciphertext returns {len(r)} bytes"))
    return ev, fails, outs


# ------------------------------------------------------------------ histories (state between calls), black-box, from a fresh module


def _cache_keys():
    s = _seed()
    return [bytes([(i + 1 + s) & 0xFF]) * 16 for i in range(3)] + [bytes([(9 + s) & 0xFF]) * 24, bytes([(7 + s) & 0xFF]) * 32]


def _run_cache_seq(seq, keys, pt, exp):
    """one key-use sequence from a fresh module (always the executed source, never the clone); returns [(clause, case, msg)]"""
    fm = _exec_fresh()
    out = []
    for j, ki in enumerate(seq):
        try:
            got = fm.aes_ecb_encrypt(keys[ki], pt)
        except Exception as e:  # noqa
            out.append(("cache", ["cache", list(seq[:j + 1])], f"key-use sequence {tuple(seq[:j + 1])} raised {type(e).__name__}: {e}"))
            break
        if got != exp[ki]:
            out.append(("cache", ["cache", list(seq[:j + 1])], f"after key-use sequence {tuple(seq[:j + 1])} the ciphertext is wrong"))
            break
    cache = getattr(fm, "_ROUND_KEY_CACHE", None)     # optional peek: bounded memo
    n = None
    if cache is not None and hasattr(cache, "__len__"):
        n = len(cache)
        cap = getattr(fm, "_ROUND_KEY_CACHE_MAX", 4)
        if isinstance(cap, int) and n > max(cap, 4):
            out.append(("cache", ["cache_size", list(seq)], f"cache holds {n} > {max(cap, 4)} keys"))
    return out, n


def fam_cache(arg):
    """all key-use sequences of length L over 5 keys starting with `prefix` (every prefix judged): results equal the uncached computation"""
    L, prefix = arg
    keys = _cache_keys()
    pt = _msg(16, 2)
    exp = [R.encrypt_block(pt, k) for k in keys]
    ev = 0
    fails = []
    seen = set()
    outs = set()
    for rest in itertools.product(range(5), repeat=L - len(prefix)):
        seq = tuple(prefix) + rest
        ev += 1
        res, n = _run_cache_seq(seq, keys, pt, exp)
        outs.add((n, len(set(seq))))
        for c, cs, msg in res:
            k = repr(cs)
            if k not in seen:
                seen.add(k)
                fails.append((c, cs, msg))
    return ev, fails, outs


FNS = ("aes_ecb_encrypt", "aes_ecb_decrypt", "aes_cbc_encrypt", "aes_cbc_decrypt")
LEGAL_Q = ("k16a", "k24", "k32")
ILLEGAL_Q = ("b0", "b15p", "b17x", "b48x")
LEGAL_T = ("k16a", "k16b", "k24", "k32")
ILLEGAL_T = ("b0", "b1", "b15p", "b17x", "b23p", "b25x", "b33x", "b48x")


def _hist_keys():
    s = _seed()
    k = {"k16a": _msg(16, 21 + s), "k16b": _msg(16, 22 + s), "k24": _msg(24, 23 + s), "k32": _msg(32, 24 + s)}
    k.update({"b0": b"", "b1": _msg(1, 25 + s), "b15p": k["k16a"][:15], "b17x": k["k16a"] + _msg(1, 26 + s), "b23p": k["k24"][:23],
              "b25x": k["k24"] + _msg(1, 27 + s), "b33x": k["k32"] + _msg(1, 28 + s), "b48x": k["k32"] + k["k16a"]})
    return k


def hist_alphabet(name):
    """call tokens [fn, key name, shape]; shape: ok | data15 (15-byte data) | iv15 (15-byte IV, CBC only)"""
    legal, illegal, short_with = (LEGAL_Q, ILLEGAL_Q, ("k16a",)) if name == "quick" else (LEGAL_T, ILLEGAL_T, LEGAL_T)
    toks = [[fn, k, "ok"] for fn in FNS for k in legal + illegal]
    toks += [[fn, k, "data15"] for fn in FNS for k in short_with]
    toks += [[fn, k, "iv15"] for fn in FNS[2:] for k in short_with]
    return toks


def _hist_expect(tok, keys):
    """-> (args, expected) ; expected = None for 'must raise ValueError', else the reference result"""
    fn, kn, shape = tok
    key = keys[kn]
    s = _seed()
    data = _msg(15 if shape == "data15" else 16, 31 + s)
    iv = _msg(15 if shape == "iv15" else 16, 32 + s)
    args = (key, iv, data) if "cbc" in fn else (key, data)
    if len(key) not in KEYSIZES or shape != "ok":
        return args, None
    ref = {"aes_ecb_encrypt": R.ecb_encrypt, "aes_ecb_decrypt": R.ecb_decrypt, "aes_cbc_encrypt": R.cbc_encrypt, "aes_cbc_decrypt": R.cbc_decrypt}[fn]
    return args, ref(*args)


def _run_history(seq, table):
    """seq: list of tokens; table: {token tuple: (args, expected)}. From a fresh module; stops at the first failing step.
    returns (clause, case, msg) or None"""
    fm = fresh()

    def bad(j, text):
        pre = [list(t) for t in seq[:j + 1]]
        return ("history", ["history", pre], f"step {j + 1} of {[' '.join(t) for t in pre]}: {text}")
    for j, tok in enumerate(seq):
        args, exp = table[tuple(tok)]
        try:
            got = getattr(fm, tok[0])(*args)
        except ValueError as e:
            if exp is not None:
                return bad(j, f"legal call raised ValueError: {e}")
            continue
        except Exception as e:  # noqa
            return bad(j, f"raised {type(e).__name__} ({e}), " + ("not ValueError" if exp is None else "arguments are legal"))
        if exp is None:
            return bad(j, f"call with a wrong-length {'key' if tok[2] == 'ok' else tok[2]} was accepted (returned {h(got)[:32]})")
        if got != exp:
            return bad(j, f"returned {h(got)[:32]}, FIPS-197 gives {h(exp)[:32]}")
    return None


def fam_history(arg):
    """all call histories of length L over alphabet `name` that start with `prefix` (token indices)"""
    name, L, prefix = arg
    toks = hist_alphabet(name)
    keys = _hist_keys()
    table = {tuple(t): _hist_expect(t, keys) for t in toks}
    ev = 0
    fails = []
    bad_prefixes = set()
    outs = set()
    for rest in itertools.product(range(len(toks)), repeat=L - len(prefix)):
        idx = tuple(prefix) + rest
        if any(idx[:n] in bad_prefixes for n in range(1, L + 1)):
            continue
        ev += 1
        seq = [toks[i] for i in idx]
        r = _run_history(seq, table)
        outs.add(tuple(table[tuple(t)][1] is None for t in seq))
        if r is not None:
            bad_prefixes.add(idx[:len(r[1][1])])
            fails.append(r)
    return ev, fails, outs


FAMS = {"tables": fam_tables, "gfmul": fam_gfmul, "shiftrows": fam_shiftrows, "mix_small": fam_mix_small, "mix_full": fam_mix_full,
        "keyschedule": fam_keyschedule, "blocks": fam_blocks, "modes": fam_modes, "lengths": fam_lengths, "wrapper": fam_wrapper,
        "cache": fam_cache, "history": fam_history}


def _task(arg):
    name, a = arg
    _ABSENT.clear()
    ev, fails, outs = FAMS[name](a)
    return {"name": name, "ev": ev, "fails": fails[:500], "nfails": len(fails), "outs": len(outs), "absent": sorted(_ABSENT)}


def reexec(fmt, case):
    """Re-run the case (histories: exactly that sequence from a fresh module; others: the family the case belongs to)."""
    if case[0] == "history":
        seq = [list(t) for t in case[1]]
        if not seq:
            return []
        keys = _hist_keys()
        known = {tuple(t) for t in hist_alphabet("quick") + hist_alphabet("thorough")}
        if any(tuple(t) not in known for t in seq):
            return []
        table = {tuple(t): _hist_expect(t, keys) for t in seq}
        r = _run_history(seq, table)
        return [(r[0], r[2])] if r is not None and r[1][1] == seq else []
    if case[0] in ("cache", "cache_size"):
        seq = list(case[1])
        if not seq:
            return []
        keys = _cache_keys()
        pt = _msg(16, 2)
        res, _ = _run_cache_seq(seq, keys, pt, [R.encrypt_block(pt, k) for k in keys])
        return [(c, msg) for c, cs, msg in res if cs == case]
    fam = {"table": "tables", "gfmul": "gfmul", "shift_rows": "shiftrows", "inv_shift_rows": "shiftrows", "shift_inverse": "shiftrows",
           "expand_key": "keyschedule", "encrypt": "blocks", "decrypt": "blocks", "fips197": "blocks", "sp800-38a": "blocks",
           "keylen": "lengths", "datalen": "lengths", "ivlen": "lengths",
           "mix_columns": None, "inv_mix_columns": None, "mix_inverse": None}.get(case[0], "__")
    if fam is None:
        m = _m()
        fails = []
        col = case[2:6]
        k = case[1]
        cols = [[0, 0, 0, 0]] * 4
        cols = [list(c) for c in cols]
        cols[k] = list(col)
        _mix_check(m, cols, fails, set())
        return [(c, msg) for c, cs, msg in fails]
    if fam == "__":
        fam = {"ecb_encrypt": "modes", "ecb_roundtrip": "modes", "cbc_encrypt": "modes", "cbc_roundtrip": "modes", "cbc_decrypt": "modes",
               "cbc_bytearray": "modes"}.get(case[0], "wrapper")
    ev, fails, _ = FAMS[fam]("quick")
    return [(c, msg) for c, cs, msg in fails if cs == case]


def shrinks(case):
    """histories / key-use sequences: drop one step (later steps first, so that the failing last step is kept as long as possible)"""
    if case[0] in ("history", "cache", "cache_size") and isinstance(case[1], list):
        seq = case[1]
        for i in range(len(seq) - 2, -1, -1):
            yield [case[0], seq[:i] + seq[i + 1:]]
    return


def _hist_view(steps):
    """what identifies a history finding: per step the argument shape and WHICH key (legal / wrong-length, numbered by first use);
    function names and the concrete wrong length stay in the case but not in the fingerprint"""
    names = {}
    out = []
    for fn, kn, shape in steps:
        if kn not in names:
            cls = "legal" if kn.startswith("k") else "wrong"
            names[kn] = f"{cls}#{sum(1 for v in names.values() if v.startswith(cls)) + 1}"
        out.append([names[kn], shape])
    return out


def fingerprint_view(case):
    if case and case[0] == "history":
        return ["history", _hist_view(case[1])]
    return case


def embeds(small, big):
    if small[0] != big[0]:
        return False
    if small[0] == "history":
        # same kind of failing last call, and the earlier calls of `small` occur (as the same pattern) in order in `big`
        a, b = small[1], big[1]
        if not a or not b or len(a) > len(b):
            return False
        va = _hist_view(a)
        for pick in itertools.combinations(range(len(b) - 1), len(a) - 1):
            if _hist_view([b[i] for i in pick] + [b[-1]]) == va:
                return True
        return False
    return small[0] != "table" or small[1] == big[1]


def run(ctx):
    tasks = [("tables", ctx.tier), ("gfmul", ctx.tier), ("shiftrows", ctx.tier), ("keyschedule", ctx.tier), ("blocks", ctx.tier),
             ("modes", ctx.tier), ("lengths", ctx.tier), ("wrapper", ctx.tier)]
    nparts = 16
    tasks += [("mix_small", (k, nparts)) for k in range(nparts)]
    L = 5 if ctx.quick else 7
    if ctx.quick:
        tasks += [("cache", (L, (first,))) for first in range(5)]
    else:
        tasks += [("cache", (L, pre)) for pre in itertools.product(range(5), repeat=3)]
    nq = len(hist_alphabet("quick"))
    nt = len(hist_alphabet("thorough"))
    HL = 3 if ctx.quick else 4
    if ctx.quick:
        tasks += [("history", ("quick", 3, (a,))) for a in range(nq)]
        hist_bounds = {"alphabet": f"quick ({nq} calls)", "length": 3, "histories": nq ** 3}
    else:
        tasks += [("history", ("quick", 4, (a, b))) for a in range(nq) for b in range(nq)]
        tasks += [("history", ("thorough", 3, (a,))) for a in range(nt)]
        hist_bounds = {"alphabet": f"quick ({nq} calls) at length 4 + wide ({nt} calls) at length 3", "length": HL, "histories": nq ** 4 + nt ** 3}
    if not ctx.quick:
        tasks += [("mix_full", (a, a + 2)) for a in range(0, 256, 2)]
    random.Random(ctx.seed).shuffle(tasks)
    res = P.run_all("verif.props.C20", "_task", tasks, n=ctx.ncpu, hard_timeout=7200)
    ev = 0
    fails = []
    per = {}
    outs = 0
    herr = []
    absent = set()
    for (st, r, _), t in zip(res, tasks):
        if st != "done":
            herr.append(f"task {t} failed: {st}: {str(r)[-500:]}")
            continue
        ev += r["ev"]
        per[r["name"]] = per.get(r["name"], 0) + r["ev"]
        outs += r["outs"]
        absent.update(r.get("absent", []))
        fails += [(c, "aes", cs, msg) for c, cs, msg in r["fails"]]
    cov = {"evaluations": ev, "distinct_nontrivial": outs,
           "rule": "complete enumeration of each finite component domain: 8 tables x 256 (+RCON, RotWord, SubWord), 65536 GF products, "
                   "16 positions x 255 values for (Inv)ShiftRows, all 1- and 2-byte MixColumns columns (quick) / all 2^32 columns (thorough), "
                   "key schedules of all single-bit and byte-repeated keys for 128/192/256, VarTxt/GFSbox/VarKey block families vs the "
                   "reference, FIPS-197 App. C + SP 800-38A ECB/CBC, drivers for 0..4 blocks, wrapper for every message length 0..64 x 3 "
                   "key sizes and every key length 0..40, key lengths 0..40 / data lengths 0..64 / IV lengths 0..32, all key-use sequences of "
                   "length L over 5 legal keys from a fresh module (every prefix judged), all call histories of length H over a call alphabet "
                   "with legal and rejected calls (4 functions x legal / wrong-length keys, short data, short IV) from a fresh module, every "
                   "step judged (legal -> reference result, illegal -> ValueError); distinct_nontrivial = distinct observed outputs summed "
                   "over families",
           "per_family": per, "exhaustive": True,
           "bounds": {"mixcolumns": "2-byte columns" if ctx.quick else "2^32", "cache_sequence_length": L, "history": hist_bounds},
           "hooks_absent": sorted(absent),
           "samples": [{"family": "blocks", "case": "AES-192 key=00..17 pt=00112233.. -> dda97ca4864cdfe06eaf70a0ec0d7191 (FIPS-197 C.2)"},
                       {"family": "wrapper", "case": "CryptAES(key).encrypt(37-byte msg) -> 16-byte IV + 48 bytes; reference CBC decrypt ends in 0b x 11"},
                       {"family": "cache", "case": "key-use sequence (0,1,2,3,4,0): eviction of key 0 then re-expansion"},
                       {"family": "history", "case": "aes_ecb_encrypt k16a ok ; aes_cbc_decrypt b17x ok (ValueError) ; aes_ecb_decrypt b17x ok (ValueError again)"}]}
    return {"coverage": cov, "failures": fails, "harness_errors": herr,
            "assumptions": ["reference AES (verif/ref/aes.py) is itself validated against the hard-coded FIPS-197/SP 800-38A vectors in the same run",
                            "round functions have no data-dependent control flow, so table/linear-layer exhaustiveness + wiring vectors determine the cipher",
                            "a fresh execution of the module source is the implementation's initial state (histories are replayed from it)",
                            "private component hooks are optional: names listed in hooks_absent were not judged component-wise in this run"]}
