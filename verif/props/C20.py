"""C20 - built-in AES == FIPS-197 AES (ECB/CBC), wrapper pads/unpads, length rejection.

Decomposed into finite domains that are enumerated completely (tables, GF multiplication, ShiftRows positions,
MixColumns columns, key schedule families, AESAVS-style block families, mode drivers, wrapper message lengths,
argument-length lattice, round-key-cache use sequences). Reference: verif/ref/aes.py (written from the FIPS-197
definitions) plus hard-coded FIPS-197 App. C / SP 800-38A vectors.
"""
from __future__ import annotations

import itertools
import os
import random

from verif.mc import pool as P
from verif.ref import aes as R

LEVEL = "exploration"
MOD = "sharepoint2text.parsing.extractors.pdf._pypdf_aes_fallback"


def _m():
    import importlib
    return importlib.import_module(MOD)


def h(b):
    return bytes(b).hex()


# ------------------------------------------------------------------ families (each returns (evals, fails, outcomes))


def fam_tables(tier):
    m = _m()
    ev = 0
    fails = []
    outs = set()
    for i in range(256):
        for name, got, exp in (("sbox", m._SBOX[i], R.SBOX[i]), ("inv_sbox", m._INV_SBOX[i], R.INV_SBOX[i]),
                               ("mul2", m._MUL2[i], R.gmul(i, 2)), ("mul3", m._MUL3[i], R.gmul(i, 3)), ("mul9", m._MUL9[i], R.gmul(i, 9)),
                               ("mul11", m._MUL11[i], R.gmul(i, 11)), ("mul13", m._MUL13[i], R.gmul(i, 13)), ("mul14", m._MUL14[i], R.gmul(i, 14)),
                               ("xtime", m._xtime(i), R.gmul(i, 2))):
            ev += 1
            outs.add((name, got))
            if got != exp:
                fails.append(("table", ["table", name, i], f"{name}[{i:#x}] = {got:#x}, FIPS-197 gives {exp:#x}"))
    for name, tab in (("sbox", m._SBOX), ("inv_sbox", m._INV_SBOX), ("mul2", m._MUL2), ("mul3", m._MUL3), ("mul9", m._MUL9),
                      ("mul11", m._MUL11), ("mul13", m._MUL13), ("mul14", m._MUL14)):
        ev += 1
        if len(tab) != 256:
            fails.append(("table", ["table", name, "len"], f"{name} has {len(tab)} entries"))
    rc = 1
    for i in range(1, 15):
        ev += 1
        if m._RCON[i] != rc:
            fails.append(("table", ["table", "rcon", i], f"RCON[{i}] = {m._RCON[i]:#x}, expected {rc:#x}"))
        rc = R.gmul(rc, 2)
    for w in ([0, 1, 2, 3], [255, 0, 128, 7], [0x53, 0xCA, 0x10, 0xFE]):
        ev += 2
        if list(m._rot_word(list(w))) != w[1:] + w[:1]:
            fails.append(("table", ["table", "rot_word", w], f"_rot_word({w})"))
    for b in range(256):
        ev += 1
        if list(m._sub_word([b, b ^ 0xFF, (b * 7) & 0xFF, (b + 1) & 0xFF])) != [R.SBOX[b], R.SBOX[b ^ 0xFF], R.SBOX[(b * 7) & 0xFF], R.SBOX[(b + 1) & 0xFF]]:
            fails.append(("table", ["table", "sub_word", b], f"_sub_word wrong for byte {b}"))
    return ev, fails, outs


def fam_gfmul(tier):
    m = _m()
    ev = 0
    fails = []
    outs = set()
    for a in range(256):
        for b in range(256):
            ev += 1
            g = m._gf_mul(a, b)
            if g != R.gmul(a, b):
                fails.append(("gfmul", ["gfmul", a, b], f"_gf_mul({a},{b}) = {g}, expected {R.gmul(a, b)}"))
        outs.add(m._gf_mul(a, 0x53))
    return ev, fails, outs


def fam_shiftrows(tier):
    m = _m()
    ev = 0
    fails = []
    outs = set()
    for p in range(16):
        for v in range(1, 256):
            s = [0] * 16
            s[p] = v
            exp = R._shift_rows(s)
            got = list(s)
            m._shift_rows(got)
            ev += 1
            outs.add(tuple(i for i, x in enumerate(got) if x))
            if got != exp:
                fails.append(("shiftrows", ["shift_rows", p, v], f"ShiftRows moves byte at {p} to {[i for i, x in enumerate(got) if x]}, expected {[i for i, x in enumerate(exp) if x]}"))
            exp = R._inv_shift_rows(s)
            got = list(s)
            m._inv_shift_rows(got)
            ev += 1
            if got != exp:
                fails.append(("shiftrows", ["inv_shift_rows", p, v], f"InvShiftRows moves byte at {p} wrongly"))
            got = list(s)
            m._shift_rows(got)
            m._inv_shift_rows(got)
            ev += 1
            if got != s:
                fails.append(("shiftrows", ["shift_inverse", p, v], "InvShiftRows(ShiftRows(s)) != s"))
    full = list(range(16))
    got = list(full)
    m._shift_rows(got)
    ev += 1
    if got != R._shift_rows(full):
        fails.append(("shiftrows", ["shift_rows", "full", 0], "ShiftRows on 0..15"))
    return ev, fails, outs


def _mix_check(m, cols, fails, outs, inverse_too=True):
    """cols: list of 4 columns (each 4 ints) -> one state"""
    s = sum(cols, [])
    got = list(s)
    m._mix_columns(got)
    exp = sum((R.mix_column(c) for c in cols), [])
    if got != exp:
        for k in range(4):
            if got[4 * k:4 * k + 4] != exp[4 * k:4 * k + 4]:
                fails.append(("mixcolumns", ["mix_columns", k] + cols[k], f"MixColumns(col {cols[k]}) in position {k} = {got[4 * k:4 * k + 4]}, expected {exp[4 * k:4 * k + 4]}"))
                break
    outs.add(hash(tuple(got)) & 0xFFFF)
    got2 = list(s)
    m._inv_mix_columns(got2)
    exp2 = sum((R.inv_mix_column(c) for c in cols), [])
    if got2 != exp2:
        for k in range(4):
            if got2[4 * k:4 * k + 4] != exp2[4 * k:4 * k + 4]:
                fails.append(("mixcolumns", ["inv_mix_columns", k] + cols[k], f"InvMixColumns(col {cols[k]}) = {got2[4 * k:4 * k + 4]}, expected {exp2[4 * k:4 * k + 4]}"))
                break
    back = list(got)
    m._inv_mix_columns(back)
    if back != s:
        fails.append(("mixcolumns", ["mix_inverse", 0] + cols[0], "InvMixColumns(MixColumns(s)) != s"))


def fam_mix_small(arg):
    """all single-byte columns (in every state column position) and all two-byte columns"""
    m = _m()
    ev = 0
    fails = []
    outs = set()
    part, nparts = arg
    cols = []
    for pos in range(4):
        for v in range(256):
            c = [0, 0, 0, 0]
            c[pos] = v
            cols.append(c)
    for pa, pb in itertools.combinations(range(4), 2):
        for va in range(1, 256):
            for vb in range(1, 256):
                c = [0, 0, 0, 0]
                c[pa] = va
                c[pb] = vb
                cols.append(c)
    cols = cols[part::nparts]
    # place each column in each of the four state positions over the run (rotating), 4 columns per call
    for i in range(0, len(cols), 4):
        chunk = cols[i:i + 4]
        while len(chunk) < 4:
            chunk.append([0, 0, 0, 0])
        rot = (i // 4) % 4
        chunk = chunk[rot:] + chunk[:rot]
        _mix_check(m, chunk, fails, outs)
        ev += 4
    return ev, fails, outs


def fam_mix_full(arg):
    """whole 2^32 column domain, slice a0 in [lo, hi)"""
    m = _m()
    lo, hi = arg
    ev = 0
    fails = []
    outs = set()
    g2 = [R.gmul(x, 2) for x in range(256)]
    g3 = [R.gmul(x, 3) for x in range(256)]
    mix = m._mix_columns
    for a0 in range(lo, hi):
        for a1 in range(256):
            e0 = g2[a0] ^ g3[a1]
            e1 = a0 ^ g2[a1]
            e2 = a0 ^ a1
            e3 = g3[a0] ^ a1
            for a2 in range(256):
                f0 = e0 ^ a2
                f1 = e1 ^ g3[a2]
                f2 = e2 ^ g2[a2]
                f3 = e3 ^ a2
                for a3 in range(0, 256, 4):
                    s = [a0, a1, a2, a3, a0, a1, a2, a3 + 1, a0, a1, a2, a3 + 2, a0, a1, a2, a3 + 3]
                    mix(s)
                    for k in range(4):
                        b = a3 + k
                        if s[4 * k] != f0 ^ b or s[4 * k + 1] != f1 ^ b or s[4 * k + 2] != f2 ^ g3[b] or s[4 * k + 3] != f3 ^ g2[b]:
                            if len(fails) < 50:
                                fails.append(("mixcolumns", ["mix_columns", k, a0, a1, a2, b], f"MixColumns({[a0, a1, a2, b]}) wrong"))
                ev += 256
        outs.add(a0)
    return ev, fails, outs


KEYSIZES = (16, 24, 32)


def key_family(n):
    ks = [bytes(n)]
    for bit in range(n * 8):
        k = bytearray(n)
        k[bit // 8] = 0x80 >> (bit % 8)
        ks.append(bytes(k))
    for b in range(256):
        ks.append(bytes([b]) * n)
    ks.append(bytes(range(n)))
    return ks


def fam_keyschedule(tier):
    m = _m()
    ev = 0
    fails = []
    outs = set()
    for n in KEYSIZES:
        for k in key_family(n):
            ev += 1
            got = m._expand_key(k)
            exp = R.expand_key(k)
            outs.add(got[-1])
            if [bytes(x) for x in got] != exp:
                fails.append(("keyschedule", ["expand_key", n * 8, h(k)], f"AES-{n * 8} key schedule of {h(k)} differs from FIPS-197 (first bad round key {[i for i, (a, b) in enumerate(zip(got, exp)) if bytes(a) != b][:1]})"))
    return ev, fails, outs


def fam_blocks(tier):
    m = _m()
    ev = 0
    fails = []
    outs = set()

    def one(key, pt, tag):
        nonlocal ev
        ev += 1
        exp = R.encrypt_block(pt, key)
        got = m.aes_ecb_encrypt(key, pt)
        outs.add(got)
        if got != exp:
            fails.append(("block", ["encrypt", len(key) * 8, tag], f"AES-{len(key) * 8} encrypt key={h(key)} pt={h(pt)} gives {h(got)}, FIPS-197 gives {h(exp)}"))
        back = m.aes_ecb_decrypt(key, exp)
        if back != pt:
            fails.append(("block", ["decrypt", len(key) * 8, tag], f"AES-{len(key) * 8} decrypt key={h(key)} ct={h(exp)} gives {h(back)}, expected {h(pt)}"))
    for n in KEYSIZES:
        zero = bytes(n)
        for bit in range(128):          # VarTxt
            pt = bytearray(16)
            pt[bit // 8] = 0x80 >> (bit % 8)
            one(zero, bytes(pt), "vartxt")
        for b in range(256):            # GFSbox-style: every byte value in every column position
            one(zero, bytes([b]) * 16, "gfsbox")
            one(bytes(range(n)), bytes([(b + i) & 0xFF for i in range(16)]), "gfsbox2")
        for k in key_family(n):         # VarKey / KeySbox
            one(k, bytes(16), "varkey")
    for kx, px, cx in R.FIPS197_C:
        ev += 1
        k, p, c = bytes.fromhex(kx), bytes.fromhex(px), bytes.fromhex(cx)
        if m.aes_ecb_encrypt(k, p) != c or m.aes_ecb_decrypt(k, c) != p:
            fails.append(("block", ["fips197", len(k) * 8, "appendixC"], f"FIPS-197 Appendix C vector for AES-{len(k) * 8} fails"))
        assert R.encrypt_block(p, k) == c, "reference AES broken"
    pt = bytes.fromhex(R.SP800_38A_PT)
    iv = bytes.fromhex(R.SP800_38A_IV)
    for kx, cx in R.SP800_38A_ECB:
        ev += 1
        k, c = bytes.fromhex(kx), bytes.fromhex(cx)
        if m.aes_ecb_encrypt(k, pt) != c or m.aes_ecb_decrypt(k, c) != pt:
            fails.append(("modes", ["sp800-38a", "ecb", len(k) * 8], f"SP 800-38A ECB-AES{len(k) * 8} vector fails"))
    for kx, cx in R.SP800_38A_CBC:
        ev += 1
        k, c = bytes.fromhex(kx), bytes.fromhex(cx)
        if m.aes_cbc_encrypt(k, iv, pt) != c or m.aes_cbc_decrypt(k, iv, c) != pt:
            fails.append(("modes", ["sp800-38a", "cbc", len(k) * 8], f"SP 800-38A CBC-AES{len(k) * 8} vector fails"))
    return ev, fails, outs


def _msg(n, salt=0):
    return bytes(((i * 37 + salt * 101 + 11) & 0xFF) for i in range(n))


def fam_modes(tier):
    m = _m()
    ev = 0
    fails = []
    outs = set()
    for n in KEYSIZES:
        key = _msg(n, 3)
        for ivs in (0, 1):
            iv = bytes(16) if ivs == 0 else _msg(16, 9)
            for blocks in range(0, 5):
                for salt in range(4):
                    data = _msg(16 * blocks, salt)
                    ev += 1
                    e = m.aes_ecb_encrypt(key, data)
                    outs.add(e)
                    if e != R.ecb_encrypt(key, data):
                        fails.append(("modes", ["ecb_encrypt", n * 8, blocks], f"ECB encrypt of {blocks} blocks differs"))
                    if m.aes_ecb_decrypt(key, e) != data:
                        fails.append(("modes", ["ecb_roundtrip", n * 8, blocks], f"ECB decrypt(encrypt(x)) != x for {blocks} blocks"))
                    c = m.aes_cbc_encrypt(key, iv, data)
                    if c != R.cbc_encrypt(key, iv, data):
                        fails.append(("modes", ["cbc_encrypt", n * 8, blocks], f"CBC encrypt of {blocks} blocks differs"))
                    if m.aes_cbc_decrypt(key, iv, c) != data:
                        fails.append(("modes", ["cbc_roundtrip", n * 8, blocks], f"CBC decrypt(encrypt(x)) != x for {blocks} blocks"))
                    if m.aes_cbc_decrypt(key, iv, R.cbc_encrypt(key, iv, data)) != data:
                        fails.append(("modes", ["cbc_decrypt", n * 8, blocks], f"CBC decrypt of reference ciphertext differs ({blocks} blocks)"))
                    # inputs must not be modified and memoryview/bytearray inputs accepted
                    ba = bytearray(data)
                    if m.aes_cbc_encrypt(key, iv, ba) != c or bytes(ba) != data:
                        fails.append(("modes", ["cbc_bytearray", n * 8, blocks], "bytearray input handled differently / modified"))
    return ev, fails, outs


def fam_lengths(tier):
    m = _m()
    ev = 0
    fails = []
    outs = set()
    good_key = _msg(16, 1)
    iv = bytes(16)
    for klen in range(0, 41):
        key = _msg(klen, 5)
        for fn, call in (("aes_ecb_encrypt", lambda: m.aes_ecb_encrypt(key, bytes(16))), ("aes_ecb_decrypt", lambda: m.aes_ecb_decrypt(key, bytes(16))),
                         ("aes_cbc_encrypt", lambda: m.aes_cbc_encrypt(key, iv, bytes(16))), ("aes_cbc_decrypt", lambda: m.aes_cbc_decrypt(key, iv, bytes(16)))):
            ev += 1
            try:
                call()
                ok = True
            except ValueError:
                ok = False
            except Exception as e:  # noqa
                fails.append(("lengths", ["keylen", fn, klen], f"{fn} with {klen}-byte key raised {type(e).__name__}, not ValueError"))
                continue
            outs.add((fn, ok))
            if ok != (klen in (16, 24, 32)):
                fails.append(("lengths", ["keylen", fn, klen], f"{fn} with {klen}-byte key: accepted={ok}"))
    for dlen in range(0, 65):
        data = _msg(dlen)
        for fn, call in (("aes_ecb_encrypt", lambda: m.aes_ecb_encrypt(good_key, data)), ("aes_ecb_decrypt", lambda: m.aes_ecb_decrypt(good_key, data)),
                         ("aes_cbc_encrypt", lambda: m.aes_cbc_encrypt(good_key, iv, data)), ("aes_cbc_decrypt", lambda: m.aes_cbc_decrypt(good_key, iv, data))):
            ev += 1
            try:
                r = call()
                ok = True
            except ValueError:
                ok = False
            except Exception as e:  # noqa
                fails.append(("lengths", ["datalen", fn, dlen], f"{fn} with {dlen}-byte data raised {type(e).__name__}, not ValueError"))
                continue
            if ok != (dlen % 16 == 0):
                fails.append(("lengths", ["datalen", fn, dlen], f"{fn} with {dlen}-byte data: accepted={ok}"))
            elif ok and len(r) != dlen:
                fails.append(("lengths", ["datalen", fn, dlen], f"{fn} returned {len(r)} bytes for {dlen}"))
    for ivlen in range(0, 33):
        for fn in ("aes_cbc_encrypt", "aes_cbc_decrypt"):
            ev += 1
            try:
                getattr(m, fn)(good_key, bytes(ivlen), bytes(32))
                ok = True
            except ValueError:
                ok = False
            except Exception as e:  # noqa
                fails.append(("lengths", ["ivlen", fn, ivlen], f"{fn} with {ivlen}-byte IV raised {type(e).__name__}"))
                continue
            if ok != (ivlen == 16):
                fails.append(("lengths", ["ivlen", fn, ivlen], f"{fn} with {ivlen}-byte IV: accepted={ok}"))
    return ev, fails, outs


def fam_wrapper(tier):
    m = _m()
    ev = 0
    fails = []
    outs = set()
    if not m.patch_pypdf_fallback_aes():
        return 1, [("wrapper", ["patch", "notapplied", 0], "patch_pypdf_fallback_aes() returned False: no fallback provider")], outs
    import pypdf._crypt_providers._fallback as fb
    import pypdf._encryption as enc
    import pypdf._crypt_providers as prov
    if enc.CryptAES is not fb.CryptAES or prov.CryptAES is not fb.CryptAES or enc.aes_cbc_decrypt is not m.aes_cbc_decrypt:
        fails.append(("wrapper", ["patch", "bindings", 0], "pypdf bindings not all patched"))
    m.patch_pypdf_fallback_aes()   # idempotent
    for n in KEYSIZES:
        key = _msg(n, 7)
        for ln in range(0, 65):
            msg = _msg(ln, n)
            ev += 1
            c = fb.CryptAES(key)
            ct = c.encrypt(msg)
            ct2 = c.encrypt(msg)
            padn = 16 - ln % 16
            if len(ct) != 16 + ln + padn:
                fails.append(("wrapper", ["encrypt_len", n * 8, ln], f"encrypt({ln} bytes) gives {len(ct)} bytes, expected IV + {ln + padn}"))
                continue
            ivx = ct[:16]
            if ivx == ct2[:16]:
                fails.append(("wrapper", ["fresh_iv", n * 8, ln], "two encryptions used the same IV"))
            plain = R.cbc_decrypt(key, ivx, ct[16:])
            outs.add((ln, plain[-1]))
            if plain != msg + bytes([padn]) * padn:
                fails.append(("wrapper", ["encrypt_pad", n * 8, ln], f"ciphertext of a {ln}-byte message decrypts (reference) to {h(plain[-16:])}: wrong PKCS#7 padding / data"))
            try:
                back = c.decrypt(ct)
            except Exception as e:  # noqa
                back = None
                fails.append(("wrapper", ["roundtrip", n * 8, ln % 16], f"decrypt(encrypt(m)) raised {type(e).__name__}: {e} for len {ln}"))
            if back is not None and back != msg:
                fails.append(("wrapper", ["roundtrip", n * 8, ln % 16], f"decrypt(encrypt(m)) != m for len {ln}: got {len(back)} bytes"))
            # reference-produced ciphertext (every padding byte value 1..16 occurs over ln = 0..64)
            iv = _msg(16, ln)
            rct = iv + R.cbc_encrypt(key, iv, msg + bytes([padn]) * padn)
            try:
                back = fb.CryptAES(key).decrypt(rct)
            except Exception as e:  # noqa
                fails.append(("wrapper", ["decrypt_ref", n * 8, ln % 16], f"decrypt of reference ciphertext (len {ln}, pad {padn}) raised {type(e).__name__}: {e}"))
                continue
            if back != msg:
                fails.append(("wrapper", ["decrypt_ref", n * 8, ln % 16], f"decrypt of reference ciphertext (len {ln}, pad {padn}) returns {len(back)} bytes"))
    return ev, fails, outs


def fam_cache(arg):
    """all key-use sequences of length <= L over 5 keys: results equal the uncached computation"""
    m = _m()
    L, first = arg
    keys = [bytes([i + 1]) * 16 for i in range(3)] + [bytes([9]) * 24, bytes([7]) * 32]
    pt = _msg(16, 2)
    exp = [R.encrypt_block(pt, k) for k in keys]
    ev = 0
    fails = []
    outs = set()
    for n in range(1, L + 1):
        for seq in itertools.product(range(5), repeat=n):
            if seq[0] != first:
                continue
            m._ROUND_KEY_CACHE.clear()
            ev += 1
            for j, ki in enumerate(seq):
                try:
                    got = m.aes_ecb_encrypt(keys[ki], pt)
                except Exception as e:  # noqa
                    fails.append(("cache", ["cache", list(seq[:j + 1])], f"key-use sequence {seq[:j + 1]} raised {type(e).__name__}: {e}"))
                    break
                if got != exp[ki]:
                    fails.append(("cache", ["cache", list(seq[:j + 1])], f"after key-use sequence {seq[:j + 1]} the ciphertext is wrong"))
                    break
            if len(m._ROUND_KEY_CACHE) > 4:
                fails.append(("cache", ["cache_size", list(seq)], f"cache holds {len(m._ROUND_KEY_CACHE)} > 4 keys"))
            outs.add(tuple(m._ROUND_KEY_CACHE.keys()))
    m._ROUND_KEY_CACHE.clear()
    return ev, fails, {hash(o) for o in outs}


FAMS = {"tables": fam_tables, "gfmul": fam_gfmul, "shiftrows": fam_shiftrows, "mix_small": fam_mix_small, "mix_full": fam_mix_full,
        "keyschedule": fam_keyschedule, "blocks": fam_blocks, "modes": fam_modes, "lengths": fam_lengths, "wrapper": fam_wrapper,
        "cache": fam_cache}


def _task(arg):
    name, a = arg
    ev, fails, outs = FAMS[name](a)
    return {"name": name, "ev": ev, "fails": fails[:500], "nfails": len(fails), "outs": len(outs)}


def reexec(fmt, case):
    """Re-run the family the case belongs to and report whether this case still fails."""
    fam = {"table": "tables", "gfmul": "gfmul", "shift_rows": "shiftrows", "inv_shift_rows": "shiftrows", "shift_inverse": "shiftrows",
           "expand_key": "keyschedule", "encrypt": "blocks", "decrypt": "blocks", "fips197": "blocks", "sp800-38a": "blocks",
           "keylen": "lengths", "datalen": "lengths", "ivlen": "lengths", "cache": "cache", "cache_size": "cache",
           "mix_columns": None, "inv_mix_columns": None, "mix_inverse": None}.get(case[0], "__")
    if fam is None:
        m = _m()
        fails = []
        col = case[2:6]
        k = case[1]
        cols = [[0, 0, 0, 0]] * 4
        cols = [list(c) for c in cols]
        cols[k] = list(col)
        _mix_check(m, cols, fails, set())
        return [(c, msg) for c, cs, msg in fails]
    if fam == "__":
        fam = {"ecb_encrypt": "modes", "ecb_roundtrip": "modes", "cbc_encrypt": "modes", "cbc_roundtrip": "modes", "cbc_decrypt": "modes",
               "cbc_bytearray": "modes"}.get(case[0], "wrapper")
    if fam == "cache":
        out = []
        for first in range(5):
            ev, fails, _ = fam_cache((len(case[1]), first))
            out += [(c, msg) for c, cs, msg in fails if cs == case]
        return out
    ev, fails, _ = FAMS[fam]("quick")
    return [(c, msg) for c, cs, msg in fails if cs == case]


def shrinks(case):
    return []


def embeds(small, big):
    return small[0] == big[0] and (small[0] != "table" or small[1] == big[1])


def run(ctx):
    tasks = [("tables", ctx.tier), ("gfmul", ctx.tier), ("shiftrows", ctx.tier), ("keyschedule", ctx.tier), ("blocks", ctx.tier),
             ("modes", ctx.tier), ("lengths", ctx.tier), ("wrapper", ctx.tier)]
    nparts = 16
    tasks += [("mix_small", (k, nparts)) for k in range(nparts)]
    L = 5 if ctx.quick else 7
    tasks += [("cache", (L, first)) for first in range(5)]
    if not ctx.quick:
        tasks += [("mix_full", (a, a + 2)) for a in range(0, 256, 2)]
    random.Random(ctx.seed).shuffle(tasks)
    res = P.run_all("verif.props.C20", "_task", tasks, n=ctx.ncpu, hard_timeout=7200)
    ev = 0
    fails = []
    per = {}
    outs = 0
    herr = []
    for (st, r, _), t in zip(res, tasks):
        if st != "done":
            herr.append(f"task {t} failed: {st}: {str(r)[-500:]}")
            continue
        ev += r["ev"]
        per[r["name"]] = per.get(r["name"], 0) + r["ev"]
        outs += r["outs"]
        fails += [(c, "aes", cs, msg) for c, cs, msg in r["fails"]]
    cov = {"evaluations": ev, "distinct_nontrivial": outs,
           "rule": "complete enumeration of each finite component domain: 8 tables x 256 (+RCON, RotWord, SubWord), 65536 GF products, "
                   "16 positions x 255 values for (Inv)ShiftRows, all 1- and 2-byte MixColumns columns (quick) / all 2^32 columns (thorough), "
                   "key schedules of all single-bit and byte-repeated keys for 128/192/256, VarTxt/GFSbox/VarKey block families vs the "
                   "reference, FIPS-197 App. C + SP 800-38A ECB/CBC, drivers for 0..4 blocks, wrapper for every message length 0..64 x 3 "
                   "key sizes, key lengths 0..40 / data lengths 0..64 / IV lengths 0..32, all round-key-cache use sequences up to length L "
                   "over 5 keys; distinct_nontrivial = distinct observed outputs summed over families",
           "per_family": per, "exhaustive": True, "bounds": {"mixcolumns": "2-byte columns" if ctx.quick else "2^32", "cache_sequence_length": L},
           "samples": [{"family": "blocks", "case": "AES-192 key=00..17 pt=00112233.. -> dda97ca4864cdfe06eaf70a0ec0d7191 (FIPS-197 C.2)"},
                       {"family": "wrapper", "case": "CryptAES(key).encrypt(37-byte msg) -> 16-byte IV + 48 bytes; reference CBC decrypt ends in 0b x 11"},
                       {"family": "cache", "case": "key-use sequence (0,1,2,3,4,0): eviction of key 0 then re-expansion"}]}
    return {"coverage": cov, "failures": fails, "harness_errors": herr,
            "assumptions": ["reference AES (verif/ref/aes.py) is itself validated against the hard-coded FIPS-197/SP 800-38A vectors in the same run",
                            "round functions have no data-dependent control flow, so table/linear-layer exhaustiveness + wiring vectors determine the cipher"]}
