"""C04 helper: the generated part of the results corpus (documents of every reference writer in verif.gen), the
document-property value alphabet, and the single-deviation byte mutations.

    build(fmt, body, meta, seed) -> {"data": bytes, "props": {adm key: value written}, "members": [archive member names],
                                     "used": [body features really rendered]}
    mutate(fmt, data, mut)       -> bytes | None      mut = [kind, i]  (None: the mutation does not apply / changes nothing)

`body` is a list of feature names (a feature the format's writer cannot express is skipped), `meta` maps an ADM
property key (title / author / subject / keywords / description) to a list of value features (see SEP): the value
written is  tok0 + SEP[f1] + tok1 + SEP[f2] + tok2 ...  with fresh class-Z tokens, so it never has leading or trailing
white space and every feature sits between two tokens - unless the list holds one position modifier (POS: pstart / pend /
palone), which puts the feature characters at the start / at the end of the value / makes them the whole value.
Nothing here shares code with the library.
"""
from __future__ import annotations

import io
import struct
import zipfile
import zlib

from verif.gen.tokens import Tokens

# ------------------------------------------------------------------------------------------------ value alphabet

SEP = {"sp": " ", "sp2": "  ", "amp": "&", "lt": "<", "gt": ">", "quot": '"', "apos": "'", "ent": "&amp;",
       "lbr": "{", "rbr": "}", "bsl": "\\", "euro": "€", "nonbmp": "\U0001F600", "rtl": "שלום"}
# terminal characters: a value ending in a capital letter, a digit, a dot (clean-up code that strips date suffixes such as the
# "Z" of a timestamp must not touch textual properties)
ENDS = {"endZ": "Z", "endT": "T", "end0": "0", "enddot": "."}
VALUE_FEATURES = list(SEP) + list(ENDS)
# POSITION modifiers of a value: the feature characters sit at the START of the value, at its END (the last thing before the
# closing delimiter of the field), or are the WHOLE value - instead of between two tokens.  Decoders that look ahead / behind
# (escape + fallback pairs, entity scanning, trimming of brackets and quotes) have their boundary cases there.  White space
# features are not combined with a position (no leading / trailing white space, see the assumptions).
POS = ("pstart", "pend", "palone")
POS_FEATURES = [f for f in SEP if f not in ("sp", "sp2")]
META_KEYS = ("title", "author", "subject", "keywords", "description")
UNI_TEXT = " \U0001F600 שלום &<>\"' é "
UNI_TEXT_CP1252 = " &<>\"' é "


def valid_value(feats) -> bool:
    pos = [f for f in feats if f in POS]
    return (all(f in VALUE_FEATURES or f in POS for f in feats) and len(pos) <= 1
            and not (pos and any(f in ("sp", "sp2") for f in feats)))


def meta_value(feats, tk: Tokens) -> str:
    pos = [f for f in feats if f in POS]
    seps = "".join(SEP[f] for f in feats if f in SEP)
    if pos and seps:
        v = {"pstart": lambda: seps + tk.new("Z"), "pend": lambda: tk.new("Z") + seps, "palone": lambda: seps}[pos[0]]()
    else:
        v = tk.new("Z")
        for f in feats:
            if f in SEP:
                v += SEP[f] + tk.new("Z")
    for f in feats:
        if f in ENDS:
            v += ENDS[f]
    return v


# ------------------------------------------------------------------------------------------------ images

def _png_chunk(t: bytes, d: bytes) -> bytes:
    return struct.pack(">I", len(d)) + t + d + struct.pack(">I", zlib.crc32(t + d) & 0xFFFFFFFF)


def png(w: int, h: int, uid: int) -> bytes:
    raw = (b"\x00" + bytes([(uid * 37 + 11) & 0xFF]) * w) * h
    return (b"\x89PNG\r\n\x1a\n" + _png_chunk(b"IHDR", struct.pack(">IIBBBBB", w, h, 8, 0, 0, 0, 0)) +
            _png_chunk(b"tEXt", b"Comment\x00verif-c04-%d" % uid) + _png_chunk(b"IDAT", zlib.compress(raw, 9)) +
            _png_chunk(b"IEND", b""))


def jpeg(w: int, h: int, uid: int) -> bytes:
    """Baseline grey JPEG (every 8x8 block: DC difference 0, end-of-block)."""
    out = bytearray(b"\xff\xd8")
    out += b"\xff\xe0" + struct.pack(">H", 16) + b"JFIF\x00\x01\x01\x00\x00\x01\x00\x01\x00\x00"
    com = b"verif-c04-%d" % uid
    out += b"\xff\xfe" + struct.pack(">H", 2 + len(com)) + com
    out += b"\xff\xdb" + struct.pack(">H", 67) + b"\x00" + bytes([1] * 64)
    out += b"\xff\xc0" + struct.pack(">HBHHB", 11, 8, h, w, 1) + bytes([1, 0x11, 0])
    for tc in (0x00, 0x10):
        out += b"\xff\xc4" + struct.pack(">H", 20) + bytes([tc, 1] + [0] * 15 + [0])
    out += b"\xff\xda" + struct.pack(">HB", 8, 1) + bytes([1, 0x00]) + b"\x00\x3f\x00"
    nbits = 2 * ((w + 7) // 8) * ((h + 7) // 8)
    bits = "0" * nbits + "1" * (-nbits % 8)
    out += bytes(int(bits[i:i + 8], 2) for i in range(0, len(bits), 8)).replace(b"\xff", b"\xff\x00")
    out += b"\xff\xd9"
    return bytes(out)


# ------------------------------------------------------------------------------------------------ formats

ADM_FORMATS = ("docx", "pptx", "odt", "odp", "odg", "odf", "rtf", "pdf", "ppt", "txt", "md", "json")
SHEET_FORMATS = ("xlsx", "ods", "xls", "csv")
HTML_FORMATS = ("html", "mhtml", "epub")
MAIL_FORMATS = ("eml", "mbox")
ARCHIVE_FORMATS = ("zip", "tar", "7z")
FORMATS = ADM_FORMATS + SHEET_FORMATS + HTML_FORMATS + MAIL_FORMATS + ARCHIVE_FORMATS

# body features in canonical order; what a feature means per family is described in build_*
BODY_ALL = ["text", "uni", "sur", "surl", "h", "hu", "tbl", "tblu", "rag", "img", "imgx", "imge", "ul", "ulu", "a", "au", "types", "att", "u2",
            "notes", "notesu", "hf", "hfu", "hexesc", "uhexesc"]
# position modifiers: the text of heading / table cell / list item / link / notes / header+footer carries the non-BMP / RTL / markup
# characters of "uni" (a paragraph is only one of the places where text lives; each place has its own decoding path in an
# extractor).  A modifier brings its own element when the plain feature is absent, and replaces it when both are given.
UNI_POS = {"hu": "h", "tblu": "tbl", "ulu": "ul", "au": "a", "notesu": "notes", "hfu": "hf"}
VARIANTS = {"rtf": ["hexesc", "uhexesc"]}      # writer variants that change how text (also property values) is encoded
IMG_MODES = ("imgx", "imge")
RICH_EXTRA = ("sur", "surl", "imgx", "imge", "hexesc", "uhexesc") + tuple(UNI_POS)   # not part of the "rich" document (they damage or modify it); each is added to it in a variant of its own
_PUA = "\ue000"                     # placeholder that is byte-patched into a lone high surrogate (UTF-16LE 3D D8) for "sur"


def _patch_surrogate(data: bytes, before: str, after: str, unit: bytes = b"\x3d\xd8") -> bytes:
    """the single UTF-16LE occurrence of before+U+E000+after gets U+D83D (a lone high surrogate; or `unit`) instead of U+E000"""
    old = (before + _PUA + after).encode("utf-16-le")
    if data.count(old) != 1:
        raise ValueError("surrogate placeholder not found exactly once")
    return data.replace(old, before.encode("utf-16-le") + unit + after.encode("utf-16-le"))
# document properties each writer can store
META_CAPS = {"docx": META_KEYS, "pptx": META_KEYS, "xlsx": META_KEYS, "odt": META_KEYS, "odp": META_KEYS, "ods": META_KEYS,
             "odg": META_KEYS, "odf": META_KEYS, "rtf": META_KEYS, "ppt": META_KEYS, "xls": META_KEYS,
             "pdf": ("title", "author", "subject", "keywords"),
             "html": ("title", "author", "keywords", "description"), "mhtml": ("title", "author", "keywords", "description"),
             "epub": ("title", "author", "subject", "description")}
# parts of ZIP packages that receive part-level byte deviations (package re-zipped afterwards)
PARTS = {"docx": ["word/document.xml", "docProps/core.xml", "word/_rels/document.xml.rels"],
         "pptx": ["ppt/slides/slide1.xml", "docProps/core.xml", "ppt/slides/_rels/slide1.xml.rels"],
         "xlsx": ["xl/worksheets/sheet1.xml", "docProps/core.xml", "xl/workbook.xml"],
         "odt": ["content.xml", "meta.xml", "META-INF/manifest.xml"], "odp": ["content.xml", "meta.xml", "META-INF/manifest.xml"],
         "ods": ["content.xml", "meta.xml", "META-INF/manifest.xml"], "odg": ["content.xml", "meta.xml", "META-INF/manifest.xml"],
         "odf": ["content.xml", "meta.xml", "META-INF/manifest.xml"],
         "epub": ["OEBPS/ch1.xhtml", "OEBPS/content.opf", "META-INF/container.xml"]}


def _adm_writer(fmt):
    if fmt in ("docx", "pptx"):
        from verif.gen import ooxml
        return getattr(ooxml, fmt), getattr(ooxml, "CAPS_" + fmt.upper())
    if fmt in ("odt", "odp", "odg", "odf"):
        from verif.gen import odf
        return getattr(odf, fmt), getattr(odf, "CAPS_" + fmt.upper())
    if fmt == "rtf":
        from verif.gen import rtf
        return rtf.rtf, rtf.CAPS_RTF
    if fmt == "pdf":
        from verif.gen import pdfw
        return pdfw.pdf, pdfw.CAPS_PDF
    if fmt == "ppt":
        from verif.gen import pptbin
        return pptbin.ppt, pptbin.CAPS_PPT
    from verif.gen import plain
    return {"txt": plain.txt, "md": plain.md, "json": plain.json_}[fmt], plain.CAPS_PLAIN[fmt]


def _p(tok):
    return ["p", [["t", tok]]]


def _meta(fmt, meta, tk, props):
    out = {}
    for k in META_KEYS:
        if k in (meta or {}) and k in META_CAPS.get(fmt, ()):
            out[k] = props[k] = meta_value(meta[k], tk)
    return out


def build_adm(fmt, body, meta, tk):
    """text: paragraph | uni: paragraph with non-BMP / RTL / markup characters | h: heading | tbl: table of 2 rows x 3 columns | img: picture |
    ul: two-item list | a: hyperlink | u2: second unit (page / slide) with a paragraph (and a second picture) |
    notes: speaker notes | hf: page header + footer | sur (rtf, ppt): a paragraph holding a lone high surrogate (RTF: \\u-10179? without
    its partner; PPT: the UTF-16LE code unit 3D D8 patched into the TextCharsAtom) | imgx / imge (docx, pptx, odt, odp, odg): every
    picture reference dangles (part not stored) / is an external link; without "img" they bring their own picture |
    hexesc (rtf): characters of code page 1252 are written as \\'xx instead of \\uN? | uhexesc (rtf): they are written as
    \\uN\\'xx - the Unicode escape followed by its one-byte fallback as a hex escape (what Word does)."""
    writer, caps = _adm_writer(fmt)
    props, used = {}, []
    m = _meta(fmt, meta, tk, props)
    blocks, extras = [], {}
    png_ok = fmt not in ("pdf",)
    images = {}

    def img(key, uid):
        images[key] = (png(3, 2, uid), "png") if png_ok else (jpeg(16, 8, uid), "jpeg")

    mode = "imgx" if "imgx" in body else ("imge" if "imge" in body else None)
    if mode and fmt not in ("docx", "pptx", "odt", "odp", "odg"):
        mode = None
    sur = None
    uni_text = UNI_TEXT_CP1252 if fmt == "pdf" else UNI_TEXT
    upos = {UNI_POS[f] for f in body if f in UNI_POS}
    body = [f for f in body if not (f in upos and f in UNI_POS.values())]      # the modifier replaces the plain feature
    body = [UNI_POS.get(f, f) for f in body]

    def tok(cls, feature):
        """a token of class cls; inside a feature whose position modifier is set: token + uni characters + token"""
        return tk.new(cls) + uni_text + tk.new(cls) if feature in upos else tk.new(cls)

    def mark(feature):
        used.append(feature)
        if feature in upos:
            used.append(feature + "u")

    for f in body:
        if f == "h" and "h" in caps:
            blocks.insert(0, ["h", 1, [["t", tok("H", "h")]]]); mark(f)
        elif f in ("sur", "surl") and fmt in ("rtf", "ppt"):
            # a lone high (sur) / lone LOW (surl: U+DE00, the second half of a pair on its own) surrogate
            a, b = tk.new("B"), tk.new("B")
            if fmt == "rtf":
                blocks.append(_p(a + ("\ud83d" if f == "sur" else "\ude00") + b))
            else:
                blocks.append(_p(a + _PUA + b)); sur = (a, b, b"\x3d\xd8" if f == "sur" else b"\x00\xde")
            used.append(f)
        elif f in IMG_MODES and f == mode and "img" not in body:
            img("k", 1); blocks.append(["img", "k"]); used.append(f)
        elif f == "text":
            blocks.append(_p(tk.new("B"))); used.append(f)
        elif f == "uni" and fmt not in ("odf",):
            t = tk.new("B") + (UNI_TEXT_CP1252 if fmt == "pdf" else UNI_TEXT) + tk.new("B")
            blocks.append(_p(t)); used.append(f)
        elif f == "tbl" and "tbl" in caps:
            c = [tk.new("C") for _ in range(6)]
            if "tbl" in upos:
                c[0], c[4] = tok("C", "tbl"), tok("C", "tbl")          # first cell of the first row, middle cell of the second
            blocks.append(["tbl", [[[_p(c[0])], [_p(c[1])], [_p(c[2])]], [[_p(c[3])], [_p(c[4])], [_p(c[5])]]]]); mark(f)
        elif f == "img" and "img" in caps:
            img("k", 1); blocks.append(["img", "k"]); used.append(f)
            if mode:
                used.append(mode)
        elif f == "ul" and "ul" in caps:
            blocks.append(["ul", [[_p(tok("L", "ul"))], [_p(tok("L", "ul"))]]]); mark(f)
        elif f == "a" and "a" in caps:
            blocks.append(["p", [["a", "http://verif.invalid/x?a=1&b=2", [["t", tok("K", "a")]]]]]); mark(f)
        elif f == "notes" and "extra:notes" in caps:
            extras["notes"] = [tok("P", "notes")]; mark(f)
        elif f == "hf" and "meta:header" in caps:
            m["header"] = tok("R", "hf"); m["footer"] = tok("R", "hf"); mark(f)
    if fmt in ("odf", "json") and not blocks:
        blocks.append(_p(tk.new("B")))
    if fmt == "odf":
        blocks = blocks[:1]
    units = [["unit", blocks, extras]]
    if "u2" in body and "multiunit" in caps:
        b2 = [_p(tk.new("B"))]
        if "img" in used:
            img("k2", 2); b2.append(["img", "k2"])
        units.append(["unit", b2, {}]); used.append("u2")
    doc = ["doc", m, units]
    if fmt in ("txt", "md", "json"):
        data = writer(doc, None)
    elif fmt == "ppt":
        data = writer(doc, {k: v[0] for k, v in images.items()}, None)
        if sur:
            data = _patch_surrogate(data, sur[0], sur[1], sur[2])
    elif fmt == "rtf" and "hexesc" in body:
        data = writer(doc, images, {"escape": "hex"}); used.append("hexesc")
    elif fmt == "rtf" and "uhexesc" in body:
        data = writer(doc, images, {"escape": "uhex"}); used.append("uhexesc")
    elif mode and fmt in ("docx", "pptx"):
        data = writer(doc, images, {"image_ref": "missing" if mode == "imgx" else "external"})
    elif mode:
        data = writer(doc, _odf_images(images, mode), None)
    else:
        data = writer(doc, images, None)
    return {"data": data, "props": props, "members": [], "used": used}


def _odf_images(images, mode):
    if mode == "imgx":
        return {k: (v[0], v[1], {"href": "missing"}) for k, v in images.items()}
    return {k: ("http://verif.invalid/%s.%s" % (k, v[1]), v[1]) for k, v in images.items()}


def build_sheet(fmt, body, meta, tk):
    """text: 2x2 string / number grid | uni: a string cell with non-BMP / RTL / markup characters | types: one row of typed
    cells | img: a picture on the first sheet | u2: a second sheet | hf: page header + footer | sur (xls): a string cell whose
    UTF-16LE text holds a lone high surrogate (patched into the SST) | imgx / imge (xlsx, ods): dangling / external picture."""
    props, used = {}, []
    m = _meta(fmt, meta, tk, props)
    grid = []
    sur = None
    for f in body:
        if f == "text":
            grid.append([["s", tk.new("C")], ["s", tk.new("C")]]); grid.append([["s", tk.new("C")], ["i", 5]]); used.append(f)
        elif f == "uni":
            grid.append([["s", tk.new("C") + UNI_TEXT + tk.new("C")], ["s", tk.new("C")]]); used.append(f)
        elif f == "sur" and fmt == "xls":
            a, b = tk.new("C"), tk.new("C")
            grid.append([["s", a + _PUA + b], ["s", tk.new("C")]]); sur = (a, b); used.append(f)
        elif f == "types":
            grid.append([["f", 1.5], ["b", True], ["d", "2024-03-05"], ["tm", "14:07:09"], ["dur", 3661], ["err", "#DIV/0!"],
                         ["fml", "=1+2", ["i", 3]]]); used.append(f)
    sheets = [["sheet", tk.new("N"), grid]]
    if "u2" in body and fmt != "csv":
        sheets.append(["sheet", tk.new("N"), [[["s", tk.new("C")]]]]); used.append("u2")
    mode = "imgx" if "imgx" in body else ("imge" if "imge" in body else None)
    if fmt not in ("xlsx", "ods"):
        mode = None
    hasimg = ("img" in body or mode is not None) and fmt != "csv"
    images = {"k": (png(3, 2, 1), "png")}
    if hasimg:
        used.append("img" if "img" in body else mode)
        if mode and "img" in body:
            used.append(mode)
    if ("hf" in body or "hfu" in body) and fmt in ("ods", "xls"):
        u = UNI_TEXT if "hfu" in body else ""
        m["header"] = tk.new("R") + (u + tk.new("R") if u else ""); m["footer"] = tk.new("R") + (u + tk.new("R") if u else "")
        used.append("hf")
        if u:
            used.append("hfu")
    doc = ["doc", m, sheets]
    if fmt == "xlsx":
        from verif.gen import ooxml
        o = {"sheet_images": {0: ["k"]}} if hasimg else {}
        if mode:
            o["image_ref"] = "missing" if mode == "imgx" else "external"
        data = ooxml.xlsx(doc, images, o or None)
    elif fmt == "ods":
        from verif.gen import odf
        data = odf.ods(doc, _odf_images(images, mode) if mode else images, {"images_at": [[0, "k"]]} if hasimg else None)
    elif fmt == "xls":
        from verif.gen import biff8
        data = biff8.xls(doc, {"k": images["k"][0]}, {"pictures": [[0, "k"]]} if hasimg else None)
        if sur:
            data = _patch_surrogate(data, sur[0], sur[1])
    else:
        from verif.gen import plain
        data = plain.csv(["doc", {}, sheets[:1]], None)
    return {"data": data, "props": props, "members": [], "used": used}


def _x(s: str) -> str:
    return s.replace("&", "&amp;").replace("<", "&lt;").replace(">", "&gt;")


def _xa(s: str) -> str:
    return _x(s).replace('"', "&quot;")


def html_body(body, tk, used, img_src, modes_ok=False):
    out = []
    upos = {UNI_POS[f] for f in body if f in UNI_POS and UNI_POS[f] in ("h", "tbl", "ul", "a")}
    body = [f for f in body if not (f in upos and f in UNI_POS.values())]
    body = [UNI_POS[f] if f in UNI_POS and UNI_POS[f] in upos else f for f in body]

    def tok(cls, feature):
        return tk.new(cls) + _x(UNI_TEXT) + tk.new(cls) if feature in upos else tk.new(cls)

    def mark(feature):
        used.append(feature)
        if feature in upos:
            used.append(feature + "u")

    for f in body:
        if f == "h":
            out.insert(0, "<h1>%s</h1>" % tok("H", "h")); mark(f)
        elif f == "text":
            out.append("<p>%s %s</p>" % (tk.new("B"), tk.new("B"))); used.append(f)
        elif f == "uni":
            out.append("<p>%s%s%s</p>" % (tk.new("B"), _x(UNI_TEXT), tk.new("B"))); used.append(f)
        elif f == "tbl":
            c = [tk.new("C") for _ in range(6)]
            if "tbl" in upos:
                c[0], c[4] = tok("C", "tbl"), tok("C", "tbl")
            out.append("<table><tr><td>%s</td><td>%s</td><td>%s</td></tr><tr><td>%s</td><td>%s</td><td>%s</td></tr></table>" % tuple(c))
            mark(f)
        elif f == "rag":
            c = [tk.new("C") for _ in range(6)]
            out.append('<table><tr><td>%s</td><td>%s</td><td>%s</td></tr><tr><td>%s</td></tr><tr><td colspan="2">%s</td><td>%s</td></tr>'
                       '</table>' % tuple(c)); used.append(f)
        elif f == "img" or (modes_ok and f in IMG_MODES and "img" not in body and f == next(x for x in body if x in IMG_MODES)):
            out.append('<p><img src="%s" alt="%s"/></p>' % (img_src, tk.new("Z"))); used.append(f)
        elif f == "ul":
            out.append("<ul><li>%s</li><li>%s</li></ul>" % (tok("L", "ul"), tok("L", "ul"))); mark(f)
        elif f == "a":
            out.append('<p><a href="http://verif.invalid/x?a=1&amp;b=2">%s</a></p>' % tok("K", "a")); mark(f)
    return "".join(out)


def build_html(fmt, body, meta, tk):
    """text / uni / h / tbl / img / ul / a: the HTML elements p, h1, table, img, ul, a; rag: a table with rows of 3, 1 and 2 cells
    (one colspan=2); imgx / imge: the img src names a file that is not there / an external URL; u2 (epub): a second chapter.
    Document properties: <title> and <meta name=author|keywords|description> (html, mhtml); dc:title / dc:creator /
    dc:subject / dc:description of the package document (epub)."""
    from verif.gen import htmlfam
    props, used = {}, []
    m = _meta(fmt, meta, tk, props)
    mode = "imgx" if "imgx" in body else ("imge" if "imge" in body else None)
    if fmt == "epub":
        inner = html_body(body, tk, used, {"imgx": "img/absent.png", "imge": "http://verif.invalid/k.png", None: "img/k.png"}[mode], True)
        if mode and "img" in used:
            used.append(mode)
        chapters = [htmlfam.xhtml_page(inner, "t")]
        if "u2" in body:
            chapters.append(htmlfam.xhtml_page("<p>%s</p>" % tk.new("B"), "t")); used.append("u2")
        dc = {"identifier": "urn:verif:c04", "language": "en"}
        for k, tag in (("title", "title"), ("author", "creator"), ("subject", "subject"), ("description", "description")):
            if k in m:
                dc[tag] = _x(m[k])
        dc.setdefault("title", "Zttttt")
        items = [("img1", "img/k.png", "image/png", png(3, 2, 1))] if ("img" in used or mode) else None
        return {"data": htmlfam.epub(chapters, dc, extra_items=items), "props": props, "members": [], "used": used}
    src = "http://h/k.png"
    inner = html_body(body, tk, used, src)
    head = "".join('<meta name="%s" content="%s">' % (k, _xa(m[k])) for k in ("author", "keywords", "description") if k in m)
    title = "<title>%s</title>" % _x(m["title"]) if "title" in m else ""
    page = '<!DOCTYPE html><html lang="en"><head><meta charset="utf-8">%s%s</head><body>%s</body></html>' % (title, head, inner)
    if fmt == "html":
        return {"data": page.encode("utf-8"), "props": props, "members": [], "used": used}
    extra = [("image/png", src, png(3, 2, 1))] if "img" in used else None
    return {"data": htmlfam.mhtml(page, "quoted-printable", extra), "props": props, "members": [], "used": used}


def mail_spec(body, tk, used, i):
    """text: plain body | uni: non-ASCII subject (RFC 2047 B) and body | tbl: an HTML alternative holding a table |
    img: multipart/related with an inline image | att: two attachments (text/plain, application/octet-stream)."""
    from verif.gen import mail
    spec = {"message_id": "<c04.%d@verif.example>" % i, "charset": "utf-8", "cte": "base64"}
    plain = tk.new("B") if "text" in body else ""
    if "text" in body:
        used.append("text")
    if "uni" in body:
        spec["subject"] = ["utf8-b", tk.new("H") + UNI_TEXT + tk.new("H")]
        plain += UNI_TEXT + tk.new("B"); used.append("uni")
    html = None
    if "tbl" in body:
        c = [tk.new("C") for _ in range(6)]
        html = ("<html><body><p>%s</p><table><tr><td>%s</td><td>%s</td><td>%s</td></tr><tr><td>%s</td><td>%s</td><td>%s</td></tr></table>"
                "</body></html>\n" % ((tk.new("B"),) + tuple(c)))
        used.append("tbl")
    if "img" in body:
        spec["structure"] = "related-html-img"
        spec["body_html"] = (html or "<html><body><p>%s</p></body></html>\n" % tk.new("B")).replace(
            "</body>", '<img src="cid:%s"></body>' % mail.INLINE_CID)
        used.append("img")
        return spec
    if "att" in body:
        spec["structure"] = "mixed-alt-att"; used.append("att")
        spec["body_html"] = html or "<html><body><p>%s</p></body></html>\n" % tk.new("B")
        spec["body_plain"] = plain + "\n"
    elif html:
        spec["structure"] = "alternative"
        spec["body_html"] = html
        spec["body_plain"] = plain + "\n"
    else:
        spec["structure"] = "plain"
        spec["body_plain"] = plain + "\n" if plain else ""
    return spec


def build_mail(fmt, body, meta, tk):
    """u2 (mbox): a second message (plain)."""
    from verif.gen import mail
    used = []
    s0 = mail_spec(body, tk, used, 0)
    if fmt == "eml":
        return {"data": mail.eml(s0), "props": {}, "members": [], "used": used}
    specs = [s0]
    if "u2" in body:
        specs.append(mail_spec(["text"], tk, [], 1)); used.append("u2")
    return {"data": mail.mbox(specs, None), "props": {}, "members": [], "used": used}


def build_archive(fmt, body, meta, tk):
    """text: member b.txt | tbl: member d/a.docx (paragraph, table, picture) | uni: member "ü ä/c.html" |
    u2: member d/e/f.md.  zip: deflate; tar: pax headers; 7z: solid, copy coder."""
    members, used = [], []
    for f in body:
        if f == "tbl":
            d = build_adm("docx", ["text", "tbl", "img"], {"title": []}, tk)["data"]
            members.append({"name": "d/a.docx", "data": d}); used.append(f)
        elif f == "text":
            members.append({"name": "b.txt", "data": (tk.new("B") + "\n").encode()}); used.append(f)
        elif f == "uni":
            d = build_html("html", ["text", "tbl"], {"title": ["amp"]}, tk)["data"]
            members.append({"name": "ü ä/c.html", "data": d}); used.append(f)
        elif f == "u2":
            members.append({"name": "d/e/f.md", "data": ("# " + tk.new("H") + "\n\n" + tk.new("B") + "\n").encode()}); used.append(f)
    if fmt == "zip":
        from verif.gen import zipforge
        data = zipforge.zipforge([dict(mm, method=8) for mm in members], None)
    elif fmt == "tar":
        from verif.gen import tarforge
        data = tarforge.tarforge(members, None, "pax")
    else:
        from verif.gen import sevenz
        data = sevenz.sevenz(members, None)
    return {"data": data, "props": {}, "members": [mm["name"] for mm in members], "used": used}


def build(fmt, body, meta, seed):
    tk = Tokens(seed)
    body = [f for f in BODY_ALL if f in (body or [])]      # canonical order, no repeats
    if fmt in ADM_FORMATS:
        return build_adm(fmt, body, meta, tk)
    if fmt in SHEET_FORMATS:
        return build_sheet(fmt, body, meta, tk)
    if fmt in HTML_FORMATS:
        return build_html(fmt, body, meta, tk)
    if fmt in MAIL_FORMATS:
        return build_mail(fmt, body, meta, tk)
    if fmt in ARCHIVE_FORMATS:
        return build_archive(fmt, body, meta, tk)
    raise ValueError(fmt)


# ------------------------------------------------------------------------------------------------ mutations

N_TRUNC = 16
N_FLIP = 64
XOR = {"flip": 0xFF, "bit": 0x01, "case": 0x20}


def _rezip(data: bytes, part: str, new: bytes) -> bytes:
    src = zipfile.ZipFile(io.BytesIO(data))
    out = io.BytesIO()
    with zipfile.ZipFile(out, "w") as z:
        for zi in src.infolist():
            z.writestr(zi, new if zi.filename == part else src.read(zi), compress_type=zi.compress_type)
    return out.getvalue()


def mutate(fmt, data: bytes, mut):
    """[\"trunc\", i]  keep the first i*len/16 bytes            (i in 0..15)
       [\"flip\", i]   byte at offset i*len/64 XOR 0xFF          (i in 0..63)
       [\"bit\", i]    byte at offset i*len/64 XOR 0x01          (i in 0..63)
       [\"case\", i]   byte at offset i*len/64 XOR 0x20          (i in 0..63; letter case / space <-> NUL)
       [\"pbit\", p, i], [\"pcase\", p, i]  ZIP packages: byte at offset i*len/64 of part PARTS[fmt][p] XOR 0x01 / 0x20, package re-zipped"""
    if not mut:
        return data
    kind = mut[0]
    n = len(data)
    if kind == "trunc":
        i = mut[1]
        if not 0 <= i < N_TRUNC:
            return None
        return data[:(i * n) // N_TRUNC]
    if kind in ("flip", "bit", "case"):
        i = mut[1]
        if not 0 <= i < N_FLIP or n == 0:
            return None
        o = (i * n) // N_FLIP
        return data[:o] + bytes([data[o] ^ XOR[kind]]) + data[o + 1:]
    if kind in ("pbit", "pcase"):
        p, i = mut[1], mut[2]
        parts = PARTS.get(fmt) or []
        if not 0 <= p < len(parts) or not 0 <= i < N_FLIP:
            return None
        try:
            raw = zipfile.ZipFile(io.BytesIO(data)).read(parts[p])
        except KeyError:
            return None
        if not raw:
            return None
        o = (i * len(raw)) // N_FLIP
        return _rezip(data, parts[p], raw[:o] + bytes([raw[o] ^ XOR[kind[1:]]]) + raw[o + 1:])
    return None
