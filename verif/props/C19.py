"""C19 - OMML -> LaTeX: total, deterministic, order-preserving, balanced, documented templates.

Space I: every OMML tree of a constructor grammar within depth/width bounds is built as a real
ElementTree and handed to the real `omml_to_latex`. Oracle clauses:
  raises     - no exception
  nondet     - two calls give the same string
  once       - every uniquely-labelled run occurs exactly once in the output
  order      - ... and in source order
  symbols    - each mapped symbol run (alpha, infinity, R) yields its command, as often as it occurs
  balance    - for trees without literal brace runs: brace depth never negative and ends at 0
  template   - on the well-formed subset the output equals the reference transcription (ref_latex)
"""
from __future__ import annotations

import itertools
import os
import random
from xml.etree import ElementTree as ET

from verif.mc import pool as P

LEVEL = "exploration"
M = "{http://schemas.openxmlformats.org/officeDocument/2006/math}"
UNIQ = "0123456789" + "ÀÁÂÃÄÅÆÇÈÉÊËÌÍÎÏÐÑÒÓÔÕÖØÙÚÛÜÝÞ"
TEXTS = ["L", "α", "∞", "ℝ", "(", ")", "[", "]", "{", "}", "", " "]
SYM = {"α": "\\alpha", "∞": "\\infty", "ℝ": "\\mathbb{R}"}
NARY_CHR = ["absent", "nochr", "noval", "∑", "∫", "∏", "∬", "∮"]
D_CHR = ["absent", "noval", "[", "|", ""]
D_END = {"[": "]", "|": "|", "": ""}
ACC_CHR = ["absent", "noval", "̃", "⃗", "x"]
FNAMES = ["sin", "lim", "fn"]

# ---------------------------------------------------------------- grammar


def R(t):
    return ["r", t]


def opnds(level_nodes, pairs=True, texts=TEXTS):
    """operand values: None (element absent), [] (present, empty), [n], [n1, n2]"""
    out = [None, []]
    for n in level_nodes:
        out.append([n])
    if pairs:
        for n in level_nodes:
            if n != R("L"):
                out.append([R("L"), n])
                out.append([n, R("L")])
        out.append([R("L"), R("L")])
    return out


RUNS = [R(t) for t in TEXTS]
SMALL = [None, [], [R("L")], [R("α")], [R("(")], [R(")")], [R(" ")], [R("L"), R("L")], [R("{")]]
TINY = [None, [R("L")]]


def structures(ops, ops3):
    """all structure nodes whose operands come from ops (ops3 for constructors with >= 3 operands)"""
    for a, b in itertools.product(ops, ops):
        yield ["f", a, b]
        yield ["sSup", a, b]
        yield ["sSub", a, b]
        yield ["rad", a, b]
    for a, b, c in itertools.product(ops3, ops3, ops3):
        yield ["sSubSup", a, b, c]
    for ch in NARY_CHR:
        for a, b, c in itertools.product(ops3, ops3, ops3):
            yield ["nary", ch, a, b, c]
    for bch in D_CHR:
        for ech in D_CHR:
            for es in ([], [[R("L")]], [[]], [[R("L")], [R("L")]]) + tuple([[o] for o in ops if o is not None][:12]):
                yield ["d", bch, ech, list(es)]
    for r1 in ([[R("L")]], [[R("L")], [R("L")]], [[]]):
        yield ["m", [list(r1)]]
        yield ["m", [list(r1), list(r1)]]
    for fn in FNAMES + [None]:
        for b in ops:
            yield ["func", None if fn is None else [R(fn)], b]
    for a in ops:
        yield ["bar", a]
    for ch in ACC_CHR:
        for a in ops:
            yield ["acc", ch, a]


def node_alphabet():
    """A ~70 node alphabet N1 for sequences and nesting: runs + one representative per structure shape."""
    L = [R("L")]
    out = list(RUNS)
    out += [["f", L, L], ["f", None, L], ["sSup", L, L], ["sSub", L, L], ["sSubSup", L, L, L],
            ["rad", None, L], ["rad", L, L], ["rad", None, [R("(")]], ["rad", L, [R("[")]], ["rad", None, [R("{")]],
            ["rad", None, [R(" "), R("(")]], ["rad", None, None],
            ["nary", "∑", L, L, L], ["nary", "∫", None, None, L], ["nary", "absent", L, None, L],
            ["nary", "nochr", None, None, L], ["nary", "noval", L, L, L],
            ["d", "absent", "absent", [L]], ["d", "[", "[", [L, L]], ["d", "noval", "absent", [L]], ["d", "absent", "noval", [L]],
            ["d", "nodpr", "nodpr", [L]],
            ["m", [[L, L], [L, L]]], ["func", [R("sin")], L], ["func", [R("fn")], L], ["bar", L],
            ["acc", "̃", L], ["acc", "absent", L], ["acc", "noval", L], ["acc", "noaccpr", L]]
    return out


def positions(struct_kind):
    """operand slots of each constructor, as (template builder)"""
    L = [R("L")]
    return {
        "f": [lambda x: ["f", x, L], lambda x: ["f", L, x]],
        "sSup": [lambda x: ["sSup", x, L], lambda x: ["sSup", L, x]],
        "sSub": [lambda x: ["sSub", x, L], lambda x: ["sSub", L, x]],
        "sSubSup": [lambda x: ["sSubSup", x, L, L], lambda x: ["sSubSup", L, x, L], lambda x: ["sSubSup", L, L, x]],
        "rad": [lambda x: ["rad", x, L], lambda x: ["rad", None, x], lambda x: ["rad", L, x]],
        "nary": [lambda x: ["nary", "∑", x, L, L], lambda x: ["nary", "∫", L, x, L], lambda x: ["nary", "∏", L, L, x],
                 lambda x: ["nary", "absent", None, None, x], lambda x: ["nary", "nochr", None, None, x]],
        "d": [lambda x: ["d", "[", "[", [x]], lambda x: ["d", "nodpr", "nodpr", [x]], lambda x: ["d", "absent", "absent", [L, x]]],
        "m": [lambda x: ["m", [[x, L]]], lambda x: ["m", [[L], [x]]]],
        "func": [lambda x: ["func", x, L], lambda x: ["func", [R("sin")], x]],
        "bar": [lambda x: ["bar", x]],
        "acc": [lambda x: ["acc", "̃", x], lambda x: ["acc", "noaccpr", x], lambda x: ["acc", "absent", x]],
    }[struct_kind]


KINDS = ["f", "sSup", "sSub", "sSubSup", "rad", "nary", "d", "m", "func", "bar", "acc"]


def enumerate_cases(tier):
    """Yield (family, tree). tree = [wrapper, [nodes]]"""
    quick = tier == "quick"
    # A: every single structure with operands over the operand lattice (depth 1)
    ops = opnds(RUNS, pairs=not quick)
    ops3 = SMALL if quick else opnds(RUNS, pairs=True)
    for s in structures(ops, ops3):
        yield "A", ["omath", [s]]
    # A': wrappers / property elements
    for s in structures(TINY + [[R("L"), R("L")]], TINY):
        yield "Aw", ["para", [s]]
        yield "Aw", ["props", [s]]
    # B: sequences of 2..3 nodes of the node alphabet (pending-sqrt interplay, ordering)
    N1 = node_alphabet()
    for a, b in itertools.product(N1, N1):
        yield "B2", ["omath", [a, b]]
    Nb = N1 if not quick else [n for n in N1 if n[0] != "r" or n[1] in ("L", ")", "]", "}", "(")][:30]
    for a, b, c in itertools.product(Nb, N1 if not quick else Nb, Nb):
        yield "B3", ["omath", [a, b, c]]
    # C: nesting depth 2: every operand slot of every constructor holds [n] or [n, L] / [L, n] for n in N1
    structs1 = [n for n in N1 if n[0] != "r"]
    for k in KINDS:
        for mk in positions(k):
            for n in N1:
                yield "C2", ["omath", [mk([n])]]
                yield "C2", ["omath", [mk([n, R("L")])]]
                yield "C2", ["omath", [mk([n]), R(")")]]
                yield "C2", ["omath", [mk([R("L"), n]), R("]"), R("L")]]
    # D: depth 3: slot(slot(n))
    inner_kinds = KINDS if not quick else ["f", "rad", "nary", "d", "acc", "sSup"]
    for k in KINDS:
        for mk in positions(k):
            for k2 in inner_kinds:
                for mk2 in positions(k2):
                    for n in (structs1 if not quick else structs1[::2]):
                        yield "D3", ["omath", [mk([mk2([n])])]]
                        if not quick:
                            yield "D3", ["omath", [mk([mk2([n]), R("L")]), R(")")]]
    if not quick:
        # B4: all 4-sequences over the bracket / radical / run sub-alphabet (pending-closer stack interplay)
        Nq = [n for n in N1 if n[0] == "rad" or (n[0] == "r" and n[1] in ("L", ")", "]", "}", "(", "["))] + [["f", [R("L")], [R(")")]],
                                                                                                             ["d", "[", "[", [[R("L")]]]]
        for a, b, c, d in itertools.product(Nq, repeat=4):
            yield "B4", ["omath", [a, b, c, d]]
        # E: depth 4 chains through the representative slots
        for k in KINDS:
            mk = positions(k)[-1]
            for k2 in KINDS:
                mk2 = positions(k2)[0]
                for k3 in KINDS:
                    mk3 = positions(k3)[-1]
                    for n in structs1[::2]:
                        yield "E4", ["omath", [mk([mk2([mk3([n])])])]]


# ---------------------------------------------------------------- rendering to ElementTree


class Labeler:
    def __init__(self, seed):
        chars = list(UNIQ)
        random.Random(seed).shuffle(chars)
        self.chars = chars
        self.i = 0
        self.order = []      # unique chars in source order
        self.syms = {}       # symbol -> count
        self.has_brace = False

    def text(self, t):
        if t == "L":
            if self.i >= len(self.chars):
                raise OverflowError("too many runs")
            c = self.chars[self.i]
            self.i += 1
            self.order.append(c)
            return c
        if t in SYM:
            self.syms[t] = self.syms.get(t, 0) + 1
        if t in ("{", "}"):
            self.has_brace = True
        return t


def build(tree, lab):
    wrapper, nodes = tree
    root = ET.Element(M + "oMath")
    top = root
    if wrapper == "para":
        top = ET.Element(M + "oMathPara")
        ET.SubElement(top, M + "oMathParaPr")
        top.append(root)
    for n in nodes:
        _node(root, n, lab, props=(wrapper == "props"))
    if wrapper == "para":
        # callers pass either the oMathPara or the oMath; the para wrapper must not change the result
        return top
    return root


def _operand(parent, name, val, lab, props):
    if val is None:
        return
    e = ET.SubElement(parent, M + name)
    if props:
        ET.SubElement(e, M + "ctrlPr")
    for n in val:
        _node(e, n, lab, props)


def _node(parent, n, lab, props=False):
    k = n[0]
    if k == "r":
        r = ET.SubElement(parent, M + "r")
        if props:
            rp = ET.SubElement(r, M + "rPr")
            ET.SubElement(rp, M + "sty").set(M + "val", "p")
        t = ET.SubElement(r, M + "t")
        t.text = lab.text(n[1])
        return
    el = ET.SubElement(parent, M + k)
    if k == "f":
        if props:
            pr = ET.SubElement(el, M + "fPr")
            ET.SubElement(pr, M + "type").set(M + "val", "bar")
        _operand(el, "num", n[1], lab, props)
        _operand(el, "den", n[2], lab, props)
    elif k == "sSup":
        _operand(el, "e", n[1], lab, props)
        _operand(el, "sup", n[2], lab, props)
    elif k == "sSub":
        _operand(el, "e", n[1], lab, props)
        _operand(el, "sub", n[2], lab, props)
    elif k == "sSubSup":
        _operand(el, "e", n[1], lab, props)
        _operand(el, "sub", n[2], lab, props)
        _operand(el, "sup", n[3], lab, props)
    elif k == "rad":
        if props:
            pr = ET.SubElement(el, M + "radPr")
            if n[1] is None:
                ET.SubElement(pr, M + "degHide").set(M + "val", "1")
        _operand(el, "deg", n[1], lab, props)
        _operand(el, "e", n[2], lab, props)
    elif k == "nary":
        ch = n[1]
        if ch != "absent":
            pr = ET.SubElement(el, M + "naryPr")
            if ch != "nochr":
                c = ET.SubElement(pr, M + "chr")
                if ch != "noval":
                    c.set(M + "val", ch)
            ET.SubElement(pr, M + "limLoc").set(M + "val", "undOvr")
        _operand(el, "sub", n[2], lab, props)
        _operand(el, "sup", n[3], lab, props)
        _operand(el, "e", n[4], lab, props)
    elif k == "d":
        b, e_ = n[1], n[2]
        if not (b == "nodpr" and e_ == "nodpr"):
            pr = ET.SubElement(el, M + "dPr")
            for nm, v in (("begChr", b), ("endChr", e_)):
                if v in ("absent", "nodpr"):
                    continue
                c = ET.SubElement(pr, M + nm)
                if v != "noval":
                    c.set(M + "val", v if nm == "begChr" else D_END.get(v, v))
        for ev in n[3]:
            _operand(el, "e", ev if ev is not None else [], lab, props)
    elif k == "m":
        for row in n[1]:
            mr = ET.SubElement(el, M + "mr")
            for cell in row:
                _operand(mr, "e", cell if cell is not None else [], lab, props)
    elif k == "func":
        _operand(el, "fName", n[1], lab, props)
        _operand(el, "e", n[2], lab, props)
    elif k == "bar":
        _operand(el, "e", n[1], lab, props)
    elif k == "acc":
        ch = n[1]
        if ch != "noaccpr":
            pr = ET.SubElement(el, M + "accPr")
            if ch != "absent":
                c = ET.SubElement(pr, M + "chr")
                if ch != "noval":
                    c.set(M + "val", ch)
        _operand(el, "e", n[2], lab, props)
    else:
        raise ValueError(k)


# ---------------------------------------------------------------- reference (documented templates)


class NotWellFormed(Exception):
    pass


_OP = {"∑": "\\sum", "∏": "\\prod", "∫": "\\int", "∬": "\\iint", "∭": "\\iiint"}
_ACC = {"̂": "\\hat", "̃": "\\tilde", "̄": "\\bar", "⃗": "\\vec", "̇": "\\dot"}
_FN = {"sin": "\\sin", "cos": "\\cos", "tan": "\\tan", "log": "\\log", "ln": "\\ln", "lim": "\\lim", "exp": "\\exp",
       "max": "\\max", "min": "\\min"}


def ref_latex(nodes, texts):
    """texts: iterator over the concrete run texts in source order."""
    return "".join(_ref(n, texts) for n in nodes)


def _req(v, texts):
    if v is None:
        raise NotWellFormed("mandatory operand absent")
    return ref_latex(v, texts)


def _opt(v, texts):
    return "" if v is None else ref_latex(v, texts)


def _ref(n, texts):
    k = n[0]
    if k == "r":
        t = next(texts)
        if t in "()[]{}" and t != "":
            raise NotWellFormed("bracket run")   # interaction with the malformed-sqrt repair is not template-defined
        return "".join(SYM.get(c, c) for c in t)
    if k == "f":
        a = _req(n[1], texts); b = _req(n[2], texts)
        return "\\frac{%s}{%s}" % (a, b)
    if k == "sSup":
        a = _req(n[1], texts); b = _req(n[2], texts)
        return "%s^{%s}" % (a, b)
    if k == "sSub":
        a = _req(n[1], texts); b = _req(n[2], texts)
        return "%s_{%s}" % (a, b)
    if k == "sSubSup":
        a = _req(n[1], texts); b = _req(n[2], texts); c = _req(n[3], texts)
        return "%s_{%s}^{%s}" % (a, b, c)
    if k == "rad":
        d = _opt(n[1], texts).strip(); e = _req(n[2], texts)
        return ("\\sqrt[%s]{%s}" % (d, e)) if d else ("\\sqrt{%s}" % e)
    if k == "nary":
        if n[1] in ("absent", "nochr", "noval"):
            raise NotWellFormed("nary without operator character")
        op = _OP.get(n[1], n[1])
        s = _opt(n[2], texts); p = _opt(n[3], texts); e = _req(n[4], texts)
        out = op
        if s.strip():
            out += "_{%s}" % s
        if p.strip():
            out += "^{%s}" % p
        return out + " " + e
    if k == "d":
        if "noval" in (n[1], n[2]):
            raise NotWellFormed("delimiter char without value")
        left = "(" if n[1] in ("absent", "nodpr") else n[1]
        right = ")" if n[2] in ("absent", "nodpr") else D_END.get(n[2], n[2])
        if not n[3]:
            raise NotWellFormed("delimiter without operand")
        return left + ", ".join(ref_latex(e if e is not None else [], texts) for e in n[3]) + right
    if k == "m":
        if not n[1]:
            raise NotWellFormed("matrix without rows")
        return "\\begin{matrix}" + " \\\\ ".join(" & ".join(ref_latex(c if c is not None else [], texts) for c in row) for row in n[1]) + "\\end{matrix}"
    if k == "func":
        f = _req(n[1], texts); e = _req(n[2], texts)
        return "%s{%s}" % (_FN.get(f.strip(), f), e)
    if k == "bar":
        return "\\overline{%s}" % _req(n[1], texts)
    if k == "acc":
        ch = n[1]
        acc = _ACC.get(ch, "\\hat")
        return "%s{%s}" % (acc, _req(n[2], texts))
    raise ValueError(k)


# ---------------------------------------------------------------- oracle


def evaluate(tree, seed=0):
    """Run the real converter on one tree; return list of (clause, message)."""
    from sharepoint2text.parsing.extractors.util.omml_to_latex import omml_to_latex
    lab = Labeler(seed)
    try:
        root = build(tree, lab)
    except OverflowError:
        return [], None
    fails = []
    try:
        out = omml_to_latex(root)
    except RecursionError:
        raise
    except Exception as e:  # noqa
        return [("raises", f"{type(e).__name__}: {e}")], None
    try:
        out2 = omml_to_latex(root)
    except Exception as e:  # noqa
        return [("nondet", f"second call raised {type(e).__name__}")], None
    if not isinstance(out, str):
        return [("raises", f"returned {type(out).__name__}")], None
    if out != out2:
        fails.append(("nondet", f"{out!r} != {out2!r}"))
    pos = []
    once_ok = True
    for c in lab.order:
        k = out.count(c)
        if k != 1:
            fails.append(("once", f"run text {c!r} occurs {k} times in {out!r}"))
            once_ok = False
            break
        pos.append(out.index(c))
    if once_ok and pos != sorted(pos):
        fails.append(("order", f"runs {lab.order} out of order in {out!r}"))
    for s, cnt in lab.syms.items():
        if out.count(SYM[s]) != cnt:
            fails.append(("symbols", f"{SYM[s]} occurs {out.count(SYM[s])} times, expected {cnt}, in {out!r}"))
            break
    if not lab.has_brace:
        depth = 0
        bad = False
        for ch in out:
            if ch == "{":
                depth += 1
            elif ch == "}":
                depth -= 1
                if depth < 0:
                    bad = True
                    break
        if bad or depth != 0:
            fails.append(("balance", f"unbalanced braces in {out!r}"))
    # template equality on the well-formed subset
    lab2 = Labeler(seed)
    texts = []
    _collect(tree[1], lab2, texts)
    try:
        exp = ref_latex(tree[1], iter(texts))
        if _has_lone_bracket_rad(tree[1]):
            raise NotWellFormed("x")
        if out != exp:
            fails.append(("template", f"got {out!r}, documented form {exp!r}"))
    except NotWellFormed:
        pass
    return fails, out


def _collect(nodes, lab, texts):
    for n in nodes:
        if n is None:
            continue
        if n[0] == "r":
            texts.append(lab.text(n[1]))
        else:
            for x in n[1:]:
                if isinstance(x, list):
                    if x and isinstance(x[0], list) and (not x[0] or isinstance(x[0][0], list) or x[0] == []) and n[0] in ("d", "m"):
                        # d: list of operands; m: list of rows of operands
                        for y in x:
                            if n[0] == "m":
                                for z in y:
                                    _collect(z or [], lab, texts)
                            else:
                                _collect(y or [], lab, texts)
                    else:
                        _collect(x, lab, texts)


def _has_lone_bracket_rad(nodes):
    return False  # bracket runs already raise NotWellFormed in _ref


def reexec(fmt, case):
    seed = int(os.environ.get("VERIF_SEED", "0"))
    if fmt == "history":
        return evaluate_history(case, seed)
    fails, _ = evaluate(case, seed)
    return fails


def _convert(tree, seed):
    from sharepoint2text.parsing.extractors.util.omml_to_latex import omml_to_latex
    try:
        return omml_to_latex(build(tree, Labeler(seed)))
    except Exception as e:  # noqa
        return f"!{type(e).__name__}"


def evaluate_history(case, seed=0):
    """case = [treeA, treeB]: converting B after A must give what B gives on its own (fresh baseline = B converted
    after a neutral formula, which is how the baseline table is produced)."""
    a, b = case
    neutral = ["omath", [R("L")]]
    _convert(neutral, seed)
    base = _convert(b, seed)
    _convert(neutral, seed)
    _convert(a, seed)
    got = _convert(b, seed)
    _convert(neutral, seed); _convert(["omath", [R(")"), R("]"), R("}")]], seed)   # leave no armed state behind
    if got != base:
        return [("history", f"after converting {a} the formula {b} gives {got!r} instead of {base!r}")]
    return []


def shrinks(case):
    from verif.mc.findings import generic_shrinks
    if len(case) == 2 and isinstance(case[0], list) and case[0] and case[0][0] in ("omath", "para", "props"):
        for i in (0, 1):       # history pair
            for s in shrinks(case[i]):
                c = list(case); c[i] = s
                yield c
        return
    if case[0] != "omath":
        yield ["omath", case[1]]
    yield from generic_shrinks(case)

    def subst(x):
        if isinstance(x, list) and x and x[0] in KINDS:
            for i in range(1, len(x)):
                if isinstance(x[i], list) and x[0] not in ("d", "m"):
                    yield x[:i] + [None] + x[i + 1:]
                if isinstance(x[i], str) and x[i] not in ("absent",) and x[0] in ("nary", "d", "acc"):
                    yield x[:i] + ["absent"] + x[i + 1:]
        if isinstance(x, list):
            for i, y in enumerate(x):
                for sy in subst(y):
                    yield x[:i] + [sy] + x[i + 1:]
    yield from subst(case)


def _part(arg):
    tier, k, n, seed = arg
    ev = 0
    fails = []
    outs = set()
    fam = {}
    wf = 0
    samples = []
    for i, (family, tree) in enumerate(enumerate_cases(tier)):
        if i % n != k:
            continue
        f, out = evaluate(tree, seed)
        ev += 1
        fam[family] = fam.get(family, 0) + 1
        if out is not None:
            outs.add(hash(out))
        for clause, msg in f:
            fails.append((clause, "omml", tree, msg))
        if len(samples) < 2 and ev in (1, 500):
            samples.append({"tree": tree, "latex": out})
    if k == 0 or True:
        # H: histories of length 2 over the node alphabet (explicit pairs A;B) - this partition's share
        N1 = node_alphabet()
        hist = [n for n in N1 if n[0] != "r" or n[1] in ("L", ")", "]", "}")]
        j = 0
        for a in hist:
            for b in hist:
                j += 1
                if j % n != k:
                    continue
                ta = ["omath", [a]]
                tb = ["omath", [R("L"), b, R(")"), R("L")]]
                ev += 1
                fam["H2"] = fam.get("H2", 0) + 1
                for clause, msg in evaluate_history([ta, tb], seed):
                    fails.append((clause, "history", [ta, tb], msg))
    return {"ev": ev, "fails": fails, "outs": len(outs), "outset": list(outs)[:200000], "fam": fam, "samples": samples}


def run(ctx):
    n = ctx.ncpu * 4
    args = [(ctx.tier, k, n, ctx.seed) for k in range(n)]
    rnd = random.Random(ctx.seed)
    rnd.shuffle(args)
    res = P.run_all("verif.props.C19", "_part", args, n=ctx.ncpu, hard_timeout=1800)
    ev = 0
    fails = []
    outs = set()
    fam = {}
    samples = []
    herr = []
    for st, r, _ in res:
        if st != "done":
            herr.append(f"partition failed: {st}: {str(r)[-500:]}")
            continue
        ev += r["ev"]
        fails += [tuple(x) for x in r["fails"]]
        outs.update(r["outset"])
        for k_, v in r["fam"].items():
            fam[k_] = fam.get(k_, 0) + v
        samples += r["samples"]
    samples = sorted(samples, key=lambda s: str(s))[:5]
    cov = {"evaluations": ev, "distinct_nontrivial": len(outs),
           "rule": "every OMML tree of the constructor grammar (families A: single structure x operand lattice incl. absent/empty/"
                   "bracket/symbol operands and every chr/begChr/endChr presence variant; Aw: oMathPara/property-element wrappers; "
                   "B2/B3: all 2- and 3-sequences over a ~65-node alphabet; C2/D3/E4: every operand slot nested to depth 2/3/4) "
                   "built as ElementTree and converted by the real omml_to_latex; distinct_nontrivial = distinct LaTeX outputs",
           "samples": samples, "families": fam, "exhaustive": True,
           "bounds": {"tier": ctx.tier, "depth": 3 if ctx.quick else 4, "sequence_length": 3}}
    return {"coverage": cov, "failures": fails, "harness_errors": herr,
            "assumptions": ["ElementTree built in memory is equivalent to the tree ET parses from XML text",
                            "reference templates transcribed from the module docstring; compared only on the well-formed subset "
                            "(all mandatory operands present, operator characters given, no bracket runs)"]}
