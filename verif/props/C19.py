"""C19 - OMML -> LaTeX: total, deterministic, order-preserving, balanced, documented templates.

Space I: every OMML tree of a constructor grammar within depth/width bounds is built as a real
ElementTree and handed to the real `omml_to_latex`. Oracle clauses:
  raises     - no exception
  nondet     - two calls give the same string
  once       - every uniquely-labelled run occurs exactly once in the output
  order      - ... and in source order
  symbols    - each mapped symbol run (alpha, infinity, R) yields its command, as often as it occurs
  balance    - for trees without literal brace runs: brace depth never negative and ends at 0
  template   - on the well-formed subset the output equals the reference transcription (ref_latex)
  emit       - every run's text (split at bracket characters, each segment mapped through the symbol table and
               stripped of outer whitespace) occurs in the output, as disjoint substrings in source order

Text alphabet (families T*): a run text is either a legacy token ("L" = unique label, else the literal string) or a
list of pieces (0 = unique label, str = literal). The character alphabet is every code point of the Unicode blocks the
symbol table touches - Latin-1 supplement, Greek, Letterlike, Arrows, Mathematical Operators - i.e. EVERY mapped symbol
and every unmapped neighbour inside the same blocks, plus printable ASCII, TAB/LF, Unicode spaces, a sample of other
planes (combining marks, General Punctuation, angle brackets, Supplemental Math Operators, Mathematical Alphanumerics,
CJK, astral); thorough: those extra blocks completely. The label characters (digits, U+00C0-U+00DE) are the only
exclusions. Each character is put alone in a run, between two labels of one run, between two mapped symbols of one run,
in a numerator, in the whitespace-sensitive slots (radical degree, n-ary limit, function name) and as the n-ary /
delimiter / accent character attribute; thorough adds every operand slot of every constructor and all ordered pairs
over (mapped symbols + their unmapped block neighbours). REF_SYM is a frozen transcription of the documented table; a
character outside it must pass through unchanged (or as the command the library's own table declares for it).

Generic objects (families G*): the OMML objects that have no dedicated LaTeX form and are handled by the converter's
"recurse into children" rule - limLow, limUpp, sPre, box, borderBox, groupChr, eqArr, phant - with their own property
element present/absent and every argument (e, lim, sub, sup) absent / empty / run / symbol / two runs; alone, under the
wrappers, in every operand slot of every constructor, with every node of the node alphabet in each of their arguments,
as the name of a function (the way Word stores lim/max/min with a limit), nested in each other, and at depth 3. They
have no documented template (template clause silent) but every run below them must come out once, in order, balanced.
The "props" wrapper now also interleaves the schema's property element of every object (sSubPr, sSupPr, sSubSupPr,
funcPr, barPr, mPr with its column properties, ctrlPr inside dPr/naryPr/accPr) and a w:rPr inside every run.

Attributes (families V*): the character attributes (m:chr of naryPr / accPr / groupChrPr, m:begChr / m:endChr / m:sepChr of
dPr) are ST_Char STRINGS - empty, one code point, or several (a mark after a carrier such as space / NBSP / U+25CC, two
marks, two operators, a bracket pair, a LaTeX command). V1: 27 named value strings (VSTR) x every presence variant of the
object that carries them (operand lattice absent / empty / run / symbol / two runs / bracket run, all n-ary limit
combinations, begChr/endChr/sepChr given / absent / without m:val / empty, 0-3 delimiter operands, wrappers). V2: EVERY
string of length 0..2 over the 26-character base VBASE (carriers, the documented accent marks and n-ary operators, mapped
symbols, brackets, braces, ASCII; thorough: + length 3 over the 10-character VBASE3) as accent / n-ary / delimiter /
separator / group character. V3: wrappers propsE / propsN = like props, but the m:val of EVERY property element (sty, type,
degHide, limLoc, grow, alnScr, pos, baseJc, count, mcJc, opEmu, hideTop, vertJc, rSp, zeroWid, ...) is empty / the attribute
is absent - over every single structure, the node alphabet in a sequence, the generic objects (thorough: every slot).
V4: an accent / n-ary / delimiter / group character object with a value string in every operand slot of every constructor
and generic object (quick: 5 of the strings). Template for these: an accent value that is not one documented mark gives
\\hat (a value of several code points may also be rendered by its last documented mark); delimiter operands are joined by
", " (or by an explicitly given m:sepChr); an n-ary value is emitted verbatim or through the symbol table.

Document path (family X, helper c19_docs.py): users reach the converter only through read_docx / read_pptx. Every tree of
the families X_FAMILIES (quick: Aw B2 T1 T2 G1 V1 V3 + XA = family A with the 3-operand lattice cut to absent / empty / label;
thorough: every family of the quick enumeration, which contains XA) is ALSO embedded in a
generated .docx and .pptx (16 formulas per document, each in its own paragraph between marker tokens, wrappers omath =
inline, para = oMathPara/display, props = with w:rPr etc.), extracted with the real extractor, and must come out of
`.formulas` (clause docpath: same LaTeX as the direct call, right display flag; a blank formula may be dropped) and of the
full text / slide text (clause doctext: `$latex$` / `$$latex$$` in place; whitespace runs compared modulo their length).
Document histories (family H3): in a fresh interpreter per sequence, a probe set (every character of the text alphabet
alone in a run and as n-ary / delimiter / accent character, the node alphabet, the generic objects; ~3200 trees) is
converted before and after every event of a sequence over the event alphabet {extract generated docx / pptx / xlsx of
kind text / math / rich, convert a formula}; quick: the alphabet in order, reversed, and a sequence that repeats the
math documents; thorough: every rotation, every triple a;b;a, and every shipped resource file through read_file. Clauses
dochistory (a probe tree converts differently after an event) and docnondet (a repeated event observes something else).
"""
from __future__ import annotations

import itertools
import os
import random
import re
from xml.etree import ElementTree as ET

from verif.mc import pool as P

LEVEL = "exploration"
M = "{http://schemas.openxmlformats.org/officeDocument/2006/math}"
UNIQ = "0123456789" + "ÀÁÂÃÄÅÆÇÈÉÊËÌÍÎÏÐÑÒÓÔÕÖØÙÚÛÜÝÞ"
TEXTS = ["L", "α", "∞", "ℝ", "(", ")", "[", "]", "{", "}", "", " "]
SYM = {"α": "\\alpha", "∞": "\\infty", "ℝ": "\\mathbb{R}"}
NARY_CHR = ["absent", "nochr", "noval", "∑", "∫", "∏", "∬", "∮"]
D_CHR = ["absent", "noval", "[", "|", ""]
D_END = {"[": "]", "|": "|", "": ""}
ACC_CHR = ["absent", "noval", "̃", "⃗", "x"]
FNAMES = ["sin", "lim", "fn"]
W = "{http://schemas.openxmlformats.org/wordprocessingml/2006/main}"
WRAPPERS = ("omath", "para", "props", "propsE", "propsN")
# wrapper -> property mode: 1 = property elements with their values, "E" = every m:val of a property present but EMPTY,
# "N" = every property element WITHOUT its m:val attribute (the schema default applies)
_PROPS_MODE = {"props": 1, "propsE": "E", "propsN": "N"}

# Value STRINGS of the character attributes (ST_Char: a string, possibly empty, possibly longer than one code point).
# VBASE: the characters strings are formed from - carriers (space, NBSP, dotted circle), the five documented accent marks
# and an undocumented one, the five documented n-ary operators, mapped symbols, brackets / fences, ASCII.
VBASE = [" ", "\u00a0", "\u25cc", "\u0302", "\u0303", "\u0304", "\u20d7", "\u0307", "\u0338", "\u2211", "\u220f", "\u222b",
         "\u222c", "\u222d", "\u03b1", "\u221e", "(", ")", "[", "]", "|", "{", "}", "^", "x", "\\"]
VBASE3 = [" ", "\u25cc", "\u0303", "\u20d7", "\u2211", "\u222b", "\u03b1", "(", ")", "x"]
# VSTR: the named strings that go through every presence variant / operand lattice / slot / document (families V1, V4)
VSTR = ["", "  ", " \u0303", "\u25cc\u0303", "\u00a0\u0302", "\u25cc\u20d7", "\u0303 ", "\u0302\u0303", "x\u0302", "\u2211\u2211",
        "\u222b\u222b", "\u2211 ", " \u222b", "\u03b1\u03b2", "\u221e\u03b1", "()", ")(", "[]", "||", "\u27e8\u27e9", "\\hat", "lim",
        "^^", "abc", "\u2032\u2032", "\t", "\u25cc\u0303\u0302"]


def value_strings(tier):
    """every string of length 0..2 over VBASE (thorough: + length 3 over VBASE3)"""
    out = [""] + list(VBASE) + [a + b for a in VBASE for b in VBASE]
    if tier != "quick":
        out += [a + b + c for a in VBASE3 for b in VBASE3 for c in VBASE3]
    return out

# frozen transcription of the documented Greek / symbol table (code point -> command)
REF_SYM = {chr(int(k, 16)): v for k, v in (x.split("=", 1) for x in (
    "00AC=\\neg 00B1=\\pm 00B7=\\cdot 00D7=\\times 00F7=\\div "
    "0391=A 0392=B 0393=\\Gamma 0394=\\Delta 0395=E 0396=Z 0397=H 0398=\\Theta 0399=I 039A=K 039B=\\Lambda 039C=M "
    "039D=N 039E=\\Xi 039F=O 03A0=\\Pi 03A1=P 03A3=\\Sigma 03A4=T 03A5=\\Upsilon 03A6=\\Phi 03A7=X 03A8=\\Psi "
    "03A9=\\Omega 03B1=\\alpha 03B2=\\beta 03B3=\\gamma 03B4=\\delta 03B5=\\epsilon 03B6=\\zeta 03B7=\\eta "
    "03B8=\\theta 03B9=\\iota 03BA=\\kappa 03BB=\\lambda 03BC=\\mu 03BD=\\nu 03BE=\\xi 03BF=o 03C0=\\pi "
    "03C1=\\rho 03C2=\\varsigma 03C3=\\sigma 03C4=\\tau 03C5=\\upsilon 03C6=\\phi 03C7=\\chi 03C8=\\psi "
    "03C9=\\omega 2102=\\mathbb{C} 2115=\\mathbb{N} 211A=\\mathbb{Q} 211D=\\mathbb{R} 2124=\\mathbb{Z} "
    "2190=\\leftarrow 2192=\\rightarrow 2194=\\leftrightarrow 21D0=\\Leftarrow 21D2=\\Rightarrow "
    "21D4=\\Leftrightarrow 2200=\\forall 2202=\\partial 2203=\\exists 2205=\\emptyset 2207=\\nabla 2208=\\in "
    "2209=\\notin 2213=\\mp 221E=\\infty 2227=\\land 2228=\\lor 2229=\\cap 222A=\\cup 2248=\\approx "
    "2260=\\neq 2261=\\equiv 2264=\\leq 2265=\\geq 2282=\\subset 2283=\\supset 2286=\\subseteq "
    "2287=\\supseteq").split())}
assert len(REF_SYM) == 87 and all(REF_SYM[k] == v for k, v in SYM.items())
BRACKETS = "()[]{}"
# Unicode blocks the table touches (every code point: mapped symbols AND their unmapped neighbours)
SYMBOL_BLOCKS = [(0x00A0, 0x00FF), (0x0370, 0x03FF), (0x2100, 0x214F), (0x2190, 0x21FF), (0x2200, 0x22FF)]
EXTRA_BLOCKS = [(0x0300, 0x036F), (0x2000, 0x206F), (0x20D0, 0x20FF), (0x2300, 0x23FF), (0x27C0, 0x27EF), (0x2900, 0x297F),
                (0x2980, 0x29FF), (0x2A00, 0x2AFF), (0x1D400, 0x1D7FF)]
EXTRA_SAMPLE = [0x09, 0x0A, 0x0302, 0x0303, 0x0338, 0x1680, 0x2002, 0x2009, 0x200B, 0x2028, 0x2032, 0x2061, 0x2062, 0x20D7,
                0x2329, 0x23DE, 0x23DF, 0x27E8, 0x27E9, 0x27F6, 0x2A00, 0x2A0C, 0x2AFF, 0x3000, 0x4E2D, 0xFB01, 0xFEFF, 0xFFFD,
                0x1D400, 0x1D465, 0x1D6FC, 0x1D7FF, 0x1F600, 0x10FFFF]


def char_alphabet(tier):
    """The character alphabet of the T families, in code point order (label characters excluded)."""
    cps = list(range(0x20, 0x7F))
    for a, b in SYMBOL_BLOCKS:
        cps += range(a, b + 1)
    cps += EXTRA_SAMPLE
    if tier != "quick":
        for a, b in EXTRA_BLOCKS:
            cps += range(a, b + 1)
    return [chr(c) for c in sorted(set(cps)) if chr(c) not in UNIQ]


def neighbour_alphabet():
    """mapped symbols and the unmapped code points within distance 2 of a mapped one (same blocks)"""
    cps = set()
    for c in REF_SYM:
        cps.update(range(ord(c) - 2, ord(c) + 3))
    return [chr(c) for c in sorted(cps) if chr(c) not in UNIQ]


# OMML objects without a dedicated LaTeX form: tag -> (argument element names in schema order, property children)
GENERIC = {
    "limLow": (["e", "lim"], []),
    "limUpp": (["e", "lim"], []),
    "sPre": (["sub", "sup", "e"], []),
    "box": (["e"], [("opEmu", "1"), ("noBreak", "0")]),
    "borderBox": (["e"], [("hideTop", "1"), ("strikeH", "1")]),
    "groupChr": (["e"], [("chr", "\u23df"), ("pos", "bot"), ("vertJc", "top")]),
    "eqArr": (["e", "e"], [("baseJc", "center"), ("rSp", "3")]),
    "phant": (["e"], [("zeroWid", "1"), ("transp", "1")]),
}
GTAGS = list(GENERIC)

# ---------------------------------------------------------------- grammar


def R(t):
    return ["r", t]


def opnds(level_nodes, pairs=True, texts=TEXTS):
    """operand values: None (element absent), [] (present, empty), [n], [n1, n2]"""
    out = [None, []]
    for n in level_nodes:
        out.append([n])
    if pairs:
        for n in level_nodes:
            if n != R("L"):
                out.append([R("L"), n])
                out.append([n, R("L")])
        out.append([R("L"), R("L")])
    return out


RUNS = [R(t) for t in TEXTS]
SMALL = [None, [], [R("L")], [R("α")], [R("(")], [R(")")], [R(" ")], [R("L"), R("L")], [R("{")]]
TINY = [None, [R("L")]]


def structures(ops, ops3):
    """all structure nodes whose operands come from ops (ops3 for constructors with >= 3 operands)"""
    for a, b in itertools.product(ops, ops):
        yield ["f", a, b]
        yield ["sSup", a, b]
        yield ["sSub", a, b]
        yield ["rad", a, b]
    for a, b, c in itertools.product(ops3, ops3, ops3):
        yield ["sSubSup", a, b, c]
    for ch in NARY_CHR:
        for a, b, c in itertools.product(ops3, ops3, ops3):
            yield ["nary", ch, a, b, c]
    for bch in D_CHR:
        for ech in D_CHR:
            for es in ([], [[R("L")]], [[]], [[R("L")], [R("L")]]) + tuple([[o] for o in ops if o is not None][:12]):
                yield ["d", bch, ech, list(es)]
    for r1 in ([[R("L")]], [[R("L")], [R("L")]], [[]]):
        yield ["m", [list(r1)]]
        yield ["m", [list(r1), list(r1)]]
    for fn in FNAMES + [None]:
        for b in ops:
            yield ["func", None if fn is None else [R(fn)], b]
    for a in ops:
        yield ["bar", a]
    for ch in ACC_CHR:
        for a in ops:
            yield ["acc", ch, a]


def node_alphabet():
    """A ~70 node alphabet N1 for sequences and nesting: runs + one representative per structure shape."""
    L = [R("L")]
    out = list(RUNS)
    out += [["f", L, L], ["f", None, L], ["sSup", L, L], ["sSub", L, L], ["sSubSup", L, L, L],
            ["rad", None, L], ["rad", L, L], ["rad", None, [R("(")]], ["rad", L, [R("[")]], ["rad", None, [R("{")]],
            ["rad", None, [R(" "), R("(")]], ["rad", None, None],
            ["nary", "∑", L, L, L], ["nary", "∫", None, None, L], ["nary", "absent", L, None, L],
            ["nary", "nochr", None, None, L], ["nary", "noval", L, L, L],
            ["d", "absent", "absent", [L]], ["d", "[", "[", [L, L]], ["d", "noval", "absent", [L]], ["d", "absent", "noval", [L]],
            ["d", "nodpr", "nodpr", [L]],
            ["m", [[L, L], [L, L]]], ["func", [R("sin")], L], ["func", [R("fn")], L], ["bar", L],
            ["acc", "̃", L], ["acc", "absent", L], ["acc", "noval", L], ["acc", "noaccpr", L]]
    return out


def positions(struct_kind):
    """operand slots of each constructor, as (template builder)"""
    L = [R("L")]
    return {
        "f": [lambda x: ["f", x, L], lambda x: ["f", L, x]],
        "sSup": [lambda x: ["sSup", x, L], lambda x: ["sSup", L, x]],
        "sSub": [lambda x: ["sSub", x, L], lambda x: ["sSub", L, x]],
        "sSubSup": [lambda x: ["sSubSup", x, L, L], lambda x: ["sSubSup", L, x, L], lambda x: ["sSubSup", L, L, x]],
        "rad": [lambda x: ["rad", x, L], lambda x: ["rad", None, x], lambda x: ["rad", L, x]],
        "nary": [lambda x: ["nary", "∑", x, L, L], lambda x: ["nary", "∫", L, x, L], lambda x: ["nary", "∏", L, L, x],
                 lambda x: ["nary", "absent", None, None, x], lambda x: ["nary", "nochr", None, None, x]],
        "d": [lambda x: ["d", "[", "[", [x]], lambda x: ["d", "nodpr", "nodpr", [x]], lambda x: ["d", "absent", "absent", [L, x]]],
        "m": [lambda x: ["m", [[x, L]]], lambda x: ["m", [[L], [x]]]],
        "func": [lambda x: ["func", x, L], lambda x: ["func", [R("sin")], x]],
        "bar": [lambda x: ["bar", x]],
        "acc": [lambda x: ["acc", "̃", x], lambda x: ["acc", "noaccpr", x], lambda x: ["acc", "absent", x]],
    }[struct_kind]


KINDS = ["f", "sSup", "sSub", "sSubSup", "rad", "nary", "d", "m", "func", "bar", "acc"]


def G(tag, ops, pr=1):
    return ["g", tag, pr, list(ops)]


def gpositions(tag):
    """argument slots of a generic object (the other arguments hold one labelled run), with and without its property element"""
    names = GENERIC[tag][0]
    L = [R("L")]
    out = []
    for i in range(len(names)):
        for pr in (1, 0):
            out.append(lambda x, i=i, pr=pr: G(tag, [x if j == i else L for j in range(len(names))], pr))
    return out


def generic_nodes():
    """one representative per generic object (every argument = one labelled run)"""
    L = [R("L")]
    return [G(tag, [L] * len(GENERIC[tag][0])) for tag in GTAGS]


def text_cases(tier):
    """T families: the character alphabet through every place where text reaches the symbol conversion"""
    L = [R("L")]
    for c in char_alphabet(tier):
        yield "T1", ["omath", [["r", [c]]]]
        yield "T2", ["omath", [["r", [0, c, 0]]]]
        yield "T3", ["omath", [["r", ["\u03b1", c, "\u2192"]]]]
        yield "T4", ["omath", [["f", [["r", [0, c]]], L]]]
        yield "T5", ["omath", [["rad", [["r", [c]]], L]]]
        yield "T5", ["omath", [["nary", "\u2211", [["r", [c]]], None, L]]]
        yield "T5", ["omath", [["func", [["r", [c]]], L]]]
        yield "T6", ["omath", [["nary", c, None, None, L]]]
        yield "T6", ["omath", [["d", c, c, [L]]]]
        yield "T6", ["omath", [["acc", c, L]]]
        yield "T6", ["para", [["r", [c, 0]], ["r", [c]]]]
        yield "T6", ["props", [["r", [0, c]], ["sSup", [["r", [c]]], L]]]
    if tier != "quick":
        for c in char_alphabet("quick"):
            for k in KINDS:
                for mk in positions(k):
                    yield "T7", ["omath", [mk([["r", [c]]])]]
            for tag in GTAGS:
                for mk in gpositions(tag)[::2]:
                    yield "T7", ["omath", [mk([["r", [c]]])]]
        nb = neighbour_alphabet()
        for a, b in itertools.product(nb, nb):
            yield "T8", ["omath", [["r", [a, b]]]]
    else:
        # quick: ordered pairs (mapped representative, neighbour) inside one run, both orders
        for c in neighbour_alphabet():
            for m_ in ("\u0391", "\u2287", "\u00ac"):
                yield "T8", ["omath", [["r", [m_, c]], ["r", [c, m_, c]]]]


def generic_cases(tier):
    """G families: OMML objects that only the converter's default rule handles"""
    quick = tier == "quick"
    L = [R("L")]
    gops = [None, [], L, [R("\u03b1")], [R("L"), R("L")]]
    N1 = node_alphabet()
    GN = generic_nodes()
    structs1 = [n for n in N1 if n[0] != "r"]
    # G1: every object x property element present/absent x every argument over the operand lattice; all wrappers
    for tag in GTAGS:
        for pr in (0, 1):
            for ops in itertools.product(gops if not quick or len(GENERIC[tag][0]) < 3 else gops[:4], repeat=len(GENERIC[tag][0])):
                for w in ("omath", "para", "props"):
                    yield "G1", [w, [G(tag, ops, pr)]]
    # G2: a generic object in every operand slot of every constructor
    for k in KINDS:
        for mk in positions(k):
            for g in GN:
                yield "G2", ["omath", [mk([g])]]
                yield "G2", ["omath", [mk([g, R("L")]), R(")")]]
                yield "G2", ["props", [mk([R("L"), g]), R("L")]]
    # G3: every node of the node alphabet (and every generic object) in every argument of every generic object
    for tag in GTAGS:
        for mk in gpositions(tag):
            for n in N1 + GN:
                yield "G3", ["omath", [mk([n])]]
                yield "G3", ["omath", [mk([n, R("L")]), R(")")]]
                yield "G3", ["omath", [R("L"), mk([R("L"), n]), R("]"), R("L")]]
    # G4: a limit / grouping object as the NAME of a function (how Word stores lim, max, min with a limit expression)
    for tag in GTAGS:
        names = GENERIC[tag][0]
        for fn in FNAMES:
            for x in gops:
                for pr in (0, 1):
                    ops = [[R(fn)] if nm == "e" and i == names.index("e") else x for i, nm in enumerate(names)]
                    for w in ("omath", "props"):
                        yield "G4", [w, [["func", [G(tag, ops, pr)], L]]]
                        yield "G4", [w, [["func", [G(tag, ops, pr)], [R("L"), ["sSub", L, L]]], R("L")]]
    # G5: depth 3 through a generic object: slot(generic-slot(n)) and generic-slot(slot(n))
    inner = structs1[::3] if quick else structs1
    for k in KINDS:
        for mk in positions(k):
            for tag in GTAGS:
                for gk in (gpositions(tag)[::2] if quick else gpositions(tag)):
                    for n in inner:
                        yield "G5", ["omath", [mk([gk([n])])]]
                        yield "G5", ["omath", [gk([mk([n])]), R(")")]]
    if not quick:
        # G6: generic in generic in generic slot, node alphabet at the bottom
        for t1 in GTAGS:
            for g1 in gpositions(t1)[::2]:
                for t2 in GTAGS:
                    for g2 in gpositions(t2)[::2]:
                        for n in N1:
                            yield "G6", ["omath", [g1([g2([n])]), R(")")]]


def _gchr(s, x, extra=()):
    """m:groupChr whose m:chr holds the value string s (None: m:chr without m:val)"""
    return G("groupChr", [x], [["chr", s]] + [list(e) for e in extra])


def value_cases(tier):
    """V families: the ATTRIBUTES - value strings of the character attributes, and the m:val of every property element"""
    quick = tier == "quick"
    L = [R("L")]
    SYMR = [R("\u211d")]       # the symbol operand of these families (its character is not part of any value string)
    # V1: the named value strings x every presence variant / operand lattice of the object that carries them
    for s_ in VSTR:
        for a in (None, [], L, SYMR, [R("L"), R("L")], [R("(")], [R("L"), R(")")]):
            for w in ("omath", "para", "props"):
                yield "V1", [w, [["acc", s_, a]]]
        for sub, sup, e in itertools.product((None, L), (None, SYMR), (None, [], L)):
            for w in ("omath", "props"):
                yield "V1", [w, [["nary", s_, sub, sup, e], R("L")]]
        for b, e_ in ((s_, s_), (s_, "absent"), ("absent", s_), (s_, "noval"), ("noval", s_), (s_, ""), ("", s_)):
            for es in ([L], [L, SYMR], [], [[], L]):
                yield "V1", ["omath", [["d", b, e_, [list(x) for x in es]]]]
                yield "V1", ["props", [R("L"), ["d", b, e_, [list(x) for x in es], s_]]]
        for sep in ("noval", s_):
            for es in ([L], [L, L], [L, [], SYMR]):
                for b in ("absent", "nodpr", "[", ""):
                    yield "V1", ["omath", [["d", b, b, [list(x) for x in es], sep], R("L")]]
        for x in (None, [], L, SYMR, [R("L"), R("L")]):
            yield "V1", ["omath", [_gchr(s_, x)]]
            yield "V1", ["props", [R("L"), _gchr(s_, x, (("pos", "top"), ("vertJc", "bot")))]]
    yield "V1", ["omath", [_gchr(None, L)]]
    # V2: every string of length 0..2 over VBASE (thorough: + length 3 over VBASE3) as each character attribute
    for s_ in value_strings(tier):
        yield "V2", ["omath", [["acc", s_, L]]]
        yield "V2", ["omath", [["nary", s_, None, None, L]]]
        yield "V2", ["omath", [["d", s_, s_, [L]]]]
        yield "V2", ["omath", [["d", "absent", "absent", [L, L], s_]]]
        yield "V2", ["omath", [_gchr(s_, L)]]
        if not quick:
            yield "V2", ["props", [["acc", s_, [R("L"), R("L")]], R("L")]]
            yield "V2", ["props", [["nary", s_, L, L, L]]]
            yield "V2", ["omath", [["d", s_, "absent", [L, L], s_]]]
            yield "V2", ["omath", [["d", "absent", s_, [L]]]]
    # V3: every property element of every object with its m:val EMPTY (propsE) / WITHOUT m:val (propsN)
    N1 = node_alphabet()
    GN = generic_nodes()
    for w in ("propsE", "propsN"):
        for s_ in structures(TINY + [[R("L"), R("L")]], TINY):
            yield "V3", [w, [s_]]
        for n in N1 + GN:
            yield "V3", [w, [R("L"), n, R(")"), R("L")]]
        for tag in GTAGS:
            for ops in itertools.product([None, [], L], repeat=len(GENERIC[tag][0])):
                yield "V3", [w, [G(tag, ops, 1)]]
        if not quick:
            for k in KINDS:
                for mk in positions(k):
                    for n in N1 + GN:
                        yield "V3", [w, [mk([n]), R(")")]]
    # V4: an object with a named value string in every operand slot of every constructor / generic object
    objs = lambda s_: (["acc", s_, L], ["nary", s_, None, None, L], ["d", s_, s_, [L, L], s_], _gchr(s_, L))
    for s_ in (VSTR if not quick else VSTR[:1] + VSTR[2:4] + VSTR[9:10] + VSTR[15:16]):
        for k in KINDS:
            for mk in positions(k):
                for o in objs(s_):
                    yield "V4", ["omath", [mk([o])]]
                    yield "V4", ["omath", [mk([R("L"), o]), R(")")]]
        for tag in GTAGS:
            for mk in gpositions(tag)[::2]:
                for o in objs(s_):
                    yield "V4", ["omath", [mk([o]), R("L")]]


def enumerate_cases(tier):
    """Yield (family, tree). tree = [wrapper, [nodes]]"""
    quick = tier == "quick"
    # A: every single structure with operands over the operand lattice (depth 1)
    ops = opnds(RUNS, pairs=not quick)
    ops3 = SMALL if quick else opnds(RUNS, pairs=True)
    for s in structures(ops, ops3):
        yield "A", ["omath", [s]]
    # A': wrappers / property elements
    for s in structures(TINY + [[R("L"), R("L")]], TINY):
        yield "Aw", ["para", [s]]
        yield "Aw", ["props", [s]]
    # B: sequences of 2..3 nodes of the node alphabet (pending-sqrt interplay, ordering)
    N1 = node_alphabet()
    for a, b in itertools.product(N1, N1):
        yield "B2", ["omath", [a, b]]
    Nb = N1 if not quick else [n for n in N1 if n[0] != "r" or n[1] in ("L", ")", "]", "}", "(")][:30]
    for a, b, c in itertools.product(Nb, N1 if not quick else Nb, Nb):
        yield "B3", ["omath", [a, b, c]]
    # C: nesting depth 2: every operand slot of every constructor holds [n] or [n, L] / [L, n] for n in N1
    structs1 = [n for n in N1 if n[0] != "r"]
    for k in KINDS:
        for mk in positions(k):
            for n in N1:
                yield "C2", ["omath", [mk([n])]]
                yield "C2", ["omath", [mk([n, R("L")])]]
                yield "C2", ["omath", [mk([n]), R(")")]]
                yield "C2", ["omath", [mk([R("L"), n]), R("]"), R("L")]]
    # D: depth 3: slot(slot(n))
    inner_kinds = KINDS if not quick else ["f", "rad", "nary", "d", "acc", "sSup"]
    for k in KINDS:
        for mk in positions(k):
            for k2 in inner_kinds:
                for mk2 in positions(k2):
                    for n in (structs1 if not quick else structs1[::2]):
                        yield "D3", ["omath", [mk([mk2([n])])]]
                        if not quick:
                            yield "D3", ["omath", [mk([mk2([n]), R("L")]), R(")")]]
    yield from text_cases(tier)
    yield from generic_cases(tier)
    yield from value_cases(tier)
    if not quick:
        # B4: all 4-sequences over the bracket / radical / run sub-alphabet (pending-closer stack interplay)
        Nq = [n for n in N1 if n[0] == "rad" or (n[0] == "r" and n[1] in ("L", ")", "]", "}", "(", "["))] + [["f", [R("L")], [R(")")]],
                                                                                                             ["d", "[", "[", [[R("L")]]]]
        for a, b, c, d in itertools.product(Nq, repeat=4):
            yield "B4", ["omath", [a, b, c, d]]
        # E: depth 4 chains through the representative slots
        for k in KINDS:
            mk = positions(k)[-1]
            for k2 in KINDS:
                mk2 = positions(k2)[0]
                for k3 in KINDS:
                    mk3 = positions(k3)[-1]
                    for n in structs1[::2]:
                        yield "E4", ["omath", [mk([mk2([mk3([n])])])]]


# ---------------------------------------------------------------- rendering to ElementTree


class Labeler:
    def __init__(self, seed):
        chars = list(UNIQ)
        random.Random(seed).shuffle(chars)
        self.chars = chars
        self.i = 0
        self.order = []      # unique chars in source order
        self.syms = {}       # symbol -> count
        self.has_brace = False

    def text(self, t):
        if t == "L":
            if self.i >= len(self.chars):
                raise OverflowError("too many runs")
            c = self.chars[self.i]
            self.i += 1
            self.order.append(c)
            return c
        if t in SYM:
            self.syms[t] = self.syms.get(t, 0) + 1
        if "{" in t or "}" in t:
            self.has_brace = True
        return t

    def run_text(self, spec):
        """spec: legacy token (str) or list of pieces (0 = unique label, str = literal)"""
        if isinstance(spec, str):
            return self.text(spec)
        return "".join(self.text("L") if p == 0 else self._lit(p) for p in spec)

    def _lit(self, p):
        if not isinstance(p, str):
            raise ValueError(p)
        for c in p:
            if c in SYM:
                self.syms[c] = self.syms.get(c, 0) + 1
        if "{" in p or "}" in p:
            self.has_brace = True
        return p


def build(tree, lab):
    wrapper, nodes = tree
    root = ET.Element(M + "oMath")
    top = root
    if wrapper == "para":
        top = ET.Element(M + "oMathPara")
        ET.SubElement(top, M + "oMathParaPr")
        top.append(root)
    if wrapper not in WRAPPERS:
        raise ValueError(wrapper)
    for n in nodes:
        _node(root, n, lab, props=_PROPS_MODE.get(wrapper, False))
    if wrapper == "para":
        # callers pass either the oMathPara or the oMath; the para wrapper must not change the result
        return top
    return root


# property element of the objects that the grammar otherwise builds without one (only under the "props" wrapper)
_PROPS_PR = {"sSub": [], "sSup": [], "sSubSup": ["alnScr"], "func": [], "bar": ["pos"],
             "m": ["baseJc", "plcHide", "mcs/mc/mcPr/count", "mcs/mc/mcPr/mcJc"]}


def _pval(el, v, props):
    """the m:val of a PROPERTY element: as given / empty (mode E) / attribute absent (mode N)"""
    if props == "N":
        return
    el.set(M + "val", "" if props == "E" else v)


def _operand(parent, name, val, lab, props):
    if val is None:
        return
    e = ET.SubElement(parent, M + name)
    if props:
        ET.SubElement(e, M + "ctrlPr")
    for n in val:
        _node(e, n, lab, props)


def _node(parent, n, lab, props=False):
    k = n[0]
    if k == "r":
        r = ET.SubElement(parent, M + "r")
        if props:
            rp = ET.SubElement(r, M + "rPr")
            _pval(ET.SubElement(rp, M + "sty"), "p", props)
            wp = ET.SubElement(r, W + "rPr")
            ET.SubElement(wp, W + "rFonts").set(W + "ascii", "Cambria Math")
            ET.SubElement(wp, W + "i")
        t = ET.SubElement(r, M + "t")
        t.text = lab.run_text(n[1])
        return
    if k == "g":
        tag, pr, ops = n[1], n[2], n[3]
        names, prkids = GENERIC[tag]
        el = ET.SubElement(parent, M + tag)
        if pr or props:
            pe = ET.SubElement(el, M + tag + "Pr")
            if isinstance(pr, list):
                # explicit property children [[name, value | None]]: the value strings of family V (None = no m:val)
                for nm, v in pr:
                    c = ET.SubElement(pe, M + nm)
                    if v is not None:
                        c.set(M + "val", v)
                        if "{" in v or "}" in v:
                            lab.has_brace = True
            elif pr:
                for nm, v in prkids:
                    _pval(ET.SubElement(pe, M + nm), v, props)
            ET.SubElement(pe, M + "ctrlPr")
        for nm, v in zip(names, ops):
            _operand(el, nm, v, lab, props)
        return
    if k not in KINDS:
        raise ValueError(k)
    if k in ("nary", "d", "acc") and any("{" in v or "}" in v for v in n[1:3] + n[4:5] if isinstance(v, str)):
        lab.has_brace = True     # a literal brace given as operator / delimiter / accent character
    el = ET.SubElement(parent, M + k)
    if props and k in _PROPS_PR:
        pe = ET.SubElement(el, M + k + "Pr")
        for path in _PROPS_PR[k]:
            q = pe
            for nm in path.split("/"):
                q = ET.SubElement(q, M + nm)
            _pval(q, "1", props)
        ET.SubElement(pe, M + "ctrlPr")
    if k == "f":
        if props:
            pr = ET.SubElement(el, M + "fPr")
            _pval(ET.SubElement(pr, M + "type"), "bar", props)
        _operand(el, "num", n[1], lab, props)
        _operand(el, "den", n[2], lab, props)
    elif k == "sSup":
        _operand(el, "e", n[1], lab, props)
        _operand(el, "sup", n[2], lab, props)
    elif k == "sSub":
        _operand(el, "e", n[1], lab, props)
        _operand(el, "sub", n[2], lab, props)
    elif k == "sSubSup":
        _operand(el, "e", n[1], lab, props)
        _operand(el, "sub", n[2], lab, props)
        _operand(el, "sup", n[3], lab, props)
    elif k == "rad":
        if props:
            pr = ET.SubElement(el, M + "radPr")
            if n[1] is None:
                _pval(ET.SubElement(pr, M + "degHide"), "1", props)
        _operand(el, "deg", n[1], lab, props)
        _operand(el, "e", n[2], lab, props)
    elif k == "nary":
        ch = n[1]
        if ch != "absent":
            pr = ET.SubElement(el, M + "naryPr")
            if ch != "nochr":
                c = ET.SubElement(pr, M + "chr")
                if ch != "noval":
                    c.set(M + "val", ch)
            _pval(ET.SubElement(pr, M + "limLoc"), "undOvr", props)
            if props:
                _pval(ET.SubElement(pr, M + "grow"), "1", props)
                ET.SubElement(pr, M + "ctrlPr")
        _operand(el, "sub", n[2], lab, props)
        _operand(el, "sup", n[3], lab, props)
        _operand(el, "e", n[4], lab, props)
    elif k == "d":
        b, e_ = n[1], n[2]
        sep = n[4] if len(n) > 4 else "absent"      # optional 5th field: m:sepChr (absent / noval / value string)
        if not (b == "nodpr" and e_ == "nodpr" and sep == "absent"):
            pr = ET.SubElement(el, M + "dPr")
            for nm, v in (("begChr", b), ("sepChr", sep), ("endChr", e_)):
                if v in ("absent", "nodpr"):
                    continue
                c = ET.SubElement(pr, M + nm)
                if v != "noval":
                    c.set(M + "val", D_END.get(v, v) if nm == "endChr" else v)
            if props:
                _pval(ET.SubElement(pr, M + "grow"), "1", props)
                ET.SubElement(pr, M + "ctrlPr")
        for ev in n[3]:
            _operand(el, "e", ev if ev is not None else [], lab, props)
    elif k == "m":
        for row in n[1]:
            mr = ET.SubElement(el, M + "mr")
            for cell in row:
                _operand(mr, "e", cell if cell is not None else [], lab, props)
    elif k == "func":
        _operand(el, "fName", n[1], lab, props)
        _operand(el, "e", n[2], lab, props)
    elif k == "bar":
        _operand(el, "e", n[1], lab, props)
    elif k == "acc":
        ch = n[1]
        if ch != "noaccpr":
            pr = ET.SubElement(el, M + "accPr")
            if ch != "absent":
                c = ET.SubElement(pr, M + "chr")
                if ch != "noval":
                    c.set(M + "val", ch)
            if props:
                ET.SubElement(pr, M + "ctrlPr")
        _operand(el, "e", n[2], lab, props)
    else:
        raise ValueError(k)


# ---------------------------------------------------------------- reference (documented templates)


class NotWellFormed(Exception):
    pass


_OP = {"∑": "\\sum", "∏": "\\prod", "∫": "\\int", "∬": "\\iint", "∭": "\\iiint"}
_ACC = {"̂": "\\hat", "̃": "\\tilde", "̄": "\\bar", "⃗": "\\vec", "̇": "\\dot"}
_FN = {"sin": "\\sin", "cos": "\\cos", "tan": "\\tan", "log": "\\log", "ln": "\\ln", "lim": "\\lim", "exp": "\\exp",
       "max": "\\max", "min": "\\min"}


class Texts:
    """iterator over the concrete run texts in source order + reference options"""

    def __init__(self, texts, conv=None, op_conv=True, acc_mark=False, sep_chr=False):
        self.it = iter(texts)
        self.conv = conv or (lambda c: REF_SYM.get(c, c))
        self.op_conv = op_conv      # n-ary operator character passed through the symbol table (else verbatim)
        self.acc_mark = acc_mark    # an accent value of several code points: rendered by its last documented mark (else \hat)
        self.sep_chr = sep_chr      # a delimiter with an explicit m:sepChr: operands joined by it (else by ", ")

    def __next__(self):
        return next(self.it)


def ref_latex(nodes, texts):
    """texts: a Texts over the concrete run texts in source order."""
    return "".join(_ref(n, texts) for n in nodes)


def _req(v, texts):
    if v is None:
        raise NotWellFormed("mandatory operand absent")
    return ref_latex(v, texts)


def _opt(v, texts):
    return "" if v is None else ref_latex(v, texts)


def _ref(n, texts):
    k = n[0]
    if k == "r":
        t = next(texts)
        if any(c in BRACKETS for c in t):
            raise NotWellFormed("bracket run")   # interaction with the malformed-sqrt repair is not template-defined
        return "".join(texts.conv(c) for c in t)
    if k == "g":
        raise NotWellFormed("object without a documented LaTeX form")
    if k == "f":
        a = _req(n[1], texts); b = _req(n[2], texts)
        return "\\frac{%s}{%s}" % (a, b)
    if k == "sSup":
        a = _req(n[1], texts); b = _req(n[2], texts)
        return "%s^{%s}" % (a, b)
    if k == "sSub":
        a = _req(n[1], texts); b = _req(n[2], texts)
        return "%s_{%s}" % (a, b)
    if k == "sSubSup":
        a = _req(n[1], texts); b = _req(n[2], texts); c = _req(n[3], texts)
        return "%s_{%s}^{%s}" % (a, b, c)
    if k == "rad":
        d = _opt(n[1], texts).strip(); e = _req(n[2], texts)
        return ("\\sqrt[%s]{%s}" % (d, e)) if d else ("\\sqrt{%s}" % e)
    if k == "nary":
        if n[1] in ("absent", "nochr", "noval"):
            raise NotWellFormed("nary without operator character")
        op = _OP.get(n[1]) or ("".join(texts.conv(c) for c in n[1]) if texts.op_conv else n[1])
        s = _opt(n[2], texts); p = _opt(n[3], texts); e = _req(n[4], texts)
        out = op
        if s.strip():
            out += "_{%s}" % s
        if p.strip():
            out += "^{%s}" % p
        return out + " " + e
    if k == "d":
        if "noval" in (n[1], n[2]):
            raise NotWellFormed("delimiter char without value")
        left = "(" if n[1] in ("absent", "nodpr") else n[1]
        right = ")" if n[2] in ("absent", "nodpr") else D_END.get(n[2], n[2])
        if not n[3]:
            raise NotWellFormed("delimiter without operand")
        sep = ", "
        if len(n) > 4 and n[4] != "absent":
            if n[4] == "noval":
                raise NotWellFormed("separator char without value")
            if texts.sep_chr:
                sep = n[4]
        return left + sep.join(ref_latex(e if e is not None else [], texts) for e in n[3]) + right
    if k == "m":
        if not n[1]:
            raise NotWellFormed("matrix without rows")
        return "\\begin{matrix}" + " \\\\ ".join(" & ".join(ref_latex(c if c is not None else [], texts) for c in row) for row in n[1]) + "\\end{matrix}"
    if k == "func":
        f = _req(n[1], texts); e = _req(n[2], texts)
        return "%s{%s}" % (_FN.get(f.strip(), f), e)
    if k == "bar":
        return "\\overline{%s}" % _req(n[1], texts)
    if k == "acc":
        ch = n[1]
        acc = _ACC.get(ch, "\\hat")
        if texts.acc_mark and len(ch) > 1 and ch not in ("absent", "noval", "noaccpr"):
            marks = [c for c in ch if c in _ACC]
            if marks:
                acc = _ACC[marks[-1]]
        return "%s{%s}" % (acc, _req(n[2], texts))
    raise ValueError(k)


# ---------------------------------------------------------------- oracle


def evaluate(tree, seed=0):
    """Run the real converter on one tree; return list of (clause, message)."""
    from sharepoint2text.parsing.extractors.util.omml_to_latex import omml_to_latex
    lab = Labeler(seed)
    try:
        root = build(tree, lab)
    except OverflowError:
        return [], None
    fails = []
    try:
        out = omml_to_latex(root)
    except RecursionError:
        raise
    except Exception as e:  # noqa
        return [("raises", f"{type(e).__name__}: {e}")], None
    try:
        out2 = omml_to_latex(root)
    except Exception as e:  # noqa
        return [("nondet", f"second call raised {type(e).__name__}")], None
    if not isinstance(out, str):
        return [("raises", f"returned {type(out).__name__}")], None
    if out != out2:
        fails.append(("nondet", f"{out!r} != {out2!r}"))
    pos = []
    once_ok = True
    for c in lab.order:
        k = out.count(c)
        if k != 1:
            fails.append(("once", f"run text {c!r} occurs {k} times in {out!r}"))
            once_ok = False
            break
        pos.append(out.index(c))
    if once_ok and pos != sorted(pos):
        fails.append(("order", f"runs {lab.order} out of order in {out!r}"))
    for s, cnt in lab.syms.items():
        if out.count(SYM[s]) != cnt:
            fails.append(("symbols", f"{SYM[s]} occurs {out.count(SYM[s])} times, expected {cnt}, in {out!r}"))
            break
    if not lab.has_brace:
        depth = 0
        bad = False
        for ch in out:
            if ch == "{":
                depth += 1
            elif ch == "}":
                depth -= 1
                if depth < 0:
                    bad = True
                    break
        if bad or depth != 0:
            fails.append(("balance", f"unbalanced braces in {out!r}"))
    # template equality on the well-formed subset
    lab2 = Labeler(seed)
    texts = []
    _collect(tree[1], lab2, texts)
    conv = _converter()
    # emit: every run's text, bracket-free segment by segment, in source order
    pos = 0
    for t in texts:
        for seg in _BRACKET_SPLIT.split(t):
            want = "".join(conv(c) for c in seg).strip()
            if not want:
                continue
            i = out.find(want, pos)
            if i < 0:
                fails.append(("emit", f"text {want!r} of run {t!r} missing (or out of source order) in {out!r}"))
                break
            pos = i + len(want)
        else:
            continue
        break
    try:
        exp = ref_latex(tree[1], Texts(texts, conv))
        if out != exp and not any(out == ref_latex(tree[1], Texts(texts, conv, op_conv=o, acc_mark=a, sep_chr=s_))
                                  for o, a, s_ in itertools.product((True, False), repeat=3)):
            fails.append(("template", f"got {out!r}, documented form {exp!r}"))
    except NotWellFormed:
        pass
    return fails, out


_BRACKET_SPLIT = re.compile("[" + re.escape(BRACKETS) + "]")


def _converter():
    """char -> expected rendering: the frozen table first; a character outside it passes through unchanged unless the
    library's own table declares a command for it (extending the table is not a violation)."""
    try:
        from sharepoint2text.parsing.extractors.util.omml_to_latex import GREEK_TO_LATEX as lib
        lib = {k: v for k, v in lib.items() if isinstance(k, str) and isinstance(v, str) and k not in REF_SYM}
    except Exception:  # noqa
        lib = {}
    if not lib:
        return lambda c: REF_SYM.get(c, c)
    return lambda c: REF_SYM.get(c) or lib.get(c, c)


def operand_lists(n):
    """the operand lists of a structure node in source (= build) order"""
    k = n[0]
    if k == "nary":
        return list(n[2:5])
    if k == "d":
        return list(n[3])
    if k == "m":
        return [cell for row in n[1] for cell in row]
    if k == "acc":
        return [n[2]]
    if k == "g":
        return list(n[3])
    return list(n[1:])


def _collect(nodes, lab, texts):
    for n in nodes:
        if n is None:
            continue
        if n[0] == "r":
            texts.append(lab.run_text(n[1]))
        else:
            for x in operand_lists(n):
                _collect(x or [], lab, texts)


def _has_lone_bracket_rad(nodes):
    return False  # bracket runs already raise NotWellFormed in _ref


def reexec(fmt, case):
    seed = int(os.environ.get("VERIF_SEED", "0"))
    if fmt == "history":
        return evaluate_history(case, seed)
    if fmt in ("docx", "pptx"):
        from verif.props import c19_docs
        return [(c, m) for _, c, m in c19_docs.evaluate_pack(fmt, [case], seed)]
    if fmt == "dochist":
        from verif.props import c19_docs
        probe = [case["probe"]] if case.get("probe") else [["omath", [R("L")]]]
        r = c19_docs.run_history({"seed": seed, "tier": "quick", "events": case["events"], "probe": probe})
        return [(c, m) for c, _, _, m in r["fails"]]
    fails, _ = evaluate(case, seed)
    return fails


def _convert(tree, seed):
    from sharepoint2text.parsing.extractors.util.omml_to_latex import omml_to_latex
    try:
        return omml_to_latex(build(tree, Labeler(seed)))
    except Exception as e:  # noqa
        return f"!{type(e).__name__}"


def evaluate_history(case, seed=0):
    """case = [treeA, treeB]: converting B after A must give what B gives on its own (fresh baseline = B converted
    after a neutral formula, which is how the baseline table is produced)."""
    a, b = case
    neutral = ["omath", [R("L")]]
    _convert(neutral, seed)
    base = _convert(b, seed)
    _convert(neutral, seed)
    _convert(a, seed)
    got = _convert(b, seed)
    _convert(neutral, seed); _convert(["omath", [R(")"), R("]"), R("}")]], seed)   # leave no armed state behind
    if got != base:
        return [("history", f"after converting {a} the formula {b} gives {got!r} instead of {base!r}")]
    return []


def shrinks(case):
    from verif.mc.findings import generic_shrinks
    if isinstance(case, dict):      # document history {"events": [...], "probe": tree}
        evs = case["events"]
        for i in range(len(evs)):
            if len(evs) > 1:
                yield dict(case, events=evs[:i] + evs[i + 1:])
        for i, e in enumerate(evs):
            if e[0] in ("docx", "pptx", "xlsx") and e[1] != "text":
                yield dict(case, events=evs[:i] + [[e[0], "text"]] + evs[i + 1:])
        if case.get("probe"):
            for sp in shrinks(case["probe"]):
                if isinstance(sp, list) and len(sp) == 2 and sp[0] in WRAPPERS and isinstance(sp[1], list):
                    yield dict(case, probe=sp)
        return
    if len(case) == 2 and isinstance(case[0], list) and case[0] and case[0][0] in WRAPPERS:
        for i in (0, 1):       # history pair
            for s in shrinks(case[i]):
                c = list(case); c[i] = s
                yield c
        return
    if not (isinstance(case, list) and len(case) == 2):
        yield from generic_shrinks(case)
        return
    if case[0] != "omath":
        yield ["omath", case[1]]
    yield from generic_shrinks(case)

    def subst(x):
        if isinstance(x, list) and len(x) == 4 and x[0] == "g" and isinstance(x[3], list):
            if x[2]:
                yield x[:2] + [0] + x[3:]
            for i, o in enumerate(x[3]):
                if o is not None:
                    yield x[:3] + [x[3][:i] + [None] + x[3][i + 1:]]
        if isinstance(x, list) and len(x) == 2 and x[0] == "r" and isinstance(x[1], str) and x[1] != "L" and x[1] in SYM:
            yield ["r", "L"]
        if isinstance(x, list) and x and x[0] in KINDS:
            for i in range(1, len(x)):
                if isinstance(x[i], list) and x[0] not in ("d", "m"):
                    yield x[:i] + [None] + x[i + 1:]
                if isinstance(x[i], str) and x[i] not in ("absent",) and x[0] in ("nary", "d", "acc"):
                    yield x[:i] + ["absent"] + x[i + 1:]
        if isinstance(x, list):
            for i, y in enumerate(x):
                for sy in subst(y):
                    yield x[:i] + [sy] + x[i + 1:]
    yield from subst(case)


X_FAMILIES_QUICK = ("Aw", "B2", "T1", "T2", "G1", "V1", "V3")     # + XA below


def xa_cases():
    """XA: every single structure over the operand lattice absent / empty / each run text (2-operand constructors) and
    absent / empty / label (3-operand constructors) - the slice of family A that the quick tier sends through documents"""
    for s_ in structures(opnds(RUNS, pairs=False), [None, [], [R("L")]]):
        yield ["omath", [s_]]


def _hist_part(tier, idx, seed):
    """one document-history sequence in a fresh interpreter"""
    from verif.props import c19_docs
    seq = c19_docs.history_sequences(tier)[idx]
    r = c19_docs.run_history({"seed": seed, "tier": tier, "events": seq})
    fails = [(c, "dochist", {"events": evs, "probe": probe}, m) for c, evs, probe, m in r["fails"]]
    return {"ev": r["probes"] * (r["events"] + 1), "fails": fails, "outs": 0, "outset": [], "fam": {"H3": r["probes"] * (r["events"] + 1)},
            "samples": [], "h3": {"sequences": 1, "events": r["events"], "probe_trees": r["probes"]}}


def _part(arg):
    tier, k, n, seed = arg
    if isinstance(k, str):
        return _hist_part(tier, int(k[1:]), seed)
    ev = 0
    fails = []
    outs = set()
    fam = {}
    wf = 0
    samples = []
    xtrees = []
    xenum = enumerate_cases("quick") if tier != "quick" else None
    if xenum is not None:
        # thorough: every tree of the QUICK enumeration goes through the documents
        xtrees = [t for i, (_, t) in enumerate(xenum) if i % n == k]
    else:
        xtrees = [t for i, t in enumerate(xa_cases()) if i % n == k]
    for i, (family, tree) in enumerate(enumerate_cases(tier)):
        if i % n != k:
            continue
        if xenum is None and family in X_FAMILIES_QUICK:
            xtrees.append(tree)
        f, out = evaluate(tree, seed)
        ev += 1
        fam[family] = fam.get(family, 0) + 1
        if out is not None:
            outs.add(hash(out))
        for clause, msg in f:
            fails.append((clause, "omml", tree, msg))
        if len(samples) < 2 and ev in (1, 500):
            samples.append({"tree": tree, "latex": out})
    if k == 0 or True:
        # H: histories of length 2 over the node alphabet (explicit pairs A;B) - this partition's share
        N1 = node_alphabet()
        hist = [n for n in N1 if n[0] != "r" or n[1] in ("L", ")", "]", "}")]
        j = 0
        for a in hist:
            for b in hist:
                j += 1
                if j % n != k:
                    continue
                ta = ["omath", [a]]
                tb = ["omath", [R("L"), b, R(")"), R("L")]]
                ev += 1
                fam["H2"] = fam.get("H2", 0) + 1
                for clause, msg in evaluate_history([ta, tb], seed):
                    fails.append((clause, "history", [ta, tb], msg))
    # X: the document path - packs of PACK formulas per generated .docx / .pptx
    from verif.props import c19_docs
    for fmt in ("docx", "pptx"):
        for i in range(0, len(xtrees), c19_docs.PACK):
            pack = xtrees[i:i + c19_docs.PACK]
            ev += len(pack)
            fam["X" + fmt] = fam.get("X" + fmt, 0) + len(pack)
            for idx, clause, msg in c19_docs.evaluate_pack(fmt, pack, seed):
                fails.append((clause, fmt, pack[idx] if idx is not None else pack[0], msg))
    return {"ev": ev, "fails": fails, "outs": len(outs), "outset": list(outs)[:200000], "fam": fam, "samples": samples}


def run(ctx):
    n = ctx.ncpu * 4
    args = [(ctx.tier, k, n, ctx.seed) for k in range(n)]
    rnd = random.Random(ctx.seed)
    rnd.shuffle(args)
    from verif.props import c19_docs
    nseq = len(c19_docs.history_sequences(ctx.tier))
    args = [(ctx.tier, "H%d" % i, n, ctx.seed) for i in range(nseq)] + args     # fresh-interpreter histories start first
    h3 = {"sequences": 0, "events": 0, "probe_trees": 0}
    res = P.run_all("verif.props.C19", "_part", args, n=ctx.ncpu, hard_timeout=1800)
    ev = 0
    fails = []
    outs = set()
    fam = {}
    samples = []
    herr = []
    for st, r, _ in res:
        if st != "done":
            herr.append(f"partition failed: {st}: {str(r)[-500:]}")
            continue
        ev += r["ev"]
        fails += [tuple(x) for x in r["fails"]]
        outs.update(r["outset"])
        for k_, v in r["fam"].items():
            fam[k_] = fam.get(k_, 0) + v
        samples += r["samples"]
        if r.get("h3"):
            h3["sequences"] += 1
            h3["events"] += r["h3"]["events"]
            h3["probe_trees"] = r["h3"]["probe_trees"]
    samples = sorted(samples, key=lambda s: str(s))[:5]
    cov = {"evaluations": ev, "distinct_nontrivial": len(outs),
           "rule": "every OMML tree of the constructor grammar (families A: single structure x operand lattice incl. absent/empty/"
                   "bracket/symbol operands and every chr/begChr/endChr presence variant; Aw: oMathPara/property-element wrappers; "
                   "B2/B3: all 2- and 3-sequences over a ~65-node alphabet; C2/D3/E4: every operand slot nested to depth 2/3/4) "
                   "built as ElementTree and converted by the real omml_to_latex; T1-T8: every character of the text alphabet "
                   "(all code points of the Unicode blocks the symbol table touches = every mapped symbol and its unmapped "
                   "neighbours, printable ASCII, spaces, samples of other planes) alone / between labels / between mapped symbols "
                   "in one run, in a numerator, in the whitespace-sensitive slots, as n-ary / delimiter / accent character, "
                   "thorough: in every operand slot and all ordered pairs over the neighbour alphabet; G1-G6: the OMML objects "
                   "without a dedicated form (limLow limUpp sPre box borderBox groupChr eqArr phant) x property element x "
                   "argument lattice, in every slot of every constructor, holding every node of the alphabet, as function "
                   "name, nested; V1-V4: the ATTRIBUTES - value strings (empty / one / several code points: carrier + mark, two "
                   "marks, two operators, bracket pairs, commands) of m:chr (naryPr, accPr, groupChrPr), m:begChr, m:endChr, "
                   "m:sepChr: named strings x every presence variant and operand lattice, every string of length 0..2 over the "
                   "value base alphabet as each attribute, in every operand slot; every property element with its m:val empty / "
                   "absent (wrappers propsE / propsN); distinct_nontrivial = distinct LaTeX outputs; Xdocx/Xpptx: the trees of the families "
                   "listed in bounds.document_path_families embedded in generated .docx/.pptx (16 per document), extracted by "
                   "read_docx/read_pptx, formulas and text compared with the direct conversion; H3: document histories in fresh "
                   "interpreters - the probe set converted before and after every event (extraction of a generated "
                   "docx/pptx/xlsx of kind text/math/rich, a direct conversion, thorough: every shipped resource file)",
           "samples": samples, "families": fam, "exhaustive": True,
           "bounds": {"tier": ctx.tier, "depth": 3 if ctx.quick else 4, "sequence_length": 3,
                      "text_alphabet_chars": len(char_alphabet(ctx.tier)), "mapped_symbols": len(REF_SYM),
                      "neighbour_alphabet_chars": len(neighbour_alphabet()),
                      "symbol_blocks": ["U+%04X-U+%04X" % b for b in SYMBOL_BLOCKS],
                      "extra_blocks": ["U+%04X-U+%04X" % b for b in EXTRA_BLOCKS] if not ctx.quick else "sample of %d" % len(EXTRA_SAMPLE),
                      "value_strings_named": len(VSTR), "value_base_alphabet_chars": len(VBASE),
                      "value_strings_enumerated": len(value_strings(ctx.tier)),
                      "value_string_length": "0..2 over VBASE" if ctx.quick else "0..2 over VBASE, 3 over VBASE3 (%d chars)" % len(VBASE3),
                      "value_attributes": ["naryPr/chr", "accPr/chr", "groupChrPr/chr", "dPr/begChr", "dPr/endChr", "dPr/sepChr"],
                      "property_val_modes": ["given", "empty (propsE)", "attribute absent (propsN)"],
                      "generic_objects": GTAGS, "generic_argument_lattice": "absent, empty, run, symbol, two runs",
                      "document_path_families": ["XA"] + list(X_FAMILIES_QUICK) if ctx.quick else "every family of the quick enumeration",
                      "document_formats": ["docx", "pptx"], "formulas_per_document": c19_docs.PACK,
                      "document_history": dict(h3, event_alphabet=c19_docs.event_alphabet(ctx.tier),
                                               sequences_rule="quick: alphabet in order, reversed, math documents repeated; "
                                                              "thorough: + every rotation, every a;b;a, shipped resource files "
                                                              "in sorted and reverse order")}}
    return {"coverage": cov, "failures": fails, "harness_errors": herr,
            "assumptions": ["ElementTree built in memory is equivalent to the tree ET parses from XML text",
                            "reference templates transcribed from the module docstring; compared only on the well-formed subset "
                            "(all mandatory operands present, operator characters given, no bracket runs, no object without a "
                            "documented form); an n-ary operator character outside the documented five may be rendered verbatim "
                            "or through the symbol table; an accent value of several code points gives \\hat or the command of "
                            "its last documented mark; delimiter operands are joined by ', ' or by an explicitly given m:sepChr",
                            "the symbol table is a frozen transcription (REF_SYM, 87 entries); a character outside it must pass "
                            "through unchanged or as the command the library's own table declares for it",
                            "document path: the formula is serialised by verif/gen/ooxml.py (m: prefix, xml:space=preserve "
                            "on whitespace text) - parsing it back gives the in-memory tree; in the document TEXT the amount and "
                            "kind of whitespace is not compared (paragraph-level blank-line normalisation is not a matter of the "
                            "conversion), a formula whose LaTeX is blank may be dropped from formulas and text",
                            "document histories run in a fresh interpreter started with the environment of the check; the "
                            "probe set is judged against its own conversion at the start of that interpreter",
                            "run texts are limited to XML-representable characters; label characters (digits, U+00C0-U+00DE) "
                            "are not part of the character alphabet"]}
