"""C15 helper: documents that fail (or nearly fail) DEEP INSIDE an extractor instead of at its front door.

Truncated files are rejected while the container is opened; these are well-formed and are rejected - if at all - by the
interpreter in the middle of the recursive walk over the document tree, after the extractor has allocated, patched,
cached or reconfigured whatever it needs. Shape x depth ladder:

  shapes   html-div, html-list, html-table, mhtml-div, epub-div, odt-span, docx-sdt, docx-smarttag, pptx-group, rtf-group,
           zip-html (archive member), eml-multipart (depth/10 nested multipart/mixed entities)
  depths   q = L0/4 (extracted on the unchanged tree), 2 = 2*L0, 16 = 16*L0, 128 = 128*L0 nested elements around the one
           text token, L0 = 1000 = CPython's default recursion limit (a constant, NOT sys.getrecursionlimit(): the bytes
           of a document must not depend on the state of the process that writes them)

id: "deep:<shape>:<depth>".
"""
from __future__ import annotations

import io
import zipfile

L0 = 1000
MULT = {"q": L0 // 4, "2": 2 * L0, "16": 16 * L0, "128": 128 * L0}
TOKEN = "Bbcdfg"
_DOC = ["doc", {"title": "Tt"}, [["unit", [["p", [["t", TOKEN]]]], {}]]]
_GRP = '<p:grpSp><p:nvGrpSpPr><p:cNvPr id="9" name="G"/><p:cNvGrpSpPr/><p:nvPr/></p:nvGrpSpPr><p:grpSpPr/>'

SHAPES = ("html-div", "html-list", "html-table", "mhtml-div", "epub-div", "odt-span", "docx-sdt", "docx-smarttag", "pptx-group",
          "rtf-group", "zip-html", "eml-multipart")
NAMES = {"html-div": "deep/div.html", "html-list": "deep/list.html", "html-table": "deep/table.html", "mhtml-div": "deep/div.mhtml",
         "epub-div": "deep/div.epub", "odt-span": "deep/span.odt", "docx-sdt": "deep/sdt.docx", "docx-smarttag": "deep/smarttag.docx",
         "pptx-group": "deep/group.pptx", "rtf-group": "deep/group.rtf", "zip-html": "deep/member.zip", "eml-multipart": "deep/multipart.eml"}


def _nest(zb: bytes, member: str, target: str, o: str, c: str, d: int, stored: bool = False) -> bytes:
    """re-pack a package with `target` (first occurrence in `member`) wrapped in d nested o...c pairs"""
    zin = zipfile.ZipFile(io.BytesIO(zb))
    out = io.BytesIO()
    with zipfile.ZipFile(out, "w") as zout:
        for it in zin.infolist():
            data = zin.read(it.filename)
            if it.filename == member:
                s = data.decode("utf-8")
                if target not in s:
                    raise ValueError(f"{member}: wrap target not found")
                data = s.replace(target, o * d + target + c * d, 1).encode("utf-8")
            zi = zipfile.ZipInfo(it.filename, date_time=it.date_time)
            zi.compress_type = zipfile.ZIP_STORED if stored else it.compress_type
            zi.external_attr = it.external_attr
            zout.writestr(zi, data)
    return out.getvalue()


def _html(d: int, o: str = "<div>", c: str = "</div>") -> str:
    from verif.gen import htmlfam
    return htmlfam.html_page(o * d + TOKEN + c * d)


def build(shape: str, depth: str) -> bytes:
    from verif.gen import htmlfam, odf, ooxml
    d = MULT[depth]
    if shape == "html-div":
        return _html(d).encode()
    if shape == "html-list":
        return _html(d, "<ul><li>", "</li></ul>").encode()
    if shape == "html-table":
        return htmlfam.html_page("<table>" + "<tr><td><table>" * d + f"<tr><td>{TOKEN}</td></tr>" + "</table></td></tr>" * d + "</table>").encode()
    if shape == "mhtml-div":
        return htmlfam.mhtml(_html(d))
    if shape == "epub-div":
        ep = htmlfam.epub([htmlfam.xhtml_page("<div>" * d + TOKEN + "</div>" * d, "t")], {"title": "t"})
        return _nest(ep, "-", "-", "", "", 0, stored=True)      # stored: the compression-ratio guard is not the subject here
    if shape == "odt-span":
        return _nest(odf.odt(_DOC), "content.xml", TOKEN, "<text:span>", "</text:span>", d)
    if shape in ("docx-sdt", "docx-smarttag"):
        zb = ooxml.docx(_DOC)
        s = zipfile.ZipFile(io.BytesIO(zb)).read("word/document.xml").decode("utf-8")
        if shape == "docx-sdt":
            a, b = s.index("<w:p>"), s.index("</w:p>") + len("</w:p>")
            return _nest(zb, "word/document.xml", s[a:b], "<w:sdt><w:sdtContent>", "</w:sdtContent></w:sdt>", d)
        a, b = s.index("<w:r>"), s.index("</w:r>") + len("</w:r>")
        return _nest(zb, "word/document.xml", s[a:b], "<w:smartTag>", "</w:smartTag>", d)
    if shape == "pptx-group":
        zb = ooxml.pptx(_DOC)
        s = zipfile.ZipFile(io.BytesIO(zb)).read("ppt/slides/slide1.xml").decode("utf-8")
        a, b = s.index("<p:sp>"), s.index("</p:sp>") + len("</p:sp>")
        return _nest(zb, "ppt/slides/slide1.xml", s[a:b], _GRP, "</p:grpSp>", d)
    if shape == "rtf-group":
        return ("{\\rtf1\\ansi " + "{" * d + TOKEN + "}" * d + "}").encode()
    if shape == "zip-html":
        out = io.BytesIO()
        with zipfile.ZipFile(out, "w", zipfile.ZIP_STORED) as z:
            z.writestr(zipfile.ZipInfo("a.html", (2020, 1, 1, 0, 0, 0)), _html(d))
            z.writestr(zipfile.ZipInfo("b.txt", (2020, 1, 1, 0, 0, 0)), "Bcdfgh")
        return out.getvalue()
    if shape == "eml-multipart":
        n = d // 10
        head = "From: a@b.example\r\nTo: c@d.example\r\nSubject: Sbcdfg\r\nDate: Mon, 01 Jan 2024 00:00:00 +0000\r\nMIME-Version: 1.0\r\n"
        body = ("".join(f'Content-Type: multipart/mixed; boundary="b{i}"\r\n\r\n--b{i}\r\n' for i in range(n))
                + f"Content-Type: text/plain; charset=us-ascii\r\n\r\n{TOKEN}\r\n" + "".join(f"--b{i}--\r\n" for i in reversed(range(n))))
        return (head + body).encode()
    raise KeyError(shape)


def load(doc: str):
    """"deep:<shape>:<depth>" -> (bytes, path argument)"""
    _, shape, depth = doc.split(":")
    return build(shape, depth), NAMES[shape]


def family(tier: str) -> list:
    if tier == "quick":
        return ["deep:html-div:2", "deep:html-div:16", "deep:odt-span:16", "deep:docx-sdt:2"]
    out = [f"deep:{s}:{m}" for s in SHAPES for m in ("q", "2", "16") if not (s == "html-table" and m == "16")]
    return out + ["deep:html-div:128", "deep:odt-span:128", "deep:docx-sdt:128"]
